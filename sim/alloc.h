/* malloc layer for objects compiled from /repo, see alloc.c */
#ifndef SIM_ALLOC_H
#define SIM_ALLOC_H
#include <stddef.h>
#include <stdint.h>
#include <stdbool.h>

void sim_alloc_reset(void);
unsigned sim_alloc_live(void);
uint64_t sim_alloc_live_bytes(void);
void sim_alloc_describe_live(char *buf, size_t len);
/** fails the k-th eligible allocation from now on (k >= 1), once */
void sim_alloc_arm(int k);
/** fails the k-th eligible allocation and every one after it */
void sim_alloc_arm_sticky(int k);
/** returns the remaining countdown (> 0: the fault did not fire) */
int sim_alloc_disarm(void);
/** harness code that allocates on its own behalf inside an armed operation */
void sim_alloc_suspend(void);
void sim_alloc_resume(void);
unsigned sim_alloc_eligible_seen(void);
unsigned sim_alloc_failed(void);
/** NULL-terminated list of function names whose allocations may fail;
 * NULL = any caller */
void sim_alloc_set_allow_list(const char *const *names);
const char *sim_alloc_caller_name(void *ret_addr);

void *sim_repo_malloc(size_t size);
void *sim_repo_calloc(size_t n, size_t size);
void *sim_repo_realloc(void *old, size_t size);
void sim_repo_free(void *p);
char *sim_repo_strdup(const char *s);
char *sim_repo_strndup(const char *s, size_t n);
/** fault point for allocators other than malloc (umem_sim): consumes one step
 * of the armed countdown, returns true if this allocation must fail */
bool sim_alloc_fault_point(const char *what);
/** switches the fault points of the other allocators off (the armed countdown then only counts malloc callers) */
void sim_alloc_fault_points(bool on);

/* ---- umem_sim: a umem manager with accounting, red zones and faults */
struct umem_mgr;
struct umem_mgr *umem_sim_mgr_alloc(unsigned sub_offset);
unsigned umem_sim_live(void);
/** called at the beginning of every umem_free */
extern void (*umem_sim_free_observer)(void);
uint64_t umem_sim_allocs(void);
#endif
