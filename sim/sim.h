/*
 * simcore: deterministic simulation kernel for the Upipe verification harnesses.
 *
 *  - one 64-bit seed decides everything (xoshiro256** streams derived by splitmix)
 *  - simulated threads are ucontext fibers inside one OS thread
 *  - every nondeterministic choice taken while a run executes (who runs next,
 *    which ready pump is dispatched, whether a legal fault fires) goes through
 *    the decision tape: generated from the seed, recorded, replayed verbatim
 *  - simulated event descriptors, simulated 27 MHz clock
 *  - explicit plans (operation lists), text replay files, fork-based shrinker
 */
#ifndef SIM_H
#define SIM_H

#include <stdint.h>
#include <stdbool.h>
#include <stddef.h>
#include <stdio.h>

/* ------------------------------------------------------------------ PRNG */
struct sim_rng { uint64_t s[4]; };
uint64_t sim_mix(uint64_t a, uint64_t b);
void sim_rng_seed(struct sim_rng *r, uint64_t seed);
uint64_t sim_rng_next(struct sim_rng *r);
/** uniform in [0, n) ; n > 0 */
uint32_t sim_rng_below(struct sim_rng *r, uint32_t n);
/** uniform in [lo, hi] */
int64_t sim_rng_range(struct sim_rng *r, int64_t lo, int64_t hi);
bool sim_rng_chance(struct sim_rng *r, uint32_t num, uint32_t den);

/* ------------------------------------------------------------------ plans */
#define SIM_MAX_OPS   512
#define SIM_NARGS     6
#define SIM_NCFG      24

struct sim_op {
    int16_t task;               /* which simulated client executes it */
    int16_t code;               /* engine-specific operation code */
    int64_t a[SIM_NARGS];       /* arguments, interpreted modulo what is legal */
};

struct sim_plan {
    uint64_t seed;              /* run seed this plan was generated from */
    int64_t cfg[SIM_NCFG];      /* per-run configuration knobs */
    int nops;
    struct sim_op ops[SIM_MAX_OPS];
};

static inline struct sim_op *sim_plan_add(struct sim_plan *p, int task, int code,
                                          int64_t a0, int64_t a1, int64_t a2,
                                          int64_t a3, int64_t a4, int64_t a5)
{
    if (p->nops >= SIM_MAX_OPS)
        return NULL;
    struct sim_op *op = &p->ops[p->nops++];
    op->task = task; op->code = code;
    op->a[0] = a0; op->a[1] = a1; op->a[2] = a2;
    op->a[3] = a3; op->a[4] = a4; op->a[5] = a5;
    return op;
}
uint64_t sim_plan_hash(const struct sim_plan *p);

/* --------------------------------------------------------- decision tape */
enum sim_choice_kind {
    SIM_CH_SCHED = 1,   /* value = task id chosen (0xffff = keep current) */
    SIM_CH_LOOP,        /* value = index of the ready pump dispatched */
    SIM_CH_FAULT,       /* value = 1 when a legal fault fires (0 = no) */
    SIM_CH_MISC,        /* engine specific */
};
#define SIM_TAPE_KEEP 0xffff

struct sim_tape_ent { uint16_t kind; uint16_t value; };
struct sim_tape {
    uint32_t n;
    uint32_t cap;
    struct sim_tape_ent *e;
};

/* scheduling strategies (swarm: one drawn per run) */
enum sim_strategy {
    SIM_ST_RANDOM = 0, SIM_ST_STICKY4, SIM_ST_STICKY16, SIM_ST_STICKY64,
    SIM_ST_PCT, SIM_ST_STARVE, SIM_ST__N
};

/* --------------------------------------------------------------- results */
#define SIM_V_OK            0
#define SIM_V_CRASH       900  /* sanitizer report, assert, signal */
#define SIM_V_HANG        901  /* wall-clock watchdog inside one run */
/* engine classes are 1..899 */

enum sim_end { SIM_END_DONE = 0, SIM_END_QUIESCENT, SIM_END_BUDGET };

struct sim_result {
    int cls;                    /* violation class, SIM_V_OK if none */
    char msg[400];
    bool nontrivial;
    bool inconclusive;          /* step budget exhausted */
    uint64_t log_hash;          /* hash of the event log */
    uint64_t sched_hash;        /* hash of the decisions taken */
    uint64_t steps;             /* yield points */
    uint64_t switches;          /* context switches */
    uint64_t preemptions;       /* switches away from a task that could have continued */
    uint64_t sim_time;          /* simulated 27 MHz ticks covered */
};

/* ------------------------------------------------------------- the kernel */
/** starts a run. In generate mode decisions come from the seed and are
 * recorded to tape (tape may be NULL); in replay mode they are read from
 * tape and, once exhausted, default. */
void sim_begin(uint64_t seed, struct sim_tape *tape, bool replay);
void sim_end(struct sim_result *res);
/** forces a strategy (generate mode); -1 = drawn from seed */
void sim_set_strategy(int strategy, uint32_t expected_steps);
int sim_strategy(void);

/** creates a simulated thread; returns its id (>= 0). */
int sim_spawn(void (*fn)(void *), void *arg, const char *name, size_t stack);
/** runs tasks until all are done, nothing can run, or the budget is used */
enum sim_end sim_run(uint64_t step_budget);
/** id of the running task, -1 outside any task */
int sim_self(void);
int sim_ntasks(void);
bool sim_task_done(int id);
bool sim_task_blocked(int id);
const char *sim_task_name(int id);
/* yield point kinds beyond the UPIPE_VERIF_* ones of uatomic.h; for the
 * descriptor kinds addr is the descriptor number */
#define SIM_PT_FD_READ   100
#define SIM_PT_FD_WRITE  101
#define SIM_PT_MUTEX     102
#define SIM_PT_THREAD    103
#define SIM_PT_LOOP      104
#define SIM_PT_USER      105
/** a yield point */
void sim_point(int kind, const volatile void *addr);
/** called right before the announced access executes (after any switch) */
extern void (*sim_point_observer)(int kind, const volatile void *addr);
/** called on entry of a yield point, before any switch: no other task has run
 * since the caller's previous announced access executed */
extern void (*sim_point_enter)(int kind, const volatile void *addr);
/** true if task id (not the caller) is parked right before that access */
bool sim_task_parked_at(int id, int kind, const volatile void *addr);
/** blocks the running task until pred(arg) is true, or simulated time reaches
 * wake_at (UINT64_MAX = never). Returns true if pred became true. */
bool sim_wait(bool (*pred)(void *), void *arg, uint64_t wake_at);
/** generic recorded choice in [0, n): in generate mode drawn from the fault
 * stream, 0 being returned with probability 1 - num/den. */
uint32_t sim_choose(int kind, uint32_t n, uint32_t num, uint32_t den);
/** makes every sim_choose() return the default (used by differential runs that
 * execute one plan twice and need the same choices both times) */
void sim_set_fixed_choices(bool on);
/** recorded coin flip (true with probability num/den in generate mode;
 * false once the tape is exhausted in replay mode). */
bool sim_coin(uint32_t num, uint32_t den);
/** per-run PRNG for the engine's own data generation at run time (not recorded:
 * must only be used for things that are a pure function of the seed, never in
 * replay-relevant paths). */
struct sim_rng *sim_run_rng(void);

/* event log: folded into log_hash, printed when verbose */
extern int sim_verbose;
void sim_ev(const char *what, uint64_t a, uint64_t b);
void sim_evf(const char *fmt, ...) __attribute__((format(printf, 1, 2)));
/** records a violation (first one wins) */
void sim_violation(int cls, const char *fmt, ...)
    __attribute__((format(printf, 2, 3)));
int sim_violation_class(void);
void sim_mark_nontrivial(void);

/* simulated clock, 27 MHz */
uint64_t sim_now(void);
void sim_advance(uint64_t ticks);
/** rewinds the clock (only between two executions of one history, when no timer is left) */
void sim_set_now(uint64_t now);

/* simulated event descriptors (also reachable through the --wrap'ed libc
 * symbols eventfd / eventfd_read / eventfd_write / close) */
#define SIM_FD_BASE 1000000
int sim_fd_new(uint64_t initial);
bool sim_fd_readable(int fd);
bool sim_fd_valid(int fd);
/** true once two different simulated threads have read the descriptor */
bool sim_fd_shared(int fd);
int sim_fd_open_count(void);
/** probability (num/1024) of an injected EINTR on descriptor I/O */
void sim_fd_set_eintr(uint32_t per1024);

/* probes: named counters aggregated by the driver */
int sim_probe_id(const char *name);
void sim_probe_add(int id, uint64_t n);
#define SIM_PROBE_N(name, n) do { static int _id = -1; \
        if (_id < 0) { _id = sim_probe_id(name); } \
        sim_probe_add(_id, (n)); } while (0)
#define SIM_PROBE(name) SIM_PROBE_N(name, 1)
void sim_probes_dump(FILE *f);

/* distinct-signature sets (written to a file for the driver to merge) */
void sim_sig_add(int set, uint64_t sig);
void sim_sig_dump(const char *path_prefix);

/* ------------------------------------------------------------ the engine */
struct sim_engine {
    const char *name;
    /** NULL-terminated list of property ids served */
    const char *const *props;
    /** generates the plan of one run from rng */
    void (*gen)(const char *prop, struct sim_rng *rng, struct sim_plan *plan);
    /** executes one plan. Must call sim_begin/sim_end itself through
     * sim_engine_begin/sim_engine_end helpers below. */
    void (*run)(const char *prop, const struct sim_plan *plan);
    const char *(*class_name)(int cls);
    const char *(*op_name)(int code);
    /** optional: matches a violation message against known findings */
};
extern const struct sim_engine sim_engine;   /* defined by each harness */

/* replay files */
bool sim_replay_write(const char *path, const char *prop,
                      const struct sim_plan *plan, const struct sim_tape *tape,
                      int cls, const char *cls_name, const char *msg);
bool sim_replay_read(const char *path, char *prop, size_t prop_len,
                     struct sim_plan *plan, struct sim_tape *tape, int *cls);

/* main() of every harness binary */
int sim_main(int argc, char **argv);

#endif
