/* malloc layer for the objects compiled from /repo: the driver renames malloc,
 * calloc, realloc, free, strdup, strndup in those objects (objcopy
 * --redefine-sym) to the sim_repo_* functions below. libc, libasan and the
 * harness keep the real allocator.
 *  - live-set accounting per run (leaks, double free, foreign free)
 *  - fault injection: fail the k-th eligible allocation after arming, where
 *    eligible = the calling function is on the allow-list (callers that test
 *    the result and have an error path), see DESIGN.md 2.3.
 */
#define _GNU_SOURCE
#include "sim.h"
#include "alloc.h"

#include <stdlib.h>
#include <string.h>
#include <elf.h>
#include <fcntl.h>
#include <unistd.h>
#include <link.h>
#include <sys/mman.h>
#include <sys/stat.h>

#define LIVE_BITS 16
static struct { void *p; size_t size; uint32_t serial; } live[1 << LIVE_BITS];
static unsigned nlive;
static uint32_t serial;
static uint64_t live_bytes;

static int countdown;           /* 0 = disarmed; fails when it reaches 0 */
static unsigned eligible_seen, failed_count;
static bool sticky;
static int suspended;

/* ---- symbol table of the running binary: return address -> function */
struct fsym { uintptr_t start, end; const char *name; bool eligible; };
static struct fsym *fsyms;
static unsigned nfsyms;
static uintptr_t load_bias;
static bool syms_loaded;
static const char *const *allow_list;   /* NULL = every caller is eligible */

static int fsym_cmp(const void *a, const void *b)
{
    const struct fsym *x = a, *y = b;
    return x->start < y->start ? -1 : x->start > y->start;
}

static int phdr_cb(struct dl_phdr_info *info, size_t size, void *data)
{
    (void)size;
    if (*(int *)data == 0) {            /* first = main program */
        load_bias = info->dlpi_addr;
        *(int *)data = 1;
    }
    return 0;
}

static void load_syms(void)
{
    syms_loaded = true;
    int first = 0;
    dl_iterate_phdr(phdr_cb, &first);
    int fd = open("/proc/self/exe", O_RDONLY);
    if (fd < 0)
        return;
    struct stat st;
    if (fstat(fd, &st) < 0) {
        close(fd);
        return;
    }
    uint8_t *m = mmap(NULL, (size_t)st.st_size, PROT_READ, MAP_PRIVATE, fd, 0);
    close(fd);
    if (m == MAP_FAILED)
        return;
    Elf64_Ehdr *eh = (Elf64_Ehdr *)m;
    Elf64_Shdr *sh = (Elf64_Shdr *)(m + eh->e_shoff);
    for (int i = 0; i < eh->e_shnum; i++) {
        if (sh[i].sh_type != SHT_SYMTAB)
            continue;
        Elf64_Sym *sym = (Elf64_Sym *)(m + sh[i].sh_offset);
        size_t n = sh[i].sh_size / sizeof(Elf64_Sym);
        const char *str = (const char *)(m + sh[sh[i].sh_link].sh_offset);
        fsyms = malloc(n * sizeof(*fsyms));
        for (size_t k = 0; k < n; k++) {
            if (ELF64_ST_TYPE(sym[k].st_info) != STT_FUNC || sym[k].st_size == 0)
                continue;
            fsyms[nfsyms].start = load_bias + sym[k].st_value;
            fsyms[nfsyms].end = fsyms[nfsyms].start + sym[k].st_size;
            fsyms[nfsyms].name = strdup(str + sym[k].st_name);
            fsyms[nfsyms].eligible = false;
            nfsyms++;
        }
    }
    munmap(m, (size_t)st.st_size);
    qsort(fsyms, nfsyms, sizeof(*fsyms), fsym_cmp);
}

static struct fsym *find_sym(uintptr_t addr)
{
    unsigned lo = 0, hi = nfsyms;
    while (lo < hi) {
        unsigned mid = (lo + hi) / 2;
        if (addr < fsyms[mid].start)
            hi = mid;
        else if (addr >= fsyms[mid].end)
            lo = mid + 1;
        else
            return &fsyms[mid];
    }
    return NULL;
}

void sim_alloc_set_allow_list(const char *const *names)
{
    if (!syms_loaded)
        load_syms();
    allow_list = names;
    for (unsigned i = 0; i < nfsyms; i++) {
        fsyms[i].eligible = false;
        if (names != NULL)
            for (const char *const *n = names; *n != NULL; n++) {
                size_t l = strlen(*n);
                /* gcc may clone static functions: name.constprop.0 etc. */
                if (!strncmp(fsyms[i].name, *n, l) &&
                    (fsyms[i].name[l] == '\0' || fsyms[i].name[l] == '.'))
                    fsyms[i].eligible = true;
            }
    }
}

const char *sim_alloc_caller_name(void *ret_addr)
{
    if (!syms_loaded)
        load_syms();
    struct fsym *s = find_sym((uintptr_t)ret_addr);
    return s ? s->name : "?";
}

static bool caller_eligible(void *ret_addr)
{
    if (allow_list == NULL)
        return true;
    struct fsym *s = find_sym((uintptr_t)ret_addr);
    return s != NULL && s->eligible;
}

/* ---- live set */
static unsigned slot_of(void *p)
{
    return (unsigned)(((uintptr_t)p >> 4) * 0x9e3779b1u) >> (32 - LIVE_BITS);
}

static void live_add(void *p, size_t size)
{
    if (nlive >= (1u << LIVE_BITS) / 2) {
        fprintf(stderr, "sim alloc: live table full\n");
        abort();
    }
    unsigned i = slot_of(p);
    while (live[i].p != NULL)
        i = (i + 1) & ((1u << LIVE_BITS) - 1);
    live[i].p = p;
    live[i].size = size;
    live[i].serial = ++serial;
    nlive++;
    live_bytes += size;
}

static bool live_del(void *p)
{
    unsigned mask = (1u << LIVE_BITS) - 1;
    unsigned i = slot_of(p);
    while (live[i].p != NULL) {
        if (live[i].p == p) {
            live_bytes -= live[i].size;
            /* backward-shift deletion */
            unsigned j = i;
            for ( ; ; ) {
                j = (j + 1) & mask;
                if (live[j].p == NULL)
                    break;
                unsigned k = slot_of(live[j].p);
                if ((i <= j) ? (i < k && k <= j) : (i < k || k <= j))
                    continue;
                live[i] = live[j];
                i = j;
            }
            live[i].p = NULL;
            nlive--;
            return true;
        }
        i = (i + 1) & mask;
    }
    return false;
}

static bool fault_points_off;

void sim_alloc_reset(void)
{
    memset(live, 0, sizeof(live));
    nlive = 0;
    serial = 0;
    live_bytes = 0;
    countdown = 0;
    eligible_seen = failed_count = 0;
    sticky = false;
    suspended = 0;
    fault_points_off = false;
}

unsigned sim_alloc_live(void) { return nlive; }
uint64_t sim_alloc_live_bytes(void) { return live_bytes; }
void sim_alloc_arm(int k) { countdown = k; eligible_seen = 0; sticky = false; }
void sim_alloc_arm_sticky(int k) { countdown = k; eligible_seen = 0; sticky = true; }
unsigned sim_alloc_eligible_seen(void) { return eligible_seen; }
unsigned sim_alloc_failed(void) { return failed_count; }
int sim_alloc_disarm(void) { int c = countdown; countdown = 0; sticky = false; return c; }

void sim_alloc_describe_live(char *buf, size_t len)
{
    size_t o = 0;
    buf[0] = '\0';
    for (unsigned i = 0; i < (1u << LIVE_BITS) && o + 32 < len; i++)
        if (live[i].p != NULL)
            o += (size_t)snprintf(buf + o, len - o, "#%u(%zu) ", live[i].serial,
                                  live[i].size);
}

void sim_alloc_suspend(void) { suspended++; }
void sim_alloc_resume(void) { suspended--; }

static bool should_fail(void *ret_addr)
{
    if (suspended || (countdown <= 0 && !sticky))
        return false;
    if (!caller_eligible(ret_addr))
        return false;
    eligible_seen++;
    if (sticky && countdown <= 0)
        goto fail;
    if (--countdown > 0)
        return false;
fail:
    failed_count++;
    SIM_PROBE("fault_malloc_failed");
    if (sim_verbose)
        printf("      * allocation failure injected in %s\n",
               sim_alloc_caller_name(ret_addr));
    sim_ev("malloc_fail", eligible_seen, 0);
    return true;
}

void sim_alloc_fault_points(bool on) { fault_points_off = !on; }

bool sim_alloc_fault_point(const char *what)
{
    if (suspended || fault_points_off || (countdown <= 0 && !sticky))
        return false;
    eligible_seen++;
    if (!(sticky && countdown <= 0) && --countdown > 0)
        return false;
    failed_count++;
    SIM_PROBE("fault_umem_failed");
    if (sim_verbose)
        printf("      * allocation failure injected in %s\n", what);
    sim_ev("umem_fail", eligible_seen, 0);
    return true;
}

void *sim_repo_malloc(size_t size)
{
    if (should_fail(__builtin_return_address(0)))
        return NULL;
    void *p = malloc(size ? size : 1);
    if (p != NULL)
        live_add(p, size);
    return p;
}

void *sim_repo_calloc(size_t n, size_t size)
{
    if (should_fail(__builtin_return_address(0)))
        return NULL;
    void *p = calloc(n ? n : 1, size ? size : 1);
    if (p != NULL)
        live_add(p, n * size);
    return p;
}

void *sim_repo_realloc(void *old, size_t size)
{
    if (should_fail(__builtin_return_address(0)))
        return NULL;
    if (old != NULL && !live_del(old)) {
        sim_violation(SIM_V_CRASH, "realloc of a pointer not obtained from the allocator");
        return NULL;
    }
    void *p = realloc(old, size ? size : 1);
    if (p != NULL)
        live_add(p, size);
    return p;
}

void sim_repo_free(void *p)
{
    if (p == NULL)
        return;
    if (!live_del(p)) {
        sim_violation(SIM_V_CRASH, "free of a pointer that is not live (double free?) in %s",
                      sim_alloc_caller_name(__builtin_return_address(0)));
        return;
    }
    free(p);
}

char *sim_repo_strdup(const char *s)
{
    if (should_fail(__builtin_return_address(0)))
        return NULL;
    char *p = strdup(s);
    if (p != NULL)
        live_add(p, strlen(s) + 1);
    return p;
}

char *sim_repo_strndup(const char *s, size_t n)
{
    if (should_fail(__builtin_return_address(0)))
        return NULL;
    char *p = strndup(s, n);
    if (p != NULL)
        live_add(p, strlen(p) + 1);
    return p;
}
