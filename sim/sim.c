/* simcore implementation, see sim.h */
#ifndef _GNU_SOURCE
#define _GNU_SOURCE
#endif
#include "sim.h"

#include <stdlib.h>
#include <string.h>
#include <stdarg.h>
#include <errno.h>
#include <assert.h>
#include <ucontext.h>
#include <unistd.h>
#include <sys/mman.h>
#include <sys/eventfd.h>

#if defined(__SANITIZE_ADDRESS__)
#include <sanitizer/asan_interface.h>
#include <sanitizer/common_interface_defs.h>
#define SIM_ASAN 1
#else
#define SIM_ASAN 0
#define ASAN_UNPOISON_MEMORY_REGION(a, s) ((void)(a), (void)(s))
#endif

/* ------------------------------------------------------------------ PRNG */
static inline uint64_t rotl(uint64_t x, int k) { return (x << k) | (x >> (64 - k)); }

static uint64_t splitmix(uint64_t *x)
{
    uint64_t z = (*x += 0x9e3779b97f4a7c15ULL);
    z = (z ^ (z >> 30)) * 0xbf58476d1ce4e5b9ULL;
    z = (z ^ (z >> 27)) * 0x94d049bb133111ebULL;
    return z ^ (z >> 31);
}

uint64_t sim_mix(uint64_t a, uint64_t b)
{
    uint64_t x = a ^ (b * 0x9e3779b97f4a7c15ULL) ^ 0x2545f4914f6cdd1dULL;
    splitmix(&x);
    return splitmix(&x);
}

void sim_rng_seed(struct sim_rng *r, uint64_t seed)
{
    uint64_t x = seed;
    for (int i = 0; i < 4; i++)
        r->s[i] = splitmix(&x);
}

uint64_t sim_rng_next(struct sim_rng *r)
{
    uint64_t *s = r->s;
    uint64_t result = rotl(s[1] * 5, 7) * 9;
    uint64_t t = s[1] << 17;
    s[2] ^= s[0]; s[3] ^= s[1]; s[1] ^= s[2]; s[0] ^= s[3];
    s[2] ^= t; s[3] = rotl(s[3], 45);
    return result;
}

uint32_t sim_rng_below(struct sim_rng *r, uint32_t n)
{
    assert(n > 0);
    return (uint32_t)(((sim_rng_next(r) >> 32) * (uint64_t)n) >> 32);
}

int64_t sim_rng_range(struct sim_rng *r, int64_t lo, int64_t hi)
{
    assert(hi >= lo);
    uint64_t span = (uint64_t)(hi - lo) + 1;
    if (span == 0)
        return (int64_t)sim_rng_next(r);
    return lo + (int64_t)(sim_rng_next(r) % span);
}

bool sim_rng_chance(struct sim_rng *r, uint32_t num, uint32_t den)
{
    return sim_rng_below(r, den) < num;
}

uint64_t sim_plan_hash(const struct sim_plan *p)
{
    uint64_t h = 0x1234;
    for (int i = 0; i < SIM_NCFG; i++)
        h = sim_mix(h, (uint64_t)p->cfg[i]);
    for (int i = 0; i < p->nops; i++) {
        h = sim_mix(h, ((uint64_t)(uint16_t)p->ops[i].task << 16) |
                        (uint16_t)p->ops[i].code);
        for (int j = 0; j < SIM_NARGS; j++)
            h = sim_mix(h, (uint64_t)p->ops[i].a[j]);
    }
    return h;
}

/* ---------------------------------------------------------------- kernel */
#define SIM_MAX_TASKS 16
enum { T_FREE = 0, T_RUNNABLE, T_BLOCKED, T_DONE };

struct sim_task {
    int state;
    ucontext_t ctx;
    void *stack;
    size_t stack_size;
    void (*fn)(void *);
    void *arg;
    const char *name;
    bool (*pred)(void *);
    void *pred_arg;
    uint64_t wake_at;
    bool woke_by_pred;
    uint32_t prio;              /* PCT */
    int last_kind;              /* last announced yield point */
    const volatile void *last_addr;
    void *fake_stack;           /* ASan */
};

static struct {
    bool active;
    bool replay;
    uint64_t seed;
    struct sim_rng sched_rng, fault_rng, run_rng;
    struct sim_tape *tape;
    uint32_t tape_pos;
    int strategy;
    uint32_t expected_steps;
    uint32_t pct_change[3];
    int pct_nchange;
    int starve_victim;
    uint64_t starve_from, starve_until;

    struct sim_task tasks[SIM_MAX_TASKS];
    int ntasks;
    int cur;                    /* running task, -1 = main context */
    ucontext_t main_ctx;
    void *main_fake_stack;
    uint64_t steps, switches, budget, preemptions;
    uint64_t now;
    uint64_t log_hash, sched_hash;

    int cls;
    char msg[400];
    bool nontrivial;
    bool over_budget;
    uint32_t eintr_per1024;
    /* spin detection: one task polling one location while nobody else runs */
    int spin_task;
    int spin_kind;
    const volatile void *spin_addr;
    uint32_t spin_count;
} S;

int sim_verbose;
static bool fixed_choices;
extern void (*sim_point_observer)(int kind, const volatile void *addr);

/* stack cache: stacks are reused across runs */
static struct { void *p; size_t size; } stack_cache[SIM_MAX_TASKS];

static void *stack_get(int slot, size_t size)
{
    if (stack_cache[slot].p != NULL && stack_cache[slot].size >= size) {
        ASAN_UNPOISON_MEMORY_REGION(stack_cache[slot].p, stack_cache[slot].size);
        return stack_cache[slot].p;
    }
    if (stack_cache[slot].p != NULL)
        munmap((char *)stack_cache[slot].p - 4096, stack_cache[slot].size + 4096);
    char *m = mmap(NULL, size + 4096, PROT_READ | PROT_WRITE,
                   MAP_PRIVATE | MAP_ANONYMOUS | MAP_STACK, -1, 0);
    if (m == MAP_FAILED) {
        perror("mmap stack");
        abort();
    }
    mprotect(m, 4096, PROT_NONE);
    stack_cache[slot].p = m + 4096;
    stack_cache[slot].size = size;
    return stack_cache[slot].p;
}

static inline void hash_log(uint64_t v) { S.log_hash = sim_mix(S.log_hash, v); }

void sim_ev(const char *what, uint64_t a, uint64_t b)
{
    uint64_t h = 1469598103934665603ULL;
    for (const char *p = what; *p; p++)
        h = (h ^ (uint8_t)*p) * 1099511628211ULL;
    hash_log(h); hash_log(a); hash_log(b); hash_log((uint64_t)(int64_t)S.cur);
    if (sim_verbose)
        printf("  [%6llu t%d] %s %lld %lld\n", (unsigned long long)S.steps,
               S.cur, what, (long long)a, (long long)b);
}

void sim_evf(const char *fmt, ...)
{
    char buf[512];
    va_list ap;
    va_start(ap, fmt);
    vsnprintf(buf, sizeof(buf), fmt, ap);
    va_end(ap);
    uint64_t h = 1469598103934665603ULL;
    for (const char *p = buf; *p; p++)
        h = (h ^ (uint8_t)*p) * 1099511628211ULL;
    hash_log(h); hash_log((uint64_t)(int64_t)S.cur);
    if (sim_verbose)
        printf("  [%6llu t%d] %s\n", (unsigned long long)S.steps, S.cur, buf);
}

void sim_violation(int cls, const char *fmt, ...)
{
    char buf[400];
    va_list ap;
    va_start(ap, fmt);
    vsnprintf(buf, sizeof(buf), fmt, ap);
    va_end(ap);
    if (sim_verbose)
        printf("  !! violation class %d: %s\n", cls, buf);
    if (S.cls != SIM_V_OK)
        return;
    S.cls = cls;
    memcpy(S.msg, buf, sizeof(S.msg));
}

int sim_violation_class(void) { return S.cls; }
void sim_mark_nontrivial(void) { S.nontrivial = true; }
uint64_t sim_now(void) { return S.now; }
void sim_advance(uint64_t ticks) { S.now += ticks; }
void sim_set_now(uint64_t now) { S.now = now; }
int sim_self(void) { return S.cur; }
int sim_ntasks(void) { return S.ntasks; }
bool sim_task_done(int id) { return S.tasks[id].state == T_DONE; }
bool sim_task_blocked(int id) { return S.tasks[id].state == T_BLOCKED; }
const char *sim_task_name(int id) { return S.tasks[id].name; }
struct sim_rng *sim_run_rng(void) { return &S.run_rng; }
int sim_strategy(void) { return S.strategy; }

static void fd_reset(void);

void sim_begin(uint64_t seed, struct sim_tape *tape, bool replay)
{
    memset(&S.tasks, 0, sizeof(S.tasks));
    S.active = true;
    S.replay = replay;
    S.seed = seed;
    sim_rng_seed(&S.sched_rng, sim_mix(seed, 0x5c4ed));
    sim_rng_seed(&S.fault_rng, sim_mix(seed, 0xfa017));
    sim_rng_seed(&S.run_rng, sim_mix(seed, 0xda7a));
    S.tape = tape;
    S.tape_pos = 0;
    if (tape != NULL && !replay)
        tape->n = 0;
    S.ntasks = 0;
    S.cur = -1;
    S.steps = S.switches = S.preemptions = 0;
    S.budget = UINT64_MAX;
    S.now = 27000000ULL * 1000;     /* arbitrary non-zero origin */
    S.log_hash = sim_mix(seed, 0x106);
    S.sched_hash = 0x5ced;
    S.cls = SIM_V_OK;
    S.msg[0] = '\0';
    S.nontrivial = false;
    S.over_budget = false;
    S.eintr_per1024 = 0;
    S.spin_task = -1;
    S.spin_count = 0;
    sim_point_observer = NULL;
    sim_point_enter = NULL;
    fixed_choices = false;
    fd_reset();
    sim_set_strategy(-1, 200);
}

void sim_set_strategy(int strategy, uint32_t expected_steps)
{
    struct sim_rng r;
    sim_rng_seed(&r, sim_mix(S.seed, 0x57a7));
    if (strategy < 0) {
        /* weights: random 3, sticky4 2, sticky16 2, sticky64 1, pct 3, starve 2 */
        static const uint8_t w[] = { 0, 0, 0, 1, 1, 2, 2, 3, 4, 4, 4, 5, 5 };
        strategy = w[sim_rng_below(&r, sizeof(w))];
    } else
        sim_rng_next(&r);
    S.strategy = strategy;
    S.expected_steps = expected_steps ? expected_steps : 1;
    S.pct_nchange = 1 + sim_rng_below(&r, 3);
    for (int i = 0; i < 3; i++)
        S.pct_change[i] = sim_rng_below(&r, S.expected_steps);
    S.starve_victim = (int)sim_rng_below(&r, SIM_MAX_TASKS);
    S.starve_from = sim_rng_below(&r, S.expected_steps);
    S.starve_until = S.starve_from + 1 + sim_rng_below(&r, 4 * S.expected_steps);
    for (int i = 0; i < SIM_MAX_TASKS; i++)
        S.tasks[i].prio = 1000 + sim_rng_below(&r, 1000000);
}

void sim_end(struct sim_result *res)
{
    memset(res, 0, sizeof(*res));
    res->cls = S.cls;
    memcpy(res->msg, S.msg, sizeof(res->msg));
    res->nontrivial = S.nontrivial || S.preemptions > 0;
    res->preemptions = S.preemptions;
    res->inconclusive = S.over_budget;
    res->log_hash = S.log_hash;
    res->sched_hash = S.sched_hash;
    res->steps = S.steps;
    res->switches = S.switches;
    res->sim_time = S.now - 27000000ULL * 1000;
    S.active = false;
    S.cur = -1;
}

/* ---- tape */
static void tape_put(int kind, uint32_t value)
{
    struct sim_tape *t = S.tape;
    if (t == NULL)
        return;
    if (t->n >= t->cap)
        return;                 /* fixed capacity (shared mapping): drop */
    t->e[t->n].kind = (uint16_t)kind;
    t->e[t->n].value = (uint16_t)value;
    t->n++;
}

static bool tape_get(uint32_t *value)
{
    struct sim_tape *t = S.tape;
    if (t == NULL || S.tape_pos >= t->n)
        return false;
    *value = t->e[S.tape_pos++].value;
    return true;
}

void sim_set_fixed_choices(bool on) { fixed_choices = on; }

uint32_t sim_choose(int kind, uint32_t n, uint32_t num, uint32_t den)
{
    if (n <= 1 || fixed_choices)
        return 0;
    uint32_t v = 0;
    if (S.replay) {
        if (tape_get(&v))
            v %= n;
        else
            v = 0;
    } else {
        if (sim_rng_below(&S.fault_rng, den) < num)
            v = 1 + sim_rng_below(&S.fault_rng, n - 1);
        tape_put(kind, v);
    }
    S.sched_hash = sim_mix(S.sched_hash, ((uint64_t)kind << 32) | v);
    return v;
}

bool sim_coin(uint32_t num, uint32_t den)
{
    if (num == 0)
        return false;
    return sim_choose(SIM_CH_FAULT, 2, num, den) != 0;
}

/* ---- fibers */
static void switch_to(int next);

#if SIM_ASAN
/* the main context's stack bounds are needed when switching back to it */
static const void *main_stack_bottom;
static size_t main_stack_size;
static int came_from;
static void asan_arrived(void *fake)
{
    const void *ob;
    size_t os;
    __sanitizer_finish_switch_fiber(fake, &ob, &os);
    if (came_from == -1) {
        main_stack_bottom = ob;
        main_stack_size = os;
    }
}
#endif

static void task_trampoline(void)
{
#if SIM_ASAN
    asan_arrived(NULL);
#endif
    struct sim_task *t = &S.tasks[S.cur];
    t->fn(t->arg);
    t->state = T_DONE;
    sim_ev("task_done", (uint64_t)S.cur, 0);
    switch_to(-2);              /* never returns */
    abort();
}

int sim_spawn(void (*fn)(void *), void *arg, const char *name, size_t stack)
{
    assert(S.active);
    if (S.ntasks >= SIM_MAX_TASKS) {
        fprintf(stderr, "sim: too many tasks\n");
        abort();
    }
    int id = S.ntasks++;
    struct sim_task *t = &S.tasks[id];
    uint32_t prio = t->prio;
    memset(t, 0, sizeof(*t));
    t->prio = prio;
    if (stack == 0)
        stack = 256 * 1024;
    t->stack = stack_get(id, stack);
    t->stack_size = stack;
    t->fn = fn;
    t->arg = arg;
    t->name = name;
    t->state = T_RUNNABLE;
    t->wake_at = UINT64_MAX;
    getcontext(&t->ctx);
    t->ctx.uc_stack.ss_sp = t->stack;
    t->ctx.uc_stack.ss_size = t->stack_size;
    t->ctx.uc_link = NULL;
    makecontext(&t->ctx, task_trampoline, 0);
    return id;
}

/* collects runnable task ids (sorted ascending), waking blocked tasks whose
 * predicate holds or whose deadline passed */
static int collect_runnable(int *ids)
{
    int n = 0;
    for (int i = 0; i < S.ntasks; i++) {
        struct sim_task *t = &S.tasks[i];
        if (t->state == T_BLOCKED) {
            if (t->pred != NULL && t->pred(t->pred_arg)) {
                t->state = T_RUNNABLE;
                t->woke_by_pred = true;
            } else if (t->wake_at <= S.now) {
                t->state = T_RUNNABLE;
                t->woke_by_pred = false;
            }
        }
        if (t->state == T_RUNNABLE)
            ids[n++] = i;
    }
    return n;
}

static bool in_set(const int *ids, int n, int id)
{
    for (int i = 0; i < n; i++)
        if (ids[i] == id)
            return true;
    return false;
}

/* decides who runs next among ids[0..n) (n >= 1) */
static int decide(const int *ids, int n)
{
    int cur = S.cur;
    bool cur_ok = cur >= 0 && in_set(ids, n, cur);
    if (n == 1)
        return ids[0];

    int next;
    if (S.replay) {
        uint32_t v;
        if (tape_get(&v) && v != SIM_TAPE_KEEP && in_set(ids, n, (int)v))
            next = (int)v;
        else
            next = cur_ok ? cur : ids[0];
    } else if (cur_ok && S.spin_count >= 24) {
        /* the running task polls one location in a loop (a spin wait): no
         * strategy may starve the task it is waiting for */
        struct sim_rng *r = &S.sched_rng;
        do
            next = ids[sim_rng_below(r, (uint32_t)n)];
        while (next == cur);
        S.spin_count = 0;
        tape_put(SIM_CH_SCHED, (uint32_t)next);
    } else {
        struct sim_rng *r = &S.sched_rng;
        switch (S.strategy) {
        default:
        case SIM_ST_RANDOM:
            next = ids[sim_rng_below(r, (uint32_t)n)];
            break;
        case SIM_ST_STICKY4:
        case SIM_ST_STICKY16:
        case SIM_ST_STICKY64: {
            uint32_t den = S.strategy == SIM_ST_STICKY4 ? 4 :
                           S.strategy == SIM_ST_STICKY16 ? 16 : 64;
            if (cur_ok && sim_rng_below(r, den) != 0)
                next = cur;
            else
                next = ids[sim_rng_below(r, (uint32_t)n)];
            break;
        }
        case SIM_ST_PCT: {
            for (int i = 0; i < S.pct_nchange; i++)
                if (S.pct_change[i] == S.steps && cur >= 0)
                    S.tasks[cur].prio = (uint32_t)(S.pct_nchange - i);
            next = ids[0];
            for (int i = 1; i < n; i++)
                if (S.tasks[ids[i]].prio > S.tasks[next].prio)
                    next = ids[i];
            break;
        }
        case SIM_ST_STARVE: {
            int victim = S.starve_victim % (S.ntasks ? S.ntasks : 1);
            bool park = S.steps >= S.starve_from && S.steps < S.starve_until;
            int cand[SIM_MAX_TASKS], nc = 0;
            for (int i = 0; i < n; i++)
                if (!(park && ids[i] == victim))
                    cand[nc++] = ids[i];
            if (nc == 0) {
                next = victim;
            } else if (!park && in_set(ids, n, victim) &&
                       S.steps < S.starve_from) {
                next = victim;  /* victim runs alone until it is parked */
            } else if (cur_ok && in_set(cand, nc, cur) &&
                       sim_rng_below(r, 8) != 0)
                next = cur;
            else
                next = cand[sim_rng_below(r, (uint32_t)nc)];
            break;
        }
        }
        tape_put(SIM_CH_SCHED, (cur_ok && next == cur) ? SIM_TAPE_KEEP
                                                        : (uint32_t)next);
    }
    S.sched_hash = sim_mix(S.sched_hash, (S.steps << 8) | (uint64_t)next);
    return next;
}

/* next: task id, -1 = main context (scheduler), -2 = "current task finished" */
static void switch_to(int next)
{
    int prev = S.cur;
    bool dying = false;
    if (next == -2) {
        dying = true;
        next = -1;
    }
    if (next == prev)
        return;
    ucontext_t *from = prev >= 0 ? &S.tasks[prev].ctx : &S.main_ctx;
    ucontext_t *to = next >= 0 ? &S.tasks[next].ctx : &S.main_ctx;
    S.cur = next;
    S.switches++;
#if SIM_ASAN
    void **save = dying ? NULL :
        (prev >= 0 ? &S.tasks[prev].fake_stack : &S.main_fake_stack);
    if (next >= 0)
        __sanitizer_start_switch_fiber(save, S.tasks[next].stack,
                                       S.tasks[next].stack_size);
    else
        __sanitizer_start_switch_fiber(save, main_stack_bottom, main_stack_size);
    came_from = prev;
#endif
    (void)dying;
    swapcontext(from, to);
#if SIM_ASAN
    asan_arrived(S.cur >= 0 ? S.tasks[S.cur].fake_stack : S.main_fake_stack);
#endif
}

static void yield_from_task(void)
{
    int ids[SIM_MAX_TASKS];
    if (S.steps >= S.budget) {
        S.over_budget = true;
        /* go back to the scheduler which ends the run */
        switch_to(-1);
        return;
    }
    int n = collect_runnable(ids);
    if (n == 0) {
        switch_to(-1);
        return;
    }
    int next = decide(ids, n);
    if (next != S.cur) {
        S.preemptions++;
        switch_to(next);
    }
}

void (*sim_point_observer)(int kind, const volatile void *addr);
void (*sim_point_enter)(int kind, const volatile void *addr);

void sim_point(int kind, const volatile void *addr)
{
    if (!S.active || S.cur < 0)
        return;
    struct sim_task *t = &S.tasks[S.cur];
    /* nothing else ran since this task's previous announced access */
    if (sim_point_enter != NULL)
        sim_point_enter(kind, addr);
    S.steps++;
    t->last_kind = kind;
    t->last_addr = addr;
    if (S.spin_task == S.cur && S.spin_kind == kind && S.spin_addr == addr && addr != NULL)
        S.spin_count++;
    else {
        S.spin_task = S.cur;
        S.spin_kind = kind;
        S.spin_addr = addr;
        S.spin_count = 0;
    }
    yield_from_task();
    /* the announced access is executed right after we return */
    t->last_kind = 0;
    t->last_addr = NULL;
    if (sim_verbose >= 2)
        printf("      . t%d kind %d addr %p val %#x\n", S.cur, kind, (void *)addr,
               kind < 100 && addr ? (kind <= 5 ? *(volatile uint32_t *)addr
                                              : *(volatile uint16_t *)addr) : 0);
    if (sim_point_observer != NULL)
        sim_point_observer(kind, addr);
}

bool sim_task_parked_at(int id, int kind, const volatile void *addr)
{
    return id != S.cur && S.tasks[id].state != T_DONE &&
           S.tasks[id].last_kind == kind && S.tasks[id].last_addr == addr;
}

/* the hook called from the Upipe headers */
void upipe_verif_point(int kind, const volatile void *addr)
{
    sim_point(kind, addr);
}

bool sim_wait(bool (*pred)(void *), void *arg, uint64_t wake_at)
{
    assert(S.active && S.cur >= 0);
    struct sim_task *t = &S.tasks[S.cur];
    if (pred != NULL && pred(arg))
        return true;
    if (wake_at <= S.now)
        return false;
    t->state = T_BLOCKED;
    t->pred = pred;
    t->pred_arg = arg;
    t->wake_at = wake_at;
    t->woke_by_pred = false;
    S.steps++;
    while (t->state == T_BLOCKED) {
        int ids[SIM_MAX_TASKS];
        int n = S.steps >= S.budget ? 0 : collect_runnable(ids);
        if (S.steps >= S.budget)
            S.over_budget = true;
        if (n == 0 || t->state != T_BLOCKED) {
            if (t->state != T_BLOCKED)
                break;
            switch_to(-1);
        } else {
            int next = decide(ids, n);
            switch_to(next);
        }
    }
    t->pred = NULL;
    t->wake_at = UINT64_MAX;
    return t->woke_by_pred;
}

enum sim_end sim_run(uint64_t step_budget)
{
    assert(S.active && S.cur == -1);
    S.budget = S.steps + step_budget;
    for ( ; ; ) {
        int ids[SIM_MAX_TASKS];
        if (S.steps >= S.budget) {
            S.over_budget = true;
            return SIM_END_BUDGET;
        }
        int n = collect_runnable(ids);
        if (n == 0) {
            bool all_done = true;
            uint64_t next_wake = UINT64_MAX;
            for (int i = 0; i < S.ntasks; i++) {
                if (S.tasks[i].state != T_DONE)
                    all_done = false;
                if (S.tasks[i].state == T_BLOCKED &&
                    S.tasks[i].wake_at < next_wake)
                    next_wake = S.tasks[i].wake_at;
            }
            if (all_done)
                return SIM_END_DONE;
            /* a wake-up date more than a simulated day away is "never": the
             * clock is not moved there (a timer armed for thousands of years
             * must show as the stall it is) */
            if (next_wake == UINT64_MAX || (next_wake > S.now && next_wake - S.now > UINT64_C(27000000) * 86400))
                return SIM_END_QUIESCENT;
            /* discrete-event jump */
            if (next_wake > S.now)
                S.now = next_wake;
            sim_ev("clock_jump", S.now, 0);
            continue;
        }
        int next = decide(ids, n);
        switch_to(next);
    }
}

/* ------------------------------------------------- simulated descriptors */
#define SIM_MAX_FDS 64
static struct { bool open; uint64_t counter; uint32_t readers; } fds[SIM_MAX_FDS];
static int fds_open;

static void fd_reset(void)
{
    memset(fds, 0, sizeof(fds));
    fds_open = 0;
}

int sim_fd_new(uint64_t initial)
{
    for (int i = 0; i < SIM_MAX_FDS; i++)
        if (!fds[i].open) {
            fds[i].open = true;
            fds[i].counter = initial;
            fds[i].readers = 0;
            fds_open++;
            return SIM_FD_BASE + i;
        }
    errno = EMFILE;
    return -1;
}

bool sim_fd_valid(int fd)
{
    return fd >= SIM_FD_BASE && fd < SIM_FD_BASE + SIM_MAX_FDS &&
           fds[fd - SIM_FD_BASE].open;
}

bool sim_fd_shared(int fd)
{
    if (!sim_fd_valid(fd))
        return false;
    uint32_t r = fds[fd - SIM_FD_BASE].readers;
    return (r & (r - 1)) != 0;
}

bool sim_fd_readable(int fd)
{
    return sim_fd_valid(fd) && fds[fd - SIM_FD_BASE].counter > 0;
}

int sim_fd_open_count(void) { return fds_open; }
void sim_fd_set_eintr(uint32_t per1024) { S.eintr_per1024 = per1024; }

int __real_close(int fd);
int __wrap_eventfd(unsigned int initval, int flags)
{
    (void)flags;
    return sim_fd_new(initval);
}

int __wrap_eventfd_read(int fd, eventfd_t *value)
{
    sim_point(SIM_PT_FD_READ, (void *)(intptr_t)fd);
    if (!sim_fd_valid(fd)) {
        sim_violation(SIM_V_CRASH, "eventfd_read on invalid descriptor %d", fd);
        errno = EBADF;
        return -1;
    }
    if (S.cur >= 0 && S.eintr_per1024 && sim_coin(S.eintr_per1024, 1024)) {
        SIM_PROBE("fault_eintr_read");
        errno = EINTR;
        return -1;
    }
    fds[fd - SIM_FD_BASE].readers |= 1u << (S.cur + 1);
    if (fds[fd - SIM_FD_BASE].counter == 0) {
        errno = EAGAIN;
        sim_ev("fd_read_eagain", (uint64_t)(fd - SIM_FD_BASE), 0);
        return -1;
    }
    *value = fds[fd - SIM_FD_BASE].counter;
    fds[fd - SIM_FD_BASE].counter = 0;
    sim_ev("fd_read", (uint64_t)(fd - SIM_FD_BASE), *value);
    return 0;
}

int __wrap_eventfd_write(int fd, eventfd_t value)
{
    sim_point(SIM_PT_FD_WRITE, (void *)(intptr_t)fd);
    if (!sim_fd_valid(fd)) {
        sim_violation(SIM_V_CRASH, "eventfd_write on invalid descriptor %d", fd);
        errno = EBADF;
        return -1;
    }
    if (S.cur >= 0 && S.eintr_per1024 && sim_coin(S.eintr_per1024, 1024)) {
        SIM_PROBE("fault_eintr_write");
        errno = EINTR;
        return -1;
    }
    fds[fd - SIM_FD_BASE].counter += value;
    sim_ev("fd_write", (uint64_t)(fd - SIM_FD_BASE), value);
    return 0;
}

int __wrap_close(int fd)
{
    if (fd >= SIM_FD_BASE && fd < SIM_FD_BASE + SIM_MAX_FDS) {
        if (!fds[fd - SIM_FD_BASE].open) {
            sim_violation(SIM_V_CRASH, "double close of descriptor %d", fd);
            errno = EBADF;
            return -1;
        }
        fds[fd - SIM_FD_BASE].open = false;
        fds_open--;
        return 0;
    }
    return __real_close(fd);
}

/* ---------------------------------------------------------------- probes */
#define SIM_MAX_PROBES 256
static struct { const char *name; uint64_t n; } probes[SIM_MAX_PROBES];
static int nprobes;

int sim_probe_id(const char *name)
{
    for (int i = 0; i < nprobes; i++)
        if (!strcmp(probes[i].name, name))
            return i;
    assert(nprobes < SIM_MAX_PROBES);
    probes[nprobes].name = strdup(name);
    probes[nprobes].n = 0;
    return nprobes++;
}

void sim_probe_add(int id, uint64_t n) { probes[id].n += n; }

void sim_probes_dump(FILE *f)
{
    for (int i = 0; i < nprobes; i++)
        fprintf(f, "STAT %s %llu\n", probes[i].name,
                (unsigned long long)probes[i].n);
}

/* ------------------------------------------------------- signature sets */
#define SIG_SETS 2
#define SIG_BITS 21
static struct { uint64_t *tab; uint32_t n; uint64_t overflow; } sigs[SIG_SETS];

void sim_sig_add(int set, uint64_t sig)
{
    if (sig == 0)
        sig = 1;
    if (sigs[set].tab == NULL)
        sigs[set].tab = calloc((size_t)1 << SIG_BITS, sizeof(uint64_t));
    uint32_t mask = (1u << SIG_BITS) - 1;
    if (sigs[set].n >= (mask >> 1)) {
        sigs[set].overflow++;
        return;
    }
    uint32_t i = (uint32_t)(sig * 0x9e3779b97f4a7c15ULL >> (64 - SIG_BITS));
    while (sigs[set].tab[i] != 0) {
        if (sigs[set].tab[i] == sig)
            return;
        i = (i + 1) & mask;
    }
    sigs[set].tab[i] = sig;
    sigs[set].n++;
}

void sim_sig_dump(const char *path_prefix)
{
    for (int s = 0; s < SIG_SETS; s++) {
        char path[512];
        snprintf(path, sizeof(path), "%s.%d", path_prefix, s);
        FILE *f = fopen(path, "wb");
        if (f == NULL)
            continue;
        if (sigs[s].tab != NULL)
            for (uint32_t i = 0; i < (1u << SIG_BITS); i++)
                if (sigs[s].tab[i] != 0)
                    fwrite(&sigs[s].tab[i], 8, 1, f);
        fclose(f);
        printf("STAT sig%d_overflow %llu\n", s,
               (unsigned long long)sigs[s].overflow);
    }
}
