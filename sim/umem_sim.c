/* umem_sim: buffer memory allocator for the simulations (the existing
 * struct umem_mgr seam): deterministic alignment, red zones, live-area table,
 * fault injection through the armed countdown of alloc.c */
#include "sim.h"
#include "alloc.h"

#include <upipe/ubase.h>
#include <upipe/urefcount.h>
#include <upipe/umem.h>

#include <stdlib.h>
#include <string.h>

#define RZ 16
#define RZ_BYTE 0xa5
#define MAX_AREAS 4096

struct area { uint8_t *raw; uint8_t *user; size_t size; };
static struct area areas[MAX_AREAS];
static unsigned nareas_live;
static uint64_t nallocs;

struct umem_sim_mgr {
    struct urefcount urefcount;
    unsigned sub_offset;
    struct umem_mgr mgr;
};
UBASE_FROM_TO(umem_sim_mgr, umem_mgr, umem_mgr, mgr)
UBASE_FROM_TO(umem_sim_mgr, urefcount, urefcount, urefcount)

unsigned umem_sim_live(void) { return nareas_live; }
uint64_t umem_sim_allocs(void) { return nallocs; }

static struct area *area_find(uint8_t *user)
{
    for (unsigned i = 0; i < MAX_AREAS; i++)
        if (areas[i].user == user && areas[i].raw != NULL)
            return &areas[i];
    return NULL;
}

static bool area_new(struct umem_sim_mgr *m, struct umem *umem, size_t size)
{
    struct area *a = NULL;
    for (unsigned i = 0; i < MAX_AREAS; i++)
        if (areas[i].raw == NULL) {
            a = &areas[i];
            break;
        }
    if (a == NULL)
        return false;
    /* 64-octet aligned base plus a per-manager sub-offset: address % align
     * (ubuf_block_mem_alloc) is therefore a function of the seed only */
    uint8_t *raw = malloc(size + 2 * RZ + 64 + 16);
    if (raw == NULL)
        return false;
    uint8_t *base = (uint8_t *)(((uintptr_t)raw + RZ + 63) & ~(uintptr_t)63);
    uint8_t *user = base + m->sub_offset;
    memset(user - RZ, RZ_BYTE, RZ);
    memset(user + size, RZ_BYTE, RZ);
    memset(user, 0xcd, size);
    a->raw = raw;
    a->user = user;
    a->size = size;
    nareas_live++;
    nallocs++;
    umem->mgr = umem_sim_mgr_to_umem_mgr(m);
    umem->buffer = user;
    umem->size = size;
    umem->real_size = size;
    return true;
}

static bool area_check(struct area *a, const char *when)
{
    for (int i = 0; i < RZ; i++)
        if (a->user[-1 - i] != RZ_BYTE || a->user[a->size + (size_t)i] != RZ_BYTE) {
            sim_violation(SIM_V_CRASH, "write outside a memory area detected at %s", when);
            return false;
        }
    return true;
}

static bool umem_sim_alloc(struct umem_mgr *mgr, struct umem *umem, size_t size)
{
    if (sim_alloc_fault_point("umem_alloc"))
        return false;
    return area_new(umem_sim_mgr_from_umem_mgr(mgr), umem, size);
}

void (*umem_sim_free_observer)(void);

static void umem_sim_free(struct umem *umem)
{
    if (umem_sim_free_observer != NULL)
        umem_sim_free_observer();
    struct area *a = area_find(umem->buffer);
    if (a == NULL) {
        sim_violation(SIM_V_CRASH, "umem_free of an area that is not live (double free?)");
        return;
    }
    area_check(a, "free");
    free(a->raw);
    a->raw = NULL;
    a->user = NULL;
    nareas_live--;
    umem->buffer = NULL;
    umem->size = 0;
}

static bool umem_sim_realloc(struct umem *umem, size_t new_size)
{
    if (sim_alloc_fault_point("umem_realloc"))
        return false;
    struct area *a = area_find(umem->buffer);
    if (a == NULL) {
        sim_violation(SIM_V_CRASH, "umem_realloc of an area that is not live");
        return false;
    }
    area_check(a, "realloc");
    struct umem n;
    if (!area_new(umem_sim_mgr_from_umem_mgr(umem->mgr), &n, new_size))
        return false;
    memcpy(n.buffer, umem->buffer, new_size < a->size ? new_size : a->size);
    free(a->raw);
    a->raw = NULL;
    a->user = NULL;
    nareas_live--;
    umem->buffer = n.buffer;
    umem->size = new_size;
    umem->real_size = new_size;
    return true;
}

static void umem_sim_mgr_free(struct urefcount *urefcount)
{
    struct umem_sim_mgr *m = umem_sim_mgr_from_urefcount(urefcount);
    free(m);
}

struct umem_mgr *umem_sim_mgr_alloc(unsigned sub_offset)
{
    struct umem_sim_mgr *m = malloc(sizeof(*m));
    if (m == NULL)
        return NULL;
    /* areas left by an abandoned run are forgotten, not reused */
    memset(areas, 0, sizeof(areas));
    nareas_live = 0;
    nallocs = 0;
    umem_sim_free_observer = NULL;
    urefcount_init(&m->urefcount, umem_sim_mgr_free);
    m->sub_offset = sub_offset % 16;
    m->mgr.refcount = &m->urefcount;
    m->mgr.umem_alloc = umem_sim_alloc;
    m->mgr.umem_realloc = umem_sim_realloc;
    m->mgr.umem_free = umem_sim_free;
    m->mgr.umem_mgr_vacuum = NULL;
    return &m->mgr;
}
