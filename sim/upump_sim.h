/* simulated event loop: a upump manager on top of the real upump_common.c */
#ifndef UPUMP_SIM_H
#define UPUMP_SIM_H

#include <upipe/ubase.h>
#include <upipe/upump.h>
#include <upipe/uclock.h>
#include <stdint.h>
#include <stdbool.h>

#define UPUMP_SIM_SIGNATURE UBASE_FOURCC('s','i','m',' ')

/** events reported to the observer */
enum upump_sim_event {
    UPUMP_SIM_ALLOC, UPUMP_SIM_REAL_START, UPUMP_SIM_REAL_STOP,
    UPUMP_SIM_REAL_RESTART, UPUMP_SIM_DISPATCH, UPUMP_SIM_DISPATCH_DONE,
    UPUMP_SIM_FREE,
};

/** observation point of C13: called for every back-end call and dispatch */
extern void (*upump_sim_observer)(struct upump_mgr *mgr, struct upump *upump,
                                  enum upump_sim_event ev, bool status);

struct upump_mgr *upump_sim_mgr_alloc(uint16_t upump_pool_depth,
                                      uint16_t upump_blocker_pool_depth);
/** limits the number of dispatches of the next upump_mgr_run() calls
 * (0 = unlimited); run returns UBASE_ERR_BUSY when the budget is used up */
void upump_sim_mgr_set_budget(struct upump_mgr *mgr, uint64_t dispatches);
/** probability (per 1024) of a spurious dispatch of an fd-read watcher whose
 * descriptor is not readable, and of timers firing late */
void upump_sim_mgr_set_faults(struct upump_mgr *mgr, uint32_t spurious_per1024,
                              uint32_t late_per1024);
/** restricts spurious dispatches to descriptors that two different simulated
 * threads have read (another reader can then have drained it legally); a
 * descriptor with a single reader never shows readable for nothing */
void upump_sim_mgr_set_spurious_shared_only(struct upump_mgr *mgr, bool on);
/** when nothing is ready the loop moves the clock to the next timer, unless that
 * timer is further away than the horizon (0 = no horizon): a resume timer armed
 * for thousands of years must count as "never", not be jumped to */
void upump_sim_mgr_set_horizon(struct upump_mgr *mgr, uint64_t ticks);
/** ready watchers run in allocation order instead of a seeded order (used when
 * two executions of one history have to be compared with each other) */
void upump_sim_mgr_set_fifo(struct upump_mgr *mgr, bool on);
/** back-end view */
bool upump_sim_active(struct upump *upump);
bool upump_sim_ready(struct upump *upump);
int upump_sim_id(struct upump *upump);
int upump_sim_type(struct upump *upump);
uint64_t upump_sim_deadline(struct upump *upump);
unsigned upump_sim_mgr_live_pumps(struct upump_mgr *mgr);
unsigned upump_sim_mgr_active_pumps(struct upump_mgr *mgr);
uint64_t upump_sim_mgr_dispatched(struct upump_mgr *mgr);

/** simulated clock as a struct uclock */
struct uclock *uclock_sim_alloc(void);

#endif
