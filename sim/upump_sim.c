/* simulated event loop, see upump_sim.h. Same shape as lib/upump-ev/upump_ev.c
 * with libev replaced by the simulator: descriptors are the simulated ones,
 * time is the simulated clock, the order in which ready watchers are
 * dispatched is a recorded choice. */
#include "upump_sim.h"
#include "sim.h"

#include <upipe/urefcount.h>
#include <upipe/upump_common.h>
#include <upipe/umutex.h>

#include <stdlib.h>
#include <stdarg.h>
#include <string.h>

#define MAX_PUMPS 256

void (*upump_sim_observer)(struct upump_mgr *mgr, struct upump *upump,
                           enum upump_sim_event ev, bool status);

struct upump_sim {
    int id;
    int event;
    bool live;
    bool active;                /* started in the back end */
    bool active_status;
    bool spent;                 /* one-shot timer that fired */
    uint64_t after, repeat, deadline;
    int fd;
    struct upump_common common;
};
UBASE_FROM_TO(upump_sim, upump, upump, common.upump)

struct upump_sim_mgr {
    struct urefcount urefcount;
    struct upump_sim *pumps[MAX_PUMPS];
    unsigned npumps;            /* slots used in pumps[] */
    int next_id;
    uint64_t budget;            /* 0 = unlimited */
    uint64_t dispatched;
    uint32_t spurious, late;
    bool spurious_shared_only;
    bool fifo;
    uint64_t horizon;           /* a timer further away than this is never waited for */
    struct upump_common_mgr common_mgr;
    uint8_t upool_extra[];
};
UBASE_FROM_TO(upump_sim_mgr, upump_mgr, upump_mgr, common_mgr.mgr)
UBASE_FROM_TO(upump_sim_mgr, urefcount, urefcount, urefcount)

/* a date so far away that now + delay does not fit is "never", not a date in
 * the past (libev counts in floating-point seconds and simply waits) */
static uint64_t date_after(uint64_t delay)
{
    uint64_t now = sim_now();
    return delay > UINT64_MAX - 1 - now ? UINT64_MAX - 1 : now + delay;
}

static void observe(struct upump *upump, enum upump_sim_event ev, bool status)
{
    if (upump_sim_observer != NULL)
        upump_sim_observer(upump->mgr, upump, ev, status);
}

static struct upump *upump_sim_alloc(struct upump_mgr *mgr, int event, va_list args)
{
    struct upump_sim_mgr *sim_mgr = upump_sim_mgr_from_upump_mgr(mgr);
    struct upump_sim *p = upool_alloc(&sim_mgr->common_mgr.upump_pool,
                                      struct upump_sim *);
    if (unlikely(p == NULL))
        return NULL;
    struct upump *upump = upump_sim_to_upump(p);
    p->after = p->repeat = 0;
    p->deadline = UINT64_MAX;
    p->fd = -1;
    switch (event) {
    case UPUMP_TYPE_IDLER:
        break;
    case UPUMP_TYPE_TIMER:
        p->after = va_arg(args, uint64_t);
        p->repeat = va_arg(args, uint64_t);
        break;
    case UPUMP_TYPE_FD_READ:
    case UPUMP_TYPE_FD_WRITE:
        p->fd = va_arg(args, int);
        break;
    case UPUMP_TYPE_SIGNAL:
        (void)va_arg(args, int);
        break;
    default:
        upool_free(&sim_mgr->common_mgr.upump_pool, p);
        return NULL;
    }
    p->event = event;
    p->active = false;
    p->active_status = true;
    p->spent = false;
    p->live = true;
    p->id = sim_mgr->next_id++;
    unsigned slot;
    for (slot = 0; slot < sim_mgr->npumps; slot++)
        if (sim_mgr->pumps[slot] == NULL)
            break;
    if (slot == MAX_PUMPS) {
        upool_free(&sim_mgr->common_mgr.upump_pool, p);
        return NULL;
    }
    sim_mgr->pumps[slot] = p;
    if (slot == sim_mgr->npumps)
        sim_mgr->npumps++;
    upump_common_init(upump);
    /* upump_alloc() fills cb/opaque/refcount after we return */
    upump->refcount = NULL;
    upump->cb = NULL;
    observe(upump, UPUMP_SIM_ALLOC, true);
    return upump;
}

static void upump_sim_real_start(struct upump *upump, bool status)
{
    struct upump_sim *p = upump_sim_from_upump(upump);
    observe(upump, UPUMP_SIM_REAL_START, status);
    if (p->event == UPUMP_TYPE_TIMER && !p->active)
        p->deadline = date_after(p->after);
    p->active = true;
    p->active_status = status;
    p->spent = false;
}

static void upump_sim_real_stop(struct upump *upump, bool status)
{
    struct upump_sim *p = upump_sim_from_upump(upump);
    observe(upump, UPUMP_SIM_REAL_STOP, status);
    p->active = false;
    p->spent = false;
}

static void upump_sim_real_restart(struct upump *upump, bool status)
{
    struct upump_sim *p = upump_sim_from_upump(upump);
    observe(upump, UPUMP_SIM_REAL_RESTART, status);
    if (p->event != UPUMP_TYPE_TIMER)
        return;
    /* like upump_ev: an active repeating timer counts `repeat` from now,
     * anything else is (re)armed with `after` */
    if (p->active && !p->spent && p->repeat)
        p->deadline = date_after(p->repeat);
    else
        p->deadline = date_after(p->after);
    p->active = true;
    p->active_status = status;
    p->spent = false;
}

static void upump_sim_free(struct upump *upump)
{
    struct upump_sim_mgr *sim_mgr = upump_sim_mgr_from_upump_mgr(upump->mgr);
    struct upump_sim *p = upump_sim_from_upump(upump);
    upump_stop(upump);
    upump_common_clean(upump);
    observe(upump, UPUMP_SIM_FREE, true);
    p->live = false;
    p->active = false;
    for (unsigned i = 0; i < sim_mgr->npumps; i++)
        if (sim_mgr->pumps[i] == p)
            sim_mgr->pumps[i] = NULL;
    while (sim_mgr->npumps > 0 && sim_mgr->pumps[sim_mgr->npumps - 1] == NULL)
        sim_mgr->npumps--;
    upool_free(&sim_mgr->common_mgr.upump_pool, p);
}

static void *upump_sim_alloc_inner(struct upool *upool)
{
    struct upump_common_mgr *common_mgr = upump_common_mgr_from_upump_pool(upool);
    struct upump_sim *p = malloc(sizeof(struct upump_sim));
    if (unlikely(p == NULL))
        return NULL;
    memset(p, 0, sizeof(*p));
    struct upump *upump = upump_sim_to_upump(p);
    upump->mgr = upump_common_mgr_to_upump_mgr(common_mgr);
    return p;
}

static void upump_sim_free_inner(struct upool *upool, void *p)
{
    free(p);
}

static int upump_sim_control(struct upump *upump, int command, va_list args)
{
    switch (command) {
    case UPUMP_START:
        upump_common_start(upump);
        return UBASE_ERR_NONE;
    case UPUMP_RESTART:
        upump_common_restart(upump);
        return UBASE_ERR_NONE;
    case UPUMP_STOP:
        upump_common_stop(upump);
        return UBASE_ERR_NONE;
    case UPUMP_FREE:
        upump_sim_free(upump);
        return UBASE_ERR_NONE;
    case UPUMP_GET_STATUS: {
        int *status_p = va_arg(args, int *);
        upump_common_get_status(upump, status_p);
        return UBASE_ERR_NONE;
    }
    case UPUMP_SET_STATUS: {
        int status = va_arg(args, int);
        upump_common_set_status(upump, status);
        return UBASE_ERR_NONE;
    }
    case UPUMP_ALLOC_BLOCKER: {
        struct upump_blocker **p = va_arg(args, struct upump_blocker **);
        *p = upump_common_blocker_alloc(upump);
        return UBASE_ERR_NONE;
    }
    case UPUMP_FREE_BLOCKER: {
        struct upump_blocker *blocker = va_arg(args, struct upump_blocker *);
        upump_common_blocker_free(blocker);
        return UBASE_ERR_NONE;
    }
    default:
        return UBASE_ERR_UNHANDLED;
    }
}

static bool pump_ready(struct upump_sim *p)
{
    if (p == NULL || !p->live || !p->active || p->spent)
        return false;
    switch (p->event) {
    case UPUMP_TYPE_IDLER: return true;
    case UPUMP_TYPE_TIMER: return p->deadline <= sim_now();
    case UPUMP_TYPE_FD_READ: return sim_fd_readable(p->fd);
    case UPUMP_TYPE_FD_WRITE: return sim_fd_valid(p->fd);
    default: return false;
    }
}

static bool mgr_any_ready(void *arg)
{
    struct upump_sim_mgr *sim_mgr = arg;
    for (unsigned i = 0; i < sim_mgr->npumps; i++)
        if (pump_ready(sim_mgr->pumps[i]) &&
            sim_mgr->pumps[i]->event != UPUMP_TYPE_TIMER)
            return true;
    return false;
}

static int upump_sim_mgr_run(struct upump_mgr *mgr, struct umutex *mutex)
{
    struct upump_sim_mgr *sim_mgr = upump_sim_mgr_from_upump_mgr(mgr);
    int ret = UBASE_ERR_NONE;
    uint64_t done = 0;
    if (mutex != NULL)
        umutex_lock(mutex);
    for ( ; ; ) {
        if (mutex != NULL && done > 0) {
            /* libev releases and re-acquires the loop mutex around every
             * poll, also when something is ready at once: a thread waiting to
             * freeze the loop gets its chance between two dispatches */
            umutex_unlock(mutex);
            umutex_lock(mutex);
        }
        struct upump_sim *ready[MAX_PUMPS];
        unsigned nready = 0, blocking = 0;
        uint64_t next_deadline = UINT64_MAX;
        struct upump_sim *spurious[MAX_PUMPS];
        unsigned nspurious = 0;
        for (unsigned i = 0; i < sim_mgr->npumps; i++) {
            struct upump_sim *p = sim_mgr->pumps[i];
            if (p == NULL || !p->active || p->spent)
                continue;
            if (p->active_status)
                blocking++;
            if (pump_ready(p))
                ready[nready++] = p;
            else if (p->event == UPUMP_TYPE_TIMER) {
                if (p->deadline < next_deadline)
                    next_deadline = p->deadline;
            } else if (p->event == UPUMP_TYPE_FD_READ &&
                       (!sim_mgr->spurious_shared_only || sim_fd_shared(p->fd)))
                spurious[nspurious++] = p;
        }
        if (blocking == 0)
            break;              /* libev: no referenced watcher left */

        if (sim_mgr->budget && done >= sim_mgr->budget) {
            ret = UBASE_ERR_BUSY;
            break;
        }
        /* legal surprise: an fd watcher fires although its descriptor has
         * been drained by somebody else in the meantime */
        if (nspurious > 0 && sim_mgr->spurious &&
            sim_coin(sim_mgr->spurious, 1024)) {
            SIM_PROBE("fault_spurious_dispatch");
            ready[0] = spurious[sim_choose(SIM_CH_LOOP, nspurious, 1, 2)];
            nready = 1;
        }
        if (nready == 0) {
            if (sim_self() >= 0) {
                uint64_t wake = next_deadline;
                if (wake != UINT64_MAX && sim_mgr->late &&
                    sim_coin(sim_mgr->late, 1024)) {
                    SIM_PROBE("fault_timer_late");
                    wake += 1 + 2700 * sim_choose(SIM_CH_MISC, 1000, 1, 1);
                }
                if (mutex != NULL)
                    umutex_unlock(mutex);
                sim_wait(mgr_any_ready, sim_mgr, wake);
                if (mutex != NULL)
                    umutex_lock(mutex);
                continue;
            }
            /* no simulated thread: nobody else can make a descriptor
             * readable, only time can pass */
            uint64_t now = sim_now();
            if (next_deadline == UINT64_MAX ||
                (sim_mgr->horizon && next_deadline > now && next_deadline - now > sim_mgr->horizon)) {
                /* nothing to wait for (a timer armed for a date beyond the
                 * horizon is as good as never: the clock is not moved there) */
                ret = UBASE_ERR_BUSY;
                break;
            }
            if (next_deadline > now)
                sim_advance(next_deadline - now);
            if (sim_mgr->late && sim_coin(sim_mgr->late, 1024)) {
                SIM_PROBE("fault_timer_late");
                sim_advance(1 + 2700 * sim_choose(SIM_CH_MISC, 1000, 1, 1));
            }
            continue;
        }
        sim_point(SIM_PT_LOOP, sim_mgr);
        /* the order in which ready watchers run is not specified */
        unsigned k = nready > 1 && !sim_mgr->fifo ? sim_choose(SIM_CH_LOOP, nready, nready - 1, nready) : 0;
        struct upump_sim *p = ready[k];
        if (!p->live || !p->active)
            continue;           /* changed while we yielded */
        if (p->event == UPUMP_TYPE_TIMER) {
            if (p->repeat) {
                p->deadline = p->repeat > UINT64_MAX - 1 - p->deadline ? UINT64_MAX - 1 : p->deadline + p->repeat;
                if (p->deadline < sim_now())
                    p->deadline = sim_now();
            } else
                p->spent = true;
        }
        done++;
        sim_mgr->dispatched++;
        struct upump *upump = upump_sim_to_upump(p);
        int id = p->id;
        observe(upump, UPUMP_SIM_DISPATCH, p->active_status);
        sim_ev("dispatch", (uint64_t)id, (uint64_t)p->event);
        upump_common_dispatch(upump);
        if (upump_sim_observer != NULL)
            upump_sim_observer(mgr, NULL, UPUMP_SIM_DISPATCH_DONE, true);
    }
    if (mutex != NULL)
        umutex_unlock(mutex);
    return ret;
}

static int upump_sim_mgr_control(struct upump_mgr *mgr, int command, va_list args)
{
    switch (command) {
    case UPUMP_MGR_RUN: {
        struct umutex *mutex = va_arg(args, struct umutex *);
        return upump_sim_mgr_run(mgr, mutex);
    }
    case UPUMP_MGR_VACUUM:
        upump_common_mgr_vacuum(mgr);
        return UBASE_ERR_NONE;
    default:
        return UBASE_ERR_UNHANDLED;
    }
}

static void upump_sim_mgr_free(struct urefcount *urefcount)
{
    struct upump_sim_mgr *sim_mgr = upump_sim_mgr_from_urefcount(urefcount);
    upump_common_mgr_clean(upump_sim_mgr_to_upump_mgr(sim_mgr));
    free(sim_mgr);
}

struct upump_mgr *upump_sim_mgr_alloc(uint16_t upump_pool_depth,
                                      uint16_t upump_blocker_pool_depth)
{
    struct upump_sim_mgr *sim_mgr =
        malloc(sizeof(struct upump_sim_mgr) +
               upump_common_mgr_sizeof(upump_pool_depth, upump_blocker_pool_depth));
    if (unlikely(sim_mgr == NULL))
        return NULL;
    memset(sim_mgr, 0, sizeof(*sim_mgr));
    struct upump_mgr *mgr = upump_sim_mgr_to_upump_mgr(sim_mgr);
    mgr->signature = UPUMP_SIM_SIGNATURE;
    urefcount_init(upump_sim_mgr_to_urefcount(sim_mgr), upump_sim_mgr_free);
    sim_mgr->common_mgr.mgr.refcount = upump_sim_mgr_to_urefcount(sim_mgr);
    sim_mgr->common_mgr.mgr.upump_alloc = upump_sim_alloc;
    sim_mgr->common_mgr.mgr.upump_control = upump_sim_control;
    sim_mgr->common_mgr.mgr.upump_mgr_control = upump_sim_mgr_control;
    upump_common_mgr_init(mgr, upump_pool_depth, upump_blocker_pool_depth,
                          sim_mgr->upool_extra,
                          upump_sim_real_start, upump_sim_real_stop,
                          upump_sim_real_restart,
                          upump_sim_alloc_inner, upump_sim_free_inner);
    return mgr;
}

void upump_sim_mgr_set_budget(struct upump_mgr *mgr, uint64_t dispatches)
{
    upump_sim_mgr_from_upump_mgr(mgr)->budget = dispatches;
}

void upump_sim_mgr_set_faults(struct upump_mgr *mgr, uint32_t spurious_per1024,
                              uint32_t late_per1024)
{
    upump_sim_mgr_from_upump_mgr(mgr)->spurious = spurious_per1024;
    upump_sim_mgr_from_upump_mgr(mgr)->late = late_per1024;
}

void upump_sim_mgr_set_horizon(struct upump_mgr *mgr, uint64_t ticks)
{
    upump_sim_mgr_from_upump_mgr(mgr)->horizon = ticks;
}

void upump_sim_mgr_set_fifo(struct upump_mgr *mgr, bool on)
{
    upump_sim_mgr_from_upump_mgr(mgr)->fifo = on;
}

void upump_sim_mgr_set_spurious_shared_only(struct upump_mgr *mgr, bool on)
{
    upump_sim_mgr_from_upump_mgr(mgr)->spurious_shared_only = on;
}

bool upump_sim_active(struct upump *upump)
{
    struct upump_sim *p = upump_sim_from_upump(upump);
    return p->live && p->active;
}

bool upump_sim_ready(struct upump *upump) { return pump_ready(upump_sim_from_upump(upump)); }
int upump_sim_id(struct upump *upump) { return upump_sim_from_upump(upump)->id; }
int upump_sim_type(struct upump *upump) { return upump_sim_from_upump(upump)->event; }
uint64_t upump_sim_deadline(struct upump *upump) { return upump_sim_from_upump(upump)->deadline; }

unsigned upump_sim_mgr_live_pumps(struct upump_mgr *mgr)
{
    struct upump_sim_mgr *sim_mgr = upump_sim_mgr_from_upump_mgr(mgr);
    unsigned n = 0;
    for (unsigned i = 0; i < sim_mgr->npumps; i++)
        if (sim_mgr->pumps[i] != NULL)
            n++;
    return n;
}

unsigned upump_sim_mgr_active_pumps(struct upump_mgr *mgr)
{
    struct upump_sim_mgr *sim_mgr = upump_sim_mgr_from_upump_mgr(mgr);
    unsigned n = 0;
    for (unsigned i = 0; i < sim_mgr->npumps; i++)
        if (sim_mgr->pumps[i] != NULL && sim_mgr->pumps[i]->active)
            n++;
    return n;
}

uint64_t upump_sim_mgr_dispatched(struct upump_mgr *mgr)
{
    return upump_sim_mgr_from_upump_mgr(mgr)->dispatched;
}

/* ------------------------------------------------------------------ clock */
struct uclock_sim {
    struct urefcount urefcount;
    struct uclock uclock;
};

static uint64_t uclock_sim_now(struct uclock *uclock)
{
    return sim_now();
}

static void uclock_sim_free(struct urefcount *urefcount)
{
    struct uclock_sim *c = container_of(urefcount, struct uclock_sim, urefcount);
    free(c);
}

struct uclock *uclock_sim_alloc(void)
{
    struct uclock_sim *c = malloc(sizeof(*c));
    if (c == NULL)
        return NULL;
    urefcount_init(&c->urefcount, uclock_sim_free);
    c->uclock.refcount = &c->urefcount;
    c->uclock.uclock_now = uclock_sim_now;
    c->uclock.uclock_to_real = NULL;
    c->uclock.uclock_from_real = NULL;
    return &c->uclock;
}
