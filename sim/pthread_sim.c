/* simulated POSIX threads for the objects compiled from /repo: linked with
 * -Wl,--wrap=pthread_create,... so that lib/upipe-pthread/*.c and the worker
 * pipes run on simcore fibers. Keeps the POSIX semantics the code relies on:
 * per-thread key values, key destructors run when a thread's start routine
 * returns, join blocks the caller in the scheduler, a contended mutex blocks
 * likewise, every call is a yield point. */
#define _GNU_SOURCE
#include "sim.h"
#include "pthread_sim.h"

#include <pthread.h>
#include <signal.h>
#include <errno.h>
#include <string.h>
#include <stdlib.h>
#include <stdint.h>
#include <sys/resource.h>

#define PT_BASE      0x51b0000ul    /* pthread_t of fiber i = PT_BASE + i + 1 */
#define PT_MAX_TASKS 17             /* slot 0 = main context (no fiber) */
#define PT_MAX_KEYS  16

static struct {
    void *(*start)(void *);
    void *arg;
    void *ret;
    bool used, joined, finished;
} threads[PT_MAX_TASKS];

static struct {
    bool used;
    void (*destr)(void *);
    void *val[PT_MAX_TASKS];
} keys[PT_MAX_KEYS];

static unsigned created, joined_n, mutex_contended;

/* a pthread_mutex_t is large enough (40 octets) to hold our state */
struct sim_mutex {
    uint32_t magic;
    int32_t owner;              /* slot (task id + 1), -1 = free */
    uint32_t depth;
    uint32_t recursive;
};
#define MUTEX_MAGIC 0x6d757478u

void sim_pthread_reset(void)
{
    memset(threads, 0, sizeof(threads));
    memset(keys, 0, sizeof(keys));
    created = joined_n = mutex_contended = 0;
}

unsigned sim_pthread_created(void) { return created; }
unsigned sim_pthread_unjoined(void) { return created - joined_n; }
unsigned sim_pthread_keys_live(void)
{
    unsigned n = 0;
    for (int k = 0; k < PT_MAX_KEYS; k++)
        if (keys[k].used)
            n++;
    return n;
}

static int self_slot(void) { return sim_self() + 1; }

int sim_pthread_task_of(pthread_t t)
{
    return (int)((unsigned long)t - PT_BASE) - 1;
}

pthread_t sim_pthread_of_task(int task)
{
    return (pthread_t)(PT_BASE + (unsigned long)(task + 1));
}

static void run_key_destructors(int slot)
{
    /* POSIX: repeat while some destructor left a non-NULL value, up to
     * PTHREAD_DESTRUCTOR_ITERATIONS */
    for (int round = 0; round < 4; round++) {
        bool any = false;
        for (int k = 0; k < PT_MAX_KEYS; k++) {
            if (!keys[k].used || keys[k].val[slot] == NULL)
                continue;
            void *v = keys[k].val[slot];
            keys[k].val[slot] = NULL;
            if (keys[k].destr != NULL) {
                keys[k].destr(v);
                any = true;
            }
        }
        if (!any)
            break;
    }
}

static void thread_trampoline(void *arg)
{
    int slot = (int)(intptr_t)arg;
    threads[slot].ret = threads[slot].start(threads[slot].arg);
    run_key_destructors(slot);
    threads[slot].finished = true;
    sim_ev("pthread_exit", (uint64_t)slot - 1, 0);
}

int __wrap_pthread_create(pthread_t *thread, const pthread_attr_t *attr,
                          void *(*start)(void *), void *arg)
{
    (void)attr;
    sim_point(SIM_PT_THREAD, NULL);
    if (sim_ntasks() >= PT_MAX_TASKS - 1)
        return EAGAIN;
    /* the slot is known before the fiber exists: ids are handed out in order */
    int slot = sim_ntasks() + 1;
    threads[slot].start = start;
    threads[slot].arg = arg;
    threads[slot].used = true;
    threads[slot].joined = threads[slot].finished = false;
    int id = sim_spawn(thread_trampoline, (void *)(intptr_t)slot, "pthread", 512 * 1024);
    if (id + 1 != slot)
        abort();
    created++;
    *thread = sim_pthread_of_task(id);
    sim_ev("pthread_create", (uint64_t)id, 0);
    return 0;
}

static bool thread_finished(void *arg)
{
    int slot = (int)(intptr_t)arg;
    return threads[slot].finished && sim_task_done(slot - 1);
}

int __wrap_pthread_join(pthread_t thread, void **retval)
{
    int task = sim_pthread_task_of(thread);
    int slot = task + 1;
    sim_point(SIM_PT_THREAD, NULL);
    if (slot <= 0 || slot >= PT_MAX_TASKS || !threads[slot].used)
        return ESRCH;
    if (threads[slot].joined) {
        sim_violation(SIM_V_CRASH, "thread %d joined twice", task);
        return EINVAL;
    }
    if (slot == self_slot())
        return EDEADLK;
    while (!thread_finished((void *)(intptr_t)slot)) {
        if (sim_self() < 0) {
            sim_violation(SIM_V_CRASH, "pthread_join outside any simulated thread would block");
            return EDEADLK;
        }
        sim_wait(thread_finished, (void *)(intptr_t)slot, UINT64_MAX);
    }
    threads[slot].joined = true;
    joined_n++;
    if (retval != NULL)
        *retval = threads[slot].ret;
    sim_ev("pthread_join", (uint64_t)task, 0);
    return 0;
}

pthread_t __wrap_pthread_self(void)
{
    return sim_pthread_of_task(sim_self());
}

int __wrap_pthread_equal(pthread_t a, pthread_t b) { return a == b; }
int __wrap_pthread_setname_np(pthread_t t, const char *name) { (void)t; (void)name; return 0; }
int __wrap_pthread_sigmask(int how, const sigset_t *set, sigset_t *old)
{
    (void)how; (void)set; (void)old;
    return 0;
}
int __wrap_pthread_setcanceltype(int type, int *old)
{
    (void)type;
    if (old != NULL)
        *old = PTHREAD_CANCEL_DEFERRED;
    return 0;
}
int __wrap_setpriority(int which, id_t who, int prio)
{
    (void)which; (void)who; (void)prio;
    return 0;
}

/* ------------------------------------------------------------------ keys */
int __wrap_pthread_key_create(pthread_key_t *key, void (*destr)(void *))
{
    for (int k = 0; k < PT_MAX_KEYS; k++)
        if (!keys[k].used) {
            memset(&keys[k], 0, sizeof(keys[k]));
            keys[k].used = true;
            keys[k].destr = destr;
            *key = (pthread_key_t)k;
            return 0;
        }
    return EAGAIN;
}

int __wrap_pthread_key_delete(pthread_key_t key)
{
    if (key >= PT_MAX_KEYS || !keys[key].used) {
        sim_violation(SIM_V_CRASH, "pthread_key_delete on an invalid key");
        return EINVAL;
    }
    /* POSIX: no destructor is run; values left behind are the caller's
     * problem (and show up in the leak audit) */
    keys[key].used = false;
    return 0;
}

void *__wrap_pthread_getspecific(pthread_key_t key)
{
    if (key >= PT_MAX_KEYS || !keys[key].used)
        return NULL;
    return keys[key].val[self_slot()];
}

int __wrap_pthread_setspecific(pthread_key_t key, const void *value)
{
    if (key >= PT_MAX_KEYS || !keys[key].used)
        return EINVAL;
    keys[key].val[self_slot()] = (void *)value;
    return 0;
}

/* --------------------------------------------------------------- mutexes */
int __wrap_pthread_mutex_init(pthread_mutex_t *m, const pthread_mutexattr_t *attr)
{
    struct sim_mutex *s = (struct sim_mutex *)m;
    _Static_assert(sizeof(struct sim_mutex) <= sizeof(pthread_mutex_t), "mutex overlay");
    s->magic = MUTEX_MAGIC;
    s->owner = -1;
    s->depth = 0;
    s->recursive = 0;
    if (attr != NULL) {
        int type = PTHREAD_MUTEX_DEFAULT;
        pthread_mutexattr_gettype(attr, &type);
        s->recursive = type == PTHREAD_MUTEX_RECURSIVE;
    }
    return 0;
}

int __wrap_pthread_mutex_destroy(pthread_mutex_t *m)
{
    struct sim_mutex *s = (struct sim_mutex *)m;
    if (s->magic != MUTEX_MAGIC)
        return EINVAL;
    if (s->owner != -1) {
        sim_violation(SIM_V_CRASH, "pthread_mutex_destroy of a locked mutex (owner thread %d)",
                      s->owner - 1);
        return EBUSY;
    }
    s->magic = 0;
    return 0;
}

static bool mutex_free(void *arg)
{
    return ((struct sim_mutex *)arg)->owner == -1;
}

int __wrap_pthread_mutex_lock(pthread_mutex_t *m)
{
    struct sim_mutex *s = (struct sim_mutex *)m;
    if (s->magic != MUTEX_MAGIC)
        return EINVAL;
    sim_point(SIM_PT_MUTEX, m);
    int me = self_slot();
    if (s->owner == me) {
        if (s->recursive) {
            s->depth++;
            return 0;
        }
        /* a default mutex relocked by its owner deadlocks for ever */
        sim_violation(SIM_V_CRASH, "thread %d relocks a mutex it holds", me - 1);
        return EDEADLK;
    }
    bool contended = false;
    while (s->owner != -1) {
        contended = true;
        if (sim_self() < 0) {
            sim_violation(SIM_V_CRASH, "mutex contended outside any simulated thread");
            return EDEADLK;
        }
        sim_wait(mutex_free, s, UINT64_MAX);
    }
    if (contended) {
        mutex_contended++;
        SIM_PROBE("mutex_contended");
    }
    s->owner = me;
    s->depth = 1;
    sim_ev("mutex_lock", (uint64_t)me - 1, 0);
    return 0;
}

int __wrap_pthread_mutex_unlock(pthread_mutex_t *m)
{
    struct sim_mutex *s = (struct sim_mutex *)m;
    if (s->magic != MUTEX_MAGIC)
        return EINVAL;
    int me = self_slot();
    if (s->owner != me) {
        sim_violation(SIM_V_CRASH, "thread %d unlocks a mutex held by %d", me - 1, s->owner - 1);
        return EPERM;
    }
    if (--s->depth == 0) {
        s->owner = -1;
        sim_ev("mutex_unlock", (uint64_t)me - 1, 0);
        /* the waiters are woken by their predicate; who gets it is the
         * scheduler's (recorded) decision */
        sim_point(SIM_PT_MUTEX, m);
    }
    return 0;
}

int sim_mutex_owner(pthread_mutex_t *m)
{
    struct sim_mutex *s = (struct sim_mutex *)m;
    if (s->magic != MUTEX_MAGIC)
        return -2;
    return s->owner == -1 ? -2 : s->owner - 1;
}
