/* worker protocol, replay files and the fork-based shrinker */
#define _GNU_SOURCE
#include "sim.h"

#include <stdlib.h>
#include <string.h>
#include <errno.h>
#include <signal.h>
#include <time.h>
#include <unistd.h>
#include <fcntl.h>
#include <inttypes.h>
#include <sys/mman.h>
#include <sys/wait.h>
#include <sys/personality.h>

__attribute__((used, visibility("default")))
const char *__asan_default_options(void)
{
    return "exitcode=77:detect_leaks=0:abort_on_error=0:allocator_may_return_null=1:"
           "detect_stack_use_after_return=0:handle_abort=0";
}
__attribute__((used, visibility("default")))
const char *__ubsan_default_options(void)
{
    return "halt_on_error=1:exitcode=77:print_stacktrace=1";
}

static uint64_t str_hash(const char *s)
{
    uint64_t h = 1469598103934665603ULL;
    for (; *s; s++)
        h = (h ^ (uint8_t)*s) * 1099511628211ULL;
    return h;
}

static uint64_t run_seed(uint64_t base, const char *prop, uint64_t index)
{
    return sim_mix(sim_mix(base, str_hash(prop)), index);
}

static bool prop_served(const char *prop)
{
    for (const char *const *p = sim_engine.props; *p != NULL; p++)
        if (!strcmp(*p, prop))
            return true;
    return false;
}

static void gen_plan(const char *prop, uint64_t seed, struct sim_plan *plan)
{
    struct sim_rng rng;
    memset(plan, 0, sizeof(*plan));
    plan->seed = seed;
    sim_rng_seed(&rng, sim_mix(seed, 0x91a7));
    sim_engine.gen(prop, &rng, plan);
}

/* ------------------------------------------------------------ replay I/O */
bool sim_replay_write(const char *path, const char *prop,
                      const struct sim_plan *plan, const struct sim_tape *tape,
                      int cls, const char *cls_name, const char *msg)
{
    FILE *f = fopen(path, "w");
    if (f == NULL)
        return false;
    fprintf(f, "upipe-verif-replay 1\n");
    fprintf(f, "property %s\n", prop);
    fprintf(f, "engine %s\n", sim_engine.name);
    fprintf(f, "seed %" PRIu64 "\n", plan->seed);
    fprintf(f, "class %d %s\n", cls, cls_name);
    fprintf(f, "msg %s\n", msg);
    fprintf(f, "cfg");
    for (int i = 0; i < SIM_NCFG; i++)
        fprintf(f, " %" PRId64, plan->cfg[i]);
    fprintf(f, "\nops %d\n", plan->nops);
    for (int i = 0; i < plan->nops; i++) {
        const struct sim_op *op = &plan->ops[i];
        fprintf(f, "op %d %d", op->task, op->code);
        for (int j = 0; j < SIM_NARGS; j++)
            fprintf(f, " %" PRId64, op->a[j]);
        fprintf(f, " # %s\n", sim_engine.op_name ? sim_engine.op_name(op->code) : "");
    }
    fprintf(f, "tape %u\n", tape ? tape->n : 0);
    if (tape)
        for (uint32_t i = 0; i < tape->n; i++)
            fprintf(f, "%u %u\n", tape->e[i].kind, tape->e[i].value);
    fclose(f);
    return true;
}

bool sim_replay_read(const char *path, char *prop, size_t prop_len,
                     struct sim_plan *plan, struct sim_tape *tape, int *cls)
{
    FILE *f = fopen(path, "r");
    if (f == NULL)
        return false;
    char line[1024];
    memset(plan, 0, sizeof(*plan));
    tape->n = 0;
    bool ok = false;
    while (fgets(line, sizeof(line), f) != NULL) {
        if (!strncmp(line, "property ", 9)) {
            snprintf(prop, prop_len, "%s", line + 9);
            prop[strcspn(prop, "\n")] = '\0';
        } else if (!strncmp(line, "seed ", 5)) {
            plan->seed = strtoull(line + 5, NULL, 10);
        } else if (!strncmp(line, "class ", 6)) {
            *cls = atoi(line + 6);
        } else if (!strncmp(line, "cfg", 3)) {
            char *p = line + 3;
            for (int i = 0; i < SIM_NCFG; i++)
                plan->cfg[i] = strtoll(p, &p, 10);
        } else if (!strncmp(line, "op ", 3)) {
            if (plan->nops >= SIM_MAX_OPS)
                break;
            struct sim_op *op = &plan->ops[plan->nops++];
            char *p = line + 3;
            op->task = (int16_t)strtol(p, &p, 10);
            op->code = (int16_t)strtol(p, &p, 10);
            for (int j = 0; j < SIM_NARGS; j++)
                op->a[j] = strtoll(p, &p, 10);
        } else if (!strncmp(line, "tape ", 5)) {
            uint32_t n = (uint32_t)strtoul(line + 5, NULL, 10);
            if (n > tape->cap) {
                tape->e = realloc(tape->e, n * sizeof(*tape->e));
                tape->cap = n;
            }
            for (uint32_t i = 0; i < n; i++) {
                unsigned k, v;
                if (fscanf(f, "%u %u", &k, &v) != 2)
                    break;
                tape->e[i].kind = (uint16_t)k;
                tape->e[i].value = (uint16_t)v;
                tape->n = i + 1;
            }
            ok = true;
        }
    }
    fclose(f);
    return ok;
}

/* ------------------------------------------------------ forked execution */
#define SHARED_TAPE_CAP (1u << 20)
struct shared {
    struct sim_result res;
    bool finished;
    struct sim_tape tape;
    struct sim_tape_ent ent[SHARED_TAPE_CAP];
};
static struct shared *shm;
static unsigned fork_timeout = 8;

static int run_forked(const char *prop, const struct sim_plan *plan,
                      struct sim_tape *tape, bool replay, struct sim_result *out,
                      bool verbose)
{
    if (shm == NULL) {
        shm = mmap(NULL, sizeof(*shm), PROT_READ | PROT_WRITE,
                   MAP_SHARED | MAP_ANONYMOUS, -1, 0);
        if (shm == MAP_FAILED) {
            perror("mmap");
            exit(2);
        }
    }
    memset(&shm->res, 0, sizeof(shm->res));
    shm->finished = false;
    shm->tape.n = 0;
    shm->tape.cap = SHARED_TAPE_CAP;
    shm->tape.e = shm->ent;
    fflush(stdout);
    fflush(stderr);
    pid_t pid = fork();
    if (pid < 0) {
        perror("fork");
        exit(2);
    }
    if (pid == 0) {
        if (!verbose) {
            int fd = open("/dev/null", O_WRONLY);
            dup2(fd, 1);
            dup2(fd, 2);
        }
        sim_verbose = verbose ? (getenv("SIM_TRACE") ? 2 : 1) : 0;
        alarm(fork_timeout);
        sim_begin(plan->seed, replay ? tape : &shm->tape, replay);
        sim_engine.run(prop, plan);
        sim_end(&shm->res);
        shm->finished = true;
        fflush(stdout);
        _exit(0);
    }
    int status = 0;
    while (waitpid(pid, &status, 0) < 0 && errno == EINTR);
    memset(out, 0, sizeof(*out));
    if (WIFEXITED(status) && WEXITSTATUS(status) == 0 && shm->finished) {
        *out = shm->res;
    } else if (WIFSIGNALED(status) && WTERMSIG(status) == SIGALRM) {
        out->cls = SIM_V_HANG;
        snprintf(out->msg, sizeof(out->msg), "wall-clock watchdog (%us) inside one run", fork_timeout);
    } else {
        out->cls = SIM_V_CRASH;
        if (WIFSIGNALED(status))
            snprintf(out->msg, sizeof(out->msg), "killed by signal %d", WTERMSIG(status));
        else
            snprintf(out->msg, sizeof(out->msg), "exit status %d (77 = sanitizer report)", WEXITSTATUS(status));
    }
    if (!replay && tape != NULL) {
        uint32_t n = shm->tape.n;
        if (n > tape->cap || tape->e == NULL) {
            tape->e = realloc(tape->e, (n + 1) * sizeof(*tape->e));
            tape->cap = n + 1;
        } else if (0) {
            tape->e = realloc(tape->e, n * sizeof(*tape->e));
            tape->cap = n;
        }
        if (n)
            memcpy(tape->e, shm->ent, n * sizeof(*tape->e));
        tape->n = n;
    }
    return out->cls;
}

static const char *cls_name(int cls)
{
    if (cls == SIM_V_OK) return "ok";
    if (cls == SIM_V_CRASH) return "crash";
    if (cls == SIM_V_HANG) return "hang";
    const char *n = sim_engine.class_name ? sim_engine.class_name(cls) : NULL;
    return n ? n : "unknown";
}

/* ---------------------------------------------------------------- shrink */
static struct {
    const char *prop;
    int cls;
    unsigned tries, max_tries;
    time_t deadline;
} sh;

static bool still_fails(const struct sim_plan *plan, struct sim_tape *tape)
{
    if (sh.tries >= sh.max_tries || time(NULL) > sh.deadline)
        return false;
    sh.tries++;
    struct sim_result r;
    return run_forked(sh.prop, plan, tape, true, &r, false) == sh.cls;
}

static void tape_copy(struct sim_tape *dst, const struct sim_tape *src)
{
    if (dst->cap < src->n || dst->e == NULL) {
        dst->e = realloc(dst->e, (src->n + 1) * sizeof(*dst->e));
        dst->cap = src->n + 1;
    }
    if (src->n)
        memcpy(dst->e, src->e, src->n * sizeof(*dst->e));
    dst->n = src->n;
}

static void shrink(struct sim_plan *plan, struct sim_tape *tape)
{
    static struct sim_plan cand;
    struct sim_tape tcand = { 0, 0, NULL };

    /* 1. ddmin over operations */
    for (int chunk = plan->nops / 2; chunk >= 1; ) {
        bool progress = false;
        for (int start = 0; start < plan->nops; ) {
            int len = chunk;
            if (start + len > plan->nops)
                len = plan->nops - start;
            cand = *plan;
            memmove(&cand.ops[start], &cand.ops[start + len],
                    (size_t)(cand.nops - start - len) * sizeof(cand.ops[0]));
            cand.nops -= len;
            if (still_fails(&cand, tape)) {
                *plan = cand;
                progress = true;
            } else
                start += len;
        }
        if (!progress || chunk > plan->nops)
            chunk /= 2;
        if (chunk > plan->nops / 2 && chunk > 1)
            chunk = plan->nops / 2 > 0 ? plan->nops / 2 : 1;
    }

    /* 2. tape: shortest failing prefix, then defaults */
    tape_copy(&tcand, tape);
    tcand.n = 0;
    if (still_fails(plan, &tcand)) {
        tape->n = 0;
    } else {
        uint32_t lo = 0, hi = tape->n;   /* fails at hi, unknown below */
        while (hi - lo > 1) {
            uint32_t mid = lo + (hi - lo) / 2;
            tape_copy(&tcand, tape);
            tcand.n = mid;
            if (still_fails(plan, &tcand))
                hi = mid;
            else
                lo = mid;
        }
        tape->n = hi;
    }
    for (uint32_t chunk = tape->n / 2 ? tape->n / 2 : 1; chunk >= 1; chunk /= 2) {
        for (uint32_t start = 0; start < tape->n; start += chunk) {
            bool any = false;
            tape_copy(&tcand, tape);
            for (uint32_t i = start; i < start + chunk && i < tape->n; i++) {
                uint16_t dflt = tcand.e[i].kind == SIM_CH_SCHED ? SIM_TAPE_KEEP : 0;
                if (tcand.e[i].value != dflt) {
                    tcand.e[i].value = dflt;
                    any = true;
                }
            }
            if (any && still_fails(plan, &tcand))
                tape_copy(tape, &tcand);
        }
        if (chunk == 1)
            break;
    }
    /* drop trailing defaults */
    while (tape->n > 0) {
        struct sim_tape_ent *e = &tape->e[tape->n - 1];
        if (e->value == (e->kind == SIM_CH_SCHED ? SIM_TAPE_KEEP : 0))
            tape->n--;
        else
            break;
    }

    /* 3. one more pass removing single operations (the tape got simpler) */
    for (int i = plan->nops - 1; i >= 0; i--) {
        cand = *plan;
        memmove(&cand.ops[i], &cand.ops[i + 1],
                (size_t)(cand.nops - i - 1) * sizeof(cand.ops[0]));
        cand.nops--;
        if (still_fails(&cand, tape))
            *plan = cand;
    }

    /* 4. shrink arguments towards zero */
    for (int i = 0; i < plan->nops; i++)
        for (int j = 0; j < SIM_NARGS; j++) {
            int64_t v = plan->ops[i].a[j];
            if (v == 0)
                continue;
            cand = *plan;
            cand.ops[i].a[j] = 0;
            if (still_fails(&cand, tape)) {
                *plan = cand;
                continue;
            }
            cand.ops[i].a[j] = v / 2;
            if (v / 2 != v && still_fails(&cand, tape)) {
                *plan = cand;
                v = v / 2;
            }
            cand = *plan;
            cand.ops[i].a[j] = v > 0 ? v - 1 : v + 1;
            if (still_fails(&cand, tape))
                *plan = cand;
        }
    free(tcand.e);
}

/* --------------------------------------------------------------- modes */
static void print_plan(const struct sim_plan *plan)
{
    printf("{\"seed\":%" PRIu64 ",\"cfg\":[", plan->seed);
    int last = SIM_NCFG;
    while (last > 0 && plan->cfg[last - 1] == 0)
        last--;
    for (int i = 0; i < last; i++)
        printf("%s%" PRId64, i ? "," : "", plan->cfg[i]);
    printf("],\"ops\":[");
    for (int i = 0; i < plan->nops; i++) {
        const struct sim_op *op = &plan->ops[i];
        int n = SIM_NARGS;
        while (n > 0 && op->a[n - 1] == 0)
            n--;
        printf("%s\"t%d %s", i ? "," : "", op->task,
               sim_engine.op_name ? sim_engine.op_name(op->code) : "?");
        for (int j = 0; j < n; j++)
            printf(" %" PRId64, op->a[j]);
        printf("\"");
    }
    printf("]}\n");
}

static int mode_run(int argc, char **argv)
{
    /* run <prop> <base> <first> <count> [--hashes] [--progress file] [--sigs prefix] */
    if (argc < 6)
        return 2;
    const char *prop = argv[2];
    uint64_t base = strtoull(argv[3], NULL, 10);
    uint64_t first = strtoull(argv[4], NULL, 10);
    uint64_t count = strtoull(argv[5], NULL, 10);
    bool hashes = false;
    const char *sigs = NULL;
    volatile uint64_t *progress = NULL;
    double time_limit = 0;
    for (int i = 6; i < argc; i++) {
        if (!strcmp(argv[i], "--hashes"))
            hashes = true;
        else if (!strcmp(argv[i], "--sigs") && i + 1 < argc)
            sigs = argv[++i];
        else if (!strcmp(argv[i], "--time") && i + 1 < argc)
            time_limit = atof(argv[++i]);
        else if (!strcmp(argv[i], "--progress") && i + 1 < argc) {
            int fd = open(argv[++i], O_RDWR | O_CREAT, 0644);
            if (fd >= 0 && ftruncate(fd, 16) == 0) {
                void *m = mmap(NULL, 16, PROT_READ | PROT_WRITE, MAP_SHARED, fd, 0);
                if (m != MAP_FAILED)
                    progress = m;
            }
        }
    }
    if (!prop_served(prop)) {
        fprintf(stderr, "engine %s does not serve %s\n", sim_engine.name, prop);
        return 2;
    }
    static struct sim_plan plan;
    struct sim_tape tape = { 0, 1u << 16, NULL };
    tape.e = malloc(tape.cap * sizeof(*tape.e));
    uint64_t runs = 0, nontrivial = 0, steps = 0, switches = 0, simtime = 0,
             inconclusive = 0, viols = 0, hx = 0;
    uint64_t strat[SIM_ST__N] = { 0 };
    static uint64_t viol_by_class[1024];
    struct timespec t0, t1;
    clock_gettime(CLOCK_MONOTONIC, &t0);
    for (uint64_t k = 0; k < count; k++) {
        uint64_t index = first + k;
        uint64_t seed = run_seed(base, prop, index);
        if (progress != NULL) {
            progress[0] = index;
            progress[1] = runs;
        }
        gen_plan(prop, seed, &plan);
        struct sim_result res;
        sim_begin(seed, &tape, false);
        sim_engine.run(prop, &plan);
        int st = sim_strategy();
        sim_end(&res);
        runs++;
        strat[st]++;
        steps += res.steps;
        switches += res.switches;
        simtime += res.sim_time;
        if (res.inconclusive)
            inconclusive++;
        if (res.nontrivial) {
            nontrivial++;
            sim_sig_add(0, sim_mix(sim_plan_hash(&plan), res.sched_hash));
        }
        hx ^= sim_mix(res.log_hash, index);
        if (hashes)
            printf("H %" PRIu64 " %016" PRIx64 " %016" PRIx64 "\n", index,
                   res.log_hash, res.sched_hash);
        if (res.cls != SIM_V_OK) {
            viols++;
            int slot = res.cls % 1024;
            if (viol_by_class[slot]++ < 4) {
                printf("VIOL %" PRIu64 " %" PRIu64 " %d %s %s\n", index, seed,
                       res.cls, cls_name(res.cls), res.msg);
                fflush(stdout);
            }
        }
        if (time_limit > 0 && (k & 63) == 63) {
            clock_gettime(CLOCK_MONOTONIC, &t1);
            if ((t1.tv_sec - t0.tv_sec) + (t1.tv_nsec - t0.tv_nsec) / 1e9 > time_limit)
                break;
        }
    }
    if (progress != NULL)
        progress[0] = UINT64_MAX;
    clock_gettime(CLOCK_MONOTONIC, &t1);
    printf("DONE runs=%" PRIu64 " nontrivial=%" PRIu64 " steps=%" PRIu64
           " switches=%" PRIu64 " simtime=%" PRIu64 " inconclusive=%" PRIu64
           " violations=%" PRIu64 " hashxor=%016" PRIx64 " wall=%.3f\n",
           runs, nontrivial, steps, switches, simtime, inconclusive, viols, hx,
           (t1.tv_sec - t0.tv_sec) + (t1.tv_nsec - t0.tv_nsec) / 1e9);
    for (int i = 0; i < SIM_ST__N; i++)
        printf("STAT strategy_%d %" PRIu64 "\n", i, strat[i]);
    for (int i = 0; i < 1024; i++)
        if (viol_by_class[i])
            printf("STAT viol_%s %" PRIu64 "\n", cls_name(i), viol_by_class[i]);
    sim_probes_dump(stdout);
    if (sigs != NULL)
        sim_sig_dump(sigs);
    fflush(stdout);
    return 0;
}

static int mode_gen(int argc, char **argv)
{
    if (argc < 5)
        return 2;
    static struct sim_plan plan;
    uint64_t base = strtoull(argv[3], NULL, 10);
    uint64_t first = strtoull(argv[4], NULL, 10);
    uint64_t count = argc > 5 ? strtoull(argv[5], NULL, 10) : 1;
    for (uint64_t k = 0; k < count; k++) {
        gen_plan(argv[2], run_seed(base, argv[2], first + k), &plan);
        print_plan(&plan);
    }
    return 0;
}

static int mode_shrink(int argc, char **argv)
{
    /* shrink <prop> <base> <index> <out> [--no-shrink] */
    if (argc < 6)
        return 2;
    const char *prop = argv[2];
    uint64_t base = strtoull(argv[3], NULL, 10);
    uint64_t index = strtoull(argv[4], NULL, 10);
    const char *out = argv[5];
    bool do_shrink = !(argc > 6 && !strcmp(argv[6], "--no-shrink"));
    static struct sim_plan plan;
    struct sim_tape tape = { 0, 0, NULL };
    struct sim_result r0, r1;
    uint64_t seed = run_seed(base, prop, index);
    gen_plan(prop, seed, &plan);
    int nops0 = plan.nops;

    int cls = run_forked(prop, &plan, &tape, false, &r0, false);
    if (cls == SIM_V_OK) {
        printf("NOTREPRODUCED index=%" PRIu64 " seed=%" PRIu64 "\n", index, seed);
        return 3;
    }
    /* determinism gate (a): the recorded tape replays to the same class and,
     * for non-crash classes, the same event-log hash */
    uint32_t tape0 = tape.n;
    int cls2 = run_forked(prop, &plan, &tape, true, &r1, false);
    if (cls2 != cls || (cls < SIM_V_CRASH && r1.log_hash != r0.log_hash)) {
        printf("NONDETERMINISTIC index=%" PRIu64 " first=%d(%s) replay=%d(%s) "
               "hash %016" PRIx64 " vs %016" PRIx64 "\n", index, cls,
               cls_name(cls), cls2, cls_name(cls2), r0.log_hash, r1.log_hash);
        return 2;
    }
    sh.prop = prop;
    sh.cls = cls;
    sh.tries = 0;
    sh.max_tries = 2000;
    sh.deadline = time(NULL) + 25;
    static struct sim_plan plan0;
    struct sim_tape tape_orig = { 0, 0, NULL };
    plan0 = plan;
    tape_copy(&tape_orig, &tape);
    if (do_shrink && cls != SIM_V_HANG)
        shrink(&plan, &tape);
    struct sim_result rf;
    int clsf = run_forked(prop, &plan, &tape, true, &rf, false);
    if (clsf != cls) {
        /* should not happen; fall back to the unshrunk, already gated run */
        printf("SHRINKBROKE %d -> %d, keeping the unshrunk run\n", cls, clsf);
        plan = plan0;
        tape_copy(&tape, &tape_orig);
        clsf = run_forked(prop, &plan, &tape, true, &rf, false);
        if (clsf != cls) {
            printf("NONDETERMINISTIC on final replay %d -> %d\n", cls, clsf);
            return 2;
        }
    }
    if (!sim_replay_write(out, prop, &plan, &tape, cls, cls_name(cls), rf.msg)) {
        perror(out);
        return 2;
    }
    printf("SHRUNK index=%" PRIu64 " seed=%" PRIu64 " class=%s ops=%d->%d tape=%u->%u "
           "tries=%u msg=%s\n", index, seed, cls_name(cls), nops0, plan.nops,
           tape0, tape.n, sh.tries, rf.msg);
    return 0;
}

static int mode_replay(int argc, char **argv)
{
    if (argc < 3)
        return 2;
    bool verbose = argc > 3 && !strcmp(argv[3], "-v");
    bool inproc = argc > 3 && !strcmp(argv[3], "--inproc");
    static struct sim_plan plan;
    struct sim_tape tape = { 0, 0, NULL };
    char prop[32] = "";
    int cls = 0;
    if (!sim_replay_read(argv[2], prop, sizeof(prop), &plan, &tape, &cls)) {
        fprintf(stderr, "cannot read %s\n", argv[2]);
        return 2;
    }
    struct sim_result r;
    if (inproc) {
        /* for gdb / valgrind: no fork */
        sim_verbose = 1;
        sim_begin(plan.seed, &tape, true);
        sim_engine.run(prop, &plan);
        sim_end(&r);
    } else
        run_forked(prop, &plan, &tape, true, &r, verbose);
    printf("REPLAY property=%s recorded=%s got=%s hash=%016" PRIx64 " msg=%s\n",
           prop, cls_name(cls), cls_name(r.cls), r.log_hash, r.msg);
    return r.cls == SIM_V_OK ? 0 : (r.cls == cls ? 1 : 4);
}

int sim_main(int argc, char **argv)
{
    /* fixed address-space layout: nothing depends on addresses, this only
     * removes one more variable when a replay is inspected under gdb */
    if (getenv("SIM_NOASLR") == NULL) {
        setenv("SIM_NOASLR", "1", 1);
        if (personality(ADDR_NO_RANDOMIZE) != -1)
            execv("/proc/self/exe", argv);
    }
    setvbuf(stdout, NULL, _IOLBF, 0);
    if (argc < 2) {
        fprintf(stderr, "usage: %s run|gen|shrink|replay ...\n", argv[0]);
        return 2;
    }
    if (!strcmp(argv[1], "run"))
        return mode_run(argc, argv);
    if (!strcmp(argv[1], "gen"))
        return mode_gen(argc, argv);
    if (!strcmp(argv[1], "shrink"))
        return mode_shrink(argc, argv);
    if (!strcmp(argv[1], "replay"))
        return mode_replay(argc, argv);
    fprintf(stderr, "unknown mode %s\n", argv[1]);
    return 2;
}
