/* simulated POSIX threads, see pthread_sim.c */
#ifndef PTHREAD_SIM_H
#define PTHREAD_SIM_H
#include <pthread.h>
#include <stdbool.h>

#define PTHREAD_SIM_WRAPS "pthread_create", "pthread_join", "pthread_self", "pthread_equal", \
    "pthread_setname_np", "pthread_sigmask", "pthread_setcanceltype", "setpriority", \
    "pthread_key_create", "pthread_key_delete", "pthread_getspecific", "pthread_setspecific", \
    "pthread_mutex_init", "pthread_mutex_destroy", "pthread_mutex_lock", "pthread_mutex_unlock"

void sim_pthread_reset(void);
unsigned sim_pthread_created(void);
unsigned sim_pthread_unjoined(void);
unsigned sim_pthread_keys_live(void);
/** simulated task id of a pthread_t (-1 = the main context) */
int sim_pthread_task_of(pthread_t t);
pthread_t sim_pthread_of_task(int task);
/** task id holding the mutex, -2 if it is free */
int sim_mutex_owner(pthread_mutex_t *m);
#endif
