/*
 * E-ts, TS/PES part (C15): the real upipe_ts_decaps.c and upipe_ts_pes_decaps.c
 * (and, in the round-trip scenario, upipe_ts_pes_encaps.c / upipe_ts_encaps.c)
 * behind a simulated transport.
 *
 * decaps scenario: an independent reference packetiser (written from ISO/IEC
 *   13818-1 2.4.3, sharing nothing with the bitstream stand-in) wraps generated
 *   access units into PES packets (stream ids, PTS / PTS+DTS, header stuffing,
 *   bounded and unbounded lengths) and 188-octet TS packets (adaptation fields
 *   of every length, PCR, random access indicator, stuffing), the channel adds
 *   what a real one adds (duplicates, adaptation-only packets, lost packets,
 *   arbitrary corrupt packets), the packets - as possibly segmented buffers -
 *   go through ts_decaps -> pes_decaps into a recording sink.
 */
#include "../sim/sim.h"
#include "../sim/alloc.h"

#include <upipe/ubase.h>
#include <upipe/umem.h>
#include <upipe/udict.h>
#include <upipe/udict_inline.h>
#include <upipe/uref.h>
#include <upipe/uref_std.h>
#include <upipe/uref_flow.h>
#include <upipe/uref_block.h>
#include <upipe/uref_block_flow.h>
#include <upipe/uref_clock.h>
#include <upipe/uclock.h>
#include <upipe/ubuf.h>
#include <upipe/ubuf_block_mem.h>
#include <upipe/uprobe.h>
#include <upipe/upipe.h>
#include <upipe-ts/uref_ts_flow.h>
#include <upipe-ts/upipe_ts_decaps.h>
#include <upipe-ts/upipe_ts_split.h>
#include <upipe-ts/upipe_ts_pes_decaps.h>
#include <upipe-ts/upipe_ts_pes_encaps.h>
#include <upipe-ts/upipe_ts_encaps.h>
#include <upipe-ts/upipe_ts_mux.h>
#include <upipe/urequest.h>

#include <stdlib.h>
#include <string.h>
#include <inttypes.h>

enum {
    V_PAYLOAD = 1,          /* recovered unit differs from what was carried */
    V_TIMING,               /* PTS / DTS differ */
    V_MARKER,               /* unit start / end / random access marker wrong */
    V_DISCONTINUITY,        /* gap not flagged, or flag without gap */
    V_UNIT_LOST,            /* a unit the channel did not touch is missing */
    V_LEAK,
    V_LIFECYCLE,
    V_FATAL_UNEXPECTED,
    V_CONTROL,
    V_OUT_OF_NOTHING,       /* more octets out than payload octets in */
    V_PES_HEADER,           /* the PES packet written by pes_encaps is not what the standard lays out */
    V_TS_PACKET,            /* a packet written by ts_encaps is not what the standard lays out */
    V_PID_ROUTING,          /* ts_split sent a packet to the wrong output / not to the right one */
};

static const char *class_name(int cls)
{
    switch (cls) {
    case V_PAYLOAD: return "payload";
    case V_TIMING: return "timing";
    case V_MARKER: return "marker";
    case V_DISCONTINUITY: return "discontinuity";
    case V_UNIT_LOST: return "unit_lost";
    case V_LEAK: return "leak";
    case V_LIFECYCLE: return "lifecycle";
    case V_FATAL_UNEXPECTED: return "fatal_unexpected";
    case V_CONTROL: return "control";
    case V_OUT_OF_NOTHING: return "out_of_nothing";
    case V_PES_HEADER: return "pes_header";
    case V_TS_PACKET: return "ts_packet";
    case V_PID_ROUTING: return "pid_routing";
    default: return NULL;
    }
}

enum {
    OP_AU = 1,  /* a0 size class, a1 size detail, a2 timestamps (0 none, 1 PTS, 2 PTS+DTS), a3 stream id selector,
                   a4 header stuffing, a5 bit0 bounded length, bit1 random access */
    OP_PKT,     /* a0 adaptation field stuffing wish, a1 bit0 PCR, bit1 duplicate after, bit2 adaptation-only packet before,
                   a2 segmentation, a3 damage (0 none, 1 lost, 2 corrupt), a4 detail, a5 alloc fault */
    OP__N
};
static const char *op_name(int code)
{
    static const char *const n[] = { "?", "au", "pkt" };
    return code > 0 && code < OP__N ? n[code] : "?";
}

enum { CFG_PROP = 0, CFG_KIND, CFG_POOL, CFG_RELEASE_AT, CFG_FAULTS, CFG_UMEM_OFF, CFG_PID, CFG_CC0, CFG_PES_ID, CFG_PES_HEADER,
       CFG_ALIGN, CFG_PCR_INTERVAL, CFG_OCTETRATE, CFG_MUX_STEP, CFG_SPLIT };
enum { K_DECAPS = 0, K_ROUNDTRIP, K_TSENCAPS, K__N };

#define MAXAU 12
#define MAXAUSIZE 4000
#define MAXPKT 512
#define MAXCHUNK 1024

static struct umem_mgr *umem;
static struct udict_mgr *udict_mgr;
static struct uref_mgr *uref_mgr;
static struct ubuf_mgr *ubuf_mgr;
static const struct sim_plan *plan;
static bool fault_fired;

static bool checking(void) { return !sim_violation_class(); }

/* debugging helpers of upipe_ts_mux.c (not compiled here: it needs the whole
 * biTStream PSI/SI set); upipe_ts_encaps.c only uses them to name commands */
const char *upipe_ts_mux_event_str(int event) { (void)event; return NULL; }
const char *upipe_ts_mux_command_str(int cmd) { (void)cmd; return NULL; }

/* ------------------------------------------------------------ access units */
static struct au {
    uint8_t data[MAXAUSIZE];
    int len;
    int ts_mode;
    uint64_t pts, dts;          /* 90 kHz, 33 bits */
    uint8_t stream_id;
    int hdr_stuffing;
    bool bounded, rai;
    int first_pkt, last_pkt;    /* TS packets carrying it */
    uint8_t pes[MAXAUSIZE + 300];   /* the PES packet as it goes on the wire */
    int pes_len;
} aus[MAXAU];
static int nau;

static void build_au(const struct sim_op *op)
{
    if (nau >= MAXAU)
        return;
    struct au *a = &aus[nau];
    memset(a, 0, sizeof(*a));
    switch ((uint64_t)op->a[0] % 6) {
    case 0: a->len = 1 + (int)((uint64_t)op->a[1] % 8); break;
    case 1: case 2: a->len = 1 + (int)((uint64_t)op->a[1] % 180); break;
    case 3: a->len = 150 + (int)((uint64_t)op->a[1] % 60); break;      /* around one packet */
    case 4: a->len = 1 + (int)((uint64_t)op->a[1] % 1000); break;
    default: a->len = 1 + (int)((uint64_t)op->a[1] % MAXAUSIZE); break;
    }
    uint64_t seed = (uint64_t)op->a[1] * 0x9e3779b97f4a7c15ULL + (uint64_t)nau;
    for (int i = 0; i < a->len; i++) {
        seed = seed * 6364136223846793005ULL + 1442695040888963407ULL;
        uint8_t b = (uint8_t)(seed >> 35);
        /* start codes, sync octets and 0xff runs inside the payload */
        a->data[i] = (b & 15) == 0 ? 0x47 : (b & 15) == 1 ? 0x00 : (b & 15) == 2 ? 0x01 : (b & 15) == 3 ? 0xff : b;
    }
    a->data[0] = (uint8_t)(0xa0 + nau);        /* tells the units apart */
    a->ts_mode = (int)((uint64_t)op->a[2] % 3);
    a->dts = ((uint64_t)op->a[1] * 7919u + (uint64_t)nau * 3600u) & 0x1ffffffffULL;
    if (((uint64_t)op->a[2] >> 4) & 1)
        a->dts = 0x1ffffffffULL - (uint64_t)nau;      /* next to the 33-bit wrap */
    a->pts = a->ts_mode == 2 ? (a->dts + 1 + (uint64_t)op->a[4] * 900u % 90000u) & 0x1ffffffffULL : a->dts;
    static const uint8_t ids[] = { 0xe0, 0xc0, 0xbd, 0xe5, 0xc7 };
    a->stream_id = ids[(uint64_t)op->a[3] % 5];
    a->hdr_stuffing = (int)((uint64_t)op->a[4] % 4) == 0 ? (int)((uint64_t)op->a[4] / 4 % 30) : 0;
    a->bounded = ((uint64_t)op->a[5] & 1) != 0;
    a->rai = ((uint64_t)op->a[5] & 2) != 0;
    nau++;
}

/* reference PES header (ISO/IEC 13818-1 table 2-21) */
static int ref_pes_header(const struct au *a, uint8_t *h)
{
    int hdl = (a->ts_mode == 1 ? 5 : a->ts_mode == 2 ? 10 : 0) + a->hdr_stuffing;
    int total = 9 + hdl + a->len;
    h[0] = 0; h[1] = 0; h[2] = 1;
    h[3] = a->stream_id;
    int plen = total - 6;
    if (!a->bounded || plen > 0xffff)
        plen = 0;
    h[4] = (uint8_t)(plen >> 8);
    h[5] = (uint8_t)plen;
    h[6] = 0x80;                                /* '10', not scrambled, no priority/alignment/copyright */
    h[7] = a->ts_mode == 1 ? 0x80 : a->ts_mode == 2 ? 0xc0 : 0x00;
    h[8] = (uint8_t)hdl;
    int o = 9;
    if (a->ts_mode) {
        uint64_t t = a->pts;
        h[o++] = (uint8_t)((a->ts_mode == 2 ? 0x30 : 0x20) | ((t >> 29) & 0xe) | 1);
        h[o++] = (uint8_t)(t >> 22);
        h[o++] = (uint8_t)(((t >> 14) & 0xfe) | 1);
        h[o++] = (uint8_t)(t >> 7);
        h[o++] = (uint8_t)(((t << 1) & 0xfe) | 1);
    }
    if (a->ts_mode == 2) {
        uint64_t t = a->dts;
        h[o++] = (uint8_t)(0x10 | ((t >> 29) & 0xe) | 1);
        h[o++] = (uint8_t)(t >> 22);
        h[o++] = (uint8_t)(((t >> 14) & 0xfe) | 1);
        h[o++] = (uint8_t)(t >> 7);
        h[o++] = (uint8_t)(((t << 1) & 0xfe) | 1);
    }
    for (int i = 0; i < a->hdr_stuffing; i++)
        h[o++] = 0xff;
    return o;
}

/* ------------------------------------------------------------- TS packets */
static struct pkt {
    uint8_t d[188];
    int au;                 /* unit it carries, -1 none */
    int payload_off, payload_len;
    bool pusi, dup, af_only, lost, corrupt, rai, disci;
    uint64_t segsel;
    int fault;
} pkts[MAXPKT];
static int npkt;
static unsigned payload_octets_in;

static const struct sim_op *next_pkt_op(int *opi)
{
    while (*opi < plan->nops) {
        const struct sim_op *o = &plan->ops[(*opi)++];
        if (o->code == OP_PKT)
            return o;
    }
    return NULL;
}

static void ts_header(uint8_t *d, unsigned pid, bool pusi, bool has_af, bool has_payload, unsigned cc)
{
    d[0] = 0x47;
    d[1] = (uint8_t)((pusi ? 0x40 : 0) | ((pid >> 8) & 0x1f));
    d[2] = (uint8_t)pid;
    d[3] = (uint8_t)((has_af ? 0x20 : 0) | (has_payload ? 0x10 : 0) | (cc & 0xf));
}

/** packetises the PES packets (reference packetiser) */
static void packetise(void)
{
    unsigned pid = 32 + (unsigned)((uint64_t)plan->cfg[CFG_PID] % 8000);
    unsigned cc = (unsigned)((uint64_t)plan->cfg[CFG_CC0] % 16);
    int opi = 0, burst_left = 0;
    npkt = 0;
    for (int n = 0; n < nau; n++) {
        struct au *a = &aus[n];
        const uint8_t *pes = a->pes;
        int total = a->pes_len, off = 0;
        a->first_pkt = npkt;
        while (off < total && npkt < MAXPKT - 2) {
            const struct sim_op *op = next_pkt_op(&opi);
            uint64_t flags = op ? (uint64_t)op->a[1] : 0;
            if ((flags & 4) && npkt < MAXPKT - 3) {
                /* adaptation-only packet (e.g. a PCR): same counter, no payload */
                struct pkt *q = &pkts[npkt++];
                memset(q, 0, sizeof(*q));
                q->au = -1;
                q->af_only = true;
                ts_header(q->d, pid, false, true, false, cc);
                q->d[4] = 183;
                q->d[5] = (flags & 1) ? 0x10 : 0x00;
                memset(q->d + 6, 0xff, 182);
                if (flags & 1) {
                    uint64_t pcr = (uint64_t)npkt * 12345;
                    q->d[6] = (uint8_t)(pcr >> 25); q->d[7] = (uint8_t)(pcr >> 17); q->d[8] = (uint8_t)(pcr >> 9);
                    q->d[9] = (uint8_t)(pcr >> 1); q->d[10] = (uint8_t)(0x7e | ((pcr & 1) << 7)); q->d[11] = 0;
                }
                q->segsel = op ? (uint64_t)op->a[2] >> 3 : 0;
                SIM_PROBE("ts_adaptation_only_packet");
            }
            struct pkt *p = &pkts[npkt];
            memset(p, 0, sizeof(*p));
            p->au = n;
            p->pusi = off == 0;
            p->rai = (off == 0 && a->rai) || (flags & 8) != 0;
            int left = total - off;
            /* adaptation field: needed to pad the last packet of the PES, to
             * carry a PCR or the random access indicator, or just for stuffing */
            bool pcr = (flags & 1) != 0;
            /* (sometimes the sender signals a discontinuity itself: discontinuity_indicator) */
            p->disci = (flags & 16) != 0;
            int af_min = p->rai || pcr || p->disci ? (pcr ? 8 : 2) : 0;    /* octets taken by the AF including its length */
            int wish = op ? (int)((uint64_t)op->a[0] % 190) : 0;
            int af = af_min;
            if (wish > af && wish <= 183)
                af = wish;
            if (184 - af > left)
                af = 184 - left;
            if (af > 183 && left > 0)
                af = 183;       /* at least one payload octet in a payload packet */
            int pl = 184 - af;
            cc = (cc + 1) & 0xf;
            ts_header(p->d, pid, p->pusi, af > 0, true, cc);
            if (af > 0) {
                p->d[4] = (uint8_t)(af - 1);
                if (af > 1) {
                    p->d[5] = (uint8_t)((p->disci ? 0x80 : 0) | (p->rai ? 0x40 : 0) | (pcr && af >= 8 ? 0x10 : 0));
                    if (p->disci)
                        SIM_PROBE("ts_discontinuity_indicator");
                    memset(p->d + 6, 0xff, (size_t)(af - 2));
                    if (pcr && af >= 8) {
                        uint64_t v = (uint64_t)npkt * 54321;
                        p->d[6] = (uint8_t)(v >> 25); p->d[7] = (uint8_t)(v >> 17); p->d[8] = (uint8_t)(v >> 9);
                        p->d[9] = (uint8_t)(v >> 1); p->d[10] = (uint8_t)(0x7e | ((v & 1) << 7)); p->d[11] = 1;
                        SIM_PROBE("ts_pcr");
                    }
                }
                if (af == 1)
                    SIM_PROBE("ts_adaptation_field_length_0");
                if (af >= 183)
                    SIM_PROBE("ts_adaptation_field_183");
            }
            if (af < 2)
                p->disci = false;
            p->payload_off = 4 + af;
            p->payload_len = pl;
            memcpy(p->d + 4 + af, pes + off, (size_t)pl);
            off += pl;
            p->segsel = op ? (uint64_t)op->a[2] : 0;
            p->fault = op ? (int)((uint64_t)op->a[5] % 6) : 0;
            int damage = op ? (int)((uint64_t)op->a[3] % 3) : 0;
            if (damage == 1 && op != NULL && ((uint64_t)op->a[4] % 8) >= 6)
                burst_left = 15 + (int)((uint64_t)op->a[4] % 8 - 6);    /* 15 or 16 packets in a row */
            p->lost = damage == 1 || burst_left > 0;
            if (burst_left > 0)
                burst_left--;
            p->corrupt = damage == 2;
            npkt++;
            if ((flags & 2) && !p->lost && !p->corrupt && npkt < MAXPKT - 2) {
                /* the channel delivers it twice */
                pkts[npkt] = *p;
                pkts[npkt].dup = true;
                pkts[npkt].fault = 0;
                npkt++;
                SIM_PROBE("fault_packet_duplicated");
            }
        }
        a->last_pkt = npkt - 1;
    }
}

/* -------------------------------------------------------------- recording */
static struct chunk {
    int off, len;
    bool start, end, disc, random, has_dts;
    uint64_t dts_orig, dts_pts_delay;
    int after_pkt;          /* index of the TS packet being fed when it came out */
} chunks[MAXCHUNK];
static int nchunk;
static uint8_t outbuf[1 << 17];
static int outpos;
static bool out_overflow;
static int feeding_pkt;

static struct upipe sink;
static struct urefcount sink_refcount;
static struct uprobe probe;
static struct urefcount probe_refcount;
static unsigned ev_ready, ev_dead;

static void noop_free(struct urefcount *r) { (void)r; }
static void noise_free_cb(struct urefcount *r) { (void)r; }
static struct { uint64_t cr_sys, dts_sys, pcr_sys; bool ready; unsigned n; } enc_status;

static int catch(struct uprobe *uprobe, struct upipe *upipe, int event, va_list args)
{
    if (event == UPROBE_LOG) {
        if (sim_verbose) {
            va_list copy;
            va_copy(copy, args);
            struct ulog *ulog = va_arg(copy, struct ulog *);
            char msg[200];
            ulog_msg_print(ulog, msg, sizeof(msg));
            if (ulog->level >= UPROBE_LOG_DEBUG)
                printf("        log: %s\n", msg);
            va_end(copy);
        }
        return UBASE_ERR_NONE;
    }
    if (upipe == &sink)
        return UBASE_ERR_NONE;
    if (event == UPROBE_TS_ENCAPS_STATUS) {
        va_list copy;
        va_copy(copy, args);
        if (va_arg(copy, uint32_t) == UPIPE_TS_ENCAPS_SIGNATURE) {
            enc_status.cr_sys = va_arg(copy, uint64_t);
            enc_status.dts_sys = va_arg(copy, uint64_t);
            enc_status.pcr_sys = va_arg(copy, uint64_t);
            enc_status.ready = va_arg(copy, int) != 0;
            enc_status.n++;
        }
        va_end(copy);
        return UBASE_ERR_NONE;
    }
    switch (event) {
    case UPROBE_READY: ev_ready++; break;
    case UPROBE_DEAD: ev_dead++; break;
    case UPROBE_FATAL:
        if (!sim_alloc_failed() && checking())
            sim_violation(V_FATAL_UNEXPECTED, "a fatal error is thrown although no fault was injected");
        break;
    default: break;
    }
    return UBASE_ERR_NONE;
}

static void sink_input(struct upipe *upipe, struct uref *uref, struct upump **upump_p)
{
    size_t size = 0;
    uref_block_size(uref, &size);
    if (nchunk >= MAXCHUNK || outpos + (int)size > (int)sizeof(outbuf)) {
        out_overflow = true;
        uref_free(uref);
        return;
    }
    struct chunk *c = &chunks[nchunk++];
    memset(c, 0, sizeof(*c));
    c->off = outpos;
    c->len = (int)size;
    if (size)
        uref_block_extract(uref, 0, (int)size, outbuf + outpos);
    outpos += (int)size;
    c->start = ubase_check(uref_block_get_start(uref));
    c->end = ubase_check(uref_block_get_end(uref));
    c->disc = ubase_check(uref_flow_get_discontinuity(uref));
    c->random = ubase_check(uref_flow_get_random(uref));
    c->has_dts = ubase_check(uref_clock_get_dts_orig(uref, &c->dts_orig));
    if (!ubase_check(uref_clock_get_dts_pts_delay(uref, &c->dts_pts_delay)))
        c->dts_pts_delay = 0;
    c->after_pkt = feeding_pkt;
    sim_ev("chunk", size, (uint64_t)c->start | (uint64_t)c->end << 1 | (uint64_t)c->disc << 2 | (uint64_t)c->random << 3);
    uref_free(uref);
}

static int sink_control(struct upipe *upipe, int command, va_list args)
{
    switch (command) {
    case UPIPE_SET_FLOW_DEF:
    case UPIPE_REGISTER_REQUEST:
    case UPIPE_UNREGISTER_REQUEST:
        return UBASE_ERR_NONE;
    default:
        return UBASE_ERR_UNHANDLED;
    }
}

static struct upipe_mgr sink_mgr = {
    .refcount = NULL, .signature = 0, .upipe_input = sink_input, .upipe_control = sink_control,
};

/* second output of ts_split: packets of the other PID */
static struct upipe noise_sink;
static struct urefcount noise_sink_refcount;
static unsigned noise_got, noise_bad;
static unsigned noise_pid;
static void noise_input(struct upipe *upipe, struct uref *uref, struct upump **upump_p)
{
    uint8_t h[4];
    size_t size = 0;
    uref_block_size(uref, &size);
    if (size != 188 || !ubase_check(uref_block_extract(uref, 0, 4, h)) ||
        (unsigned)(((h[1] & 0x1f) << 8) | h[2]) != noise_pid)
        noise_bad++;
    noise_got++;
    uref_free(uref);
}
static struct upipe_mgr noise_mgr = {
    .refcount = NULL, .signature = 0, .upipe_input = noise_input, .upipe_control = sink_control,
};

/* ------------------------------------------------------------ environment */
static void env_setup(void)
{
    static const uint16_t depth[] = { 0, 0, 2, 8 };
    int pool = (int)((uint64_t)plan->cfg[CFG_POOL] % 4);
    sim_alloc_reset();
    static const char *const allow[] = { "uref_std_alloc_inner", "ubuf_block_mem_alloc_inner",
                                         "ubuf_mem_shared_alloc_inner", NULL };
    sim_alloc_set_allow_list(allow);
    umem = umem_sim_mgr_alloc(1 + (unsigned)((uint64_t)plan->cfg[CFG_UMEM_OFF] % 7));
    udict_mgr = udict_inline_mgr_alloc(depth[pool], umem, -1, -1);
    uref_mgr = uref_std_mgr_alloc(depth[pool], udict_mgr, 0);
    ubuf_mgr = ubuf_block_mem_mgr_alloc(depth[pool], depth[pool], umem, 0, 0, 0, 0);
    uprobe_init(&probe, catch, NULL);
    urefcount_init(&probe_refcount, noop_free);
    probe.refcount = &probe_refcount;
    upipe_init(&sink, &sink_mgr, uprobe_use(&probe));
    urefcount_init(&sink_refcount, noop_free);
    sink.refcount = &sink_refcount;
    ev_ready = ev_dead = 0;
    nau = npkt = nchunk = outpos = 0;
    out_overflow = fault_fired = false;
    payload_octets_in = 0;
    feeding_pkt = -1;
}

static void env_teardown(void)
{
    if (checking() && !urefcount_single(&sink_refcount))
        sim_violation(V_LEAK, "the sink is still referenced after every pipe was released");
    upipe_clean(&sink);
    uref_mgr_vacuum(uref_mgr);
    udict_mgr_vacuum(udict_mgr);
    ubuf_mgr_vacuum(ubuf_mgr);
    if (checking()) {
        if (!urefcount_single(&probe_refcount))
            sim_violation(V_LEAK, "the probe is still referenced after every pipe was released");
        else if (!urefcount_single(uref_mgr->refcount))
            sim_violation(V_LEAK, "a uref is still alive after every pipe was released");
        else if (!urefcount_single(ubuf_mgr->refcount))
            sim_violation(V_LEAK, "a buffer is still alive after every pipe was released");
        else if (umem_sim_live() != 0)
            sim_violation(V_LEAK, "%u memory area(s) left", umem_sim_live());
    }
    uref_mgr_release(uref_mgr);
    ubuf_mgr_release(ubuf_mgr);
    udict_mgr_release(udict_mgr);
    umem_mgr_release(umem);
    if (checking() && sim_alloc_live() != 0)
        sim_violation(V_LEAK, "%u allocation(s) left after releasing everything", sim_alloc_live());
}

static struct uref *make_buffer(const uint8_t *data, int len, uint64_t cutsel)
{
    int nseg = len >= 2 ? 1 + (int)(cutsel % 3) : 1;
    if (nseg > len) nseg = len ? len : 1;
    struct uref *uref = NULL;
    int pos = 0;
    for (int s = 0; s < nseg; s++) {
        int seglen = s == nseg - 1 ? len - pos :
            1 + (int)((cutsel >> (4 * s + 2)) % (uint64_t)(len - pos - (nseg - 1 - s)));
        struct ubuf *ubuf = ubuf_block_alloc(ubuf_mgr, seglen);
        if (ubuf == NULL) { if (uref) uref_free(uref); return NULL; }
        if (seglen) {
            int sz = -1;
            uint8_t *w;
            if (!ubase_check(ubuf_block_write(ubuf, 0, &sz, &w))) {
                ubuf_free(ubuf);
                if (uref) uref_free(uref);
                return NULL;
            }
            memcpy(w, data + pos, (size_t)seglen);
            ubuf_block_unmap(ubuf, 0);
        }
        if (uref == NULL) {
            uref = uref_alloc(uref_mgr);
            if (uref == NULL) { ubuf_free(ubuf); return NULL; }
            uref_attach_ubuf(uref, ubuf);
        } else if (!ubase_check(uref_block_append(uref, ubuf))) {
            ubuf_free(ubuf);
            uref_free(uref);
            return NULL;
        }
        pos += seglen;
    }
    if (nseg > 1)
        SIM_PROBE("ts_segmented_packet");
    return uref;
}

/* ----------------------------------------------- encapsulation (round trip) */
static uint8_t capbuf[MAXAU][MAXAUSIZE + 300];
static int caplen[MAXAU];
static int ncap;
static bool cap_overflow;
static struct upipe capsink;
static struct urefcount capsink_refcount;
static unsigned cap_requests;

static void capsink_input(struct upipe *upipe, struct uref *uref, struct upump **upump_p)
{
    size_t size = 0;
    uref_block_size(uref, &size);
    if (ubase_check(uref_block_get_start(uref)))
        ncap++;
    if (ncap == 0 || ncap > MAXAU || caplen[ncap - 1] + (int)size > MAXAUSIZE + 300) {
        cap_overflow = true;
        uref_free(uref);
        return;
    }
    if (size)
        uref_block_extract(uref, 0, (int)size, capbuf[ncap - 1] + caplen[ncap - 1]);
    caplen[ncap - 1] += (int)size;
    uref_free(uref);
}

static int capsink_control(struct upipe *upipe, int command, va_list args)
{
    switch (command) {
    case UPIPE_SET_FLOW_DEF:
    case UPIPE_UNREGISTER_REQUEST:
        return UBASE_ERR_NONE;
    case UPIPE_REGISTER_REQUEST: {
        struct urequest *rq = va_arg(args, struct urequest *);
        cap_requests++;
        if (rq->type == UREQUEST_UBUF_MGR) {
            struct uref *ff = rq->uref ? uref_dup(rq->uref) : NULL;
            if (rq->uref != NULL && ff == NULL)
                return UBASE_ERR_ALLOC;
            return urequest_provide_ubuf_mgr(rq, ubuf_mgr_use(ubuf_mgr), ff);
        }
        return UBASE_ERR_NONE;
    }
    default:
        return UBASE_ERR_UNHANDLED;
    }
}

static struct upipe_mgr capsink_mgr = {
    .refcount = NULL, .signature = 0, .upipe_input = capsink_input, .upipe_control = capsink_control,
};

/** checks a PES packet written by pes_encaps against the layout of ISO/IEC
 * 13818-1 table 2-21 (this parser shares nothing with the stand-in header) */
static bool check_pes(const struct au *a, const uint8_t *p, int len, uint8_t id, int min_header, char *why, size_t wl)
{
    if (len < 9 || p[0] != 0 || p[1] != 0 || p[2] != 1) { snprintf(why, wl, "no start code prefix"); return false; }
    if (p[3] != id) { snprintf(why, wl, "stream id %#x, %#x configured", p[3], id); return false; }
    int plen = (p[4] << 8) | p[5];
    if (plen != len - 6) { snprintf(why, wl, "PES_packet_length %d, %d octets follow", plen, len - 6); return false; }
    if ((p[6] & 0xc0) != 0x80) { snprintf(why, wl, "marker bits '10' missing"); return false; }
    if (p[6] & 0x30) { snprintf(why, wl, "scrambling control set"); return false; }
    int flags = p[7] >> 6, hdl = p[8];
    int want_flags = a->ts_mode == 0 ? 0 : (a->ts_mode == 2 && a->pts != a->dts) ? 3 : 2;
    if (flags != want_flags) { snprintf(why, wl, "PTS_DTS_flags %d, %d expected", flags, want_flags); return false; }
    if (p[7] & 0x3f) { snprintf(why, wl, "flags %#x announce fields that are not there", p[7] & 0x3f); return false; }
    int need = flags == 3 ? 10 : flags == 2 ? 5 : 0;
    if (hdl < need || 9 + hdl > len) { snprintf(why, wl, "header_data_length %d (needs %d, packet %d)", hdl, need, len); return false; }
    if (9 + hdl < min_header) { snprintf(why, wl, "header of %d octets, minimum %d configured", 9 + hdl, min_header); return false; }
    if (len - 9 - hdl != a->len) { snprintf(why, wl, "%d payload octets, unit has %d", len - 9 - hdl, a->len); return false; }
    if (flags) {
        const uint8_t *t = p + 9;
        if ((t[0] >> 4) != (flags == 3 ? 3 : 2) || !(t[0] & 1) || !(t[2] & 1) || !(t[4] & 1)) {
            snprintf(why, wl, "PTS field prefix / marker bits wrong (%02x %02x %02x %02x %02x)", t[0], t[1], t[2], t[3], t[4]);
            return false;
        }
        uint64_t v = ((uint64_t)(t[0] & 0xe) << 29) | ((uint64_t)t[1] << 22) | ((uint64_t)(t[2] & 0xfe) << 14) |
                     ((uint64_t)t[3] << 7) | (t[4] >> 1);
        if (v != a->pts) { snprintf(why, wl, "PTS %" PRIu64 " written, %" PRIu64 " given", v, a->pts); return false; }
    }
    if (flags == 3) {
        const uint8_t *t = p + 14;
        if ((t[0] >> 4) != 1 || !(t[0] & 1) || !(t[2] & 1) || !(t[4] & 1)) { snprintf(why, wl, "DTS field prefix / marker bits wrong"); return false; }
        uint64_t v = ((uint64_t)(t[0] & 0xe) << 29) | ((uint64_t)t[1] << 22) | ((uint64_t)(t[2] & 0xfe) << 14) |
                     ((uint64_t)t[3] << 7) | (t[4] >> 1);
        if (v != a->dts) { snprintf(why, wl, "DTS %" PRIu64 " written, %" PRIu64 " given", v, a->dts); return false; }
    }
    for (int i = 9 + need; i < 9 + hdl; i++)
        if (p[i] != 0xff) { snprintf(why, wl, "stuffing octet %#x in the header", p[i]); return false; }
    if (memcmp(p + 9 + hdl, a->data, (size_t)a->len)) { snprintf(why, wl, "payload differs from the unit"); return false; }
    return true;
}

/** first half of the round trip: the real pes_encaps wraps the units */
static bool encaps_units(void)
{
    static const uint8_t ids[] = { 0xe0, 0xc0, 0xbd, 0xe5, 0xc7 };
    uint8_t id = ids[(uint64_t)plan->cfg[CFG_PES_ID] % 5];
    int min_header = (int)((uint64_t)plan->cfg[CFG_PES_HEADER] % 3) == 0 ? 0 : 9 + (int)((uint64_t)plan->cfg[CFG_PES_HEADER] % 32);
    memset(caplen, 0, sizeof(caplen));
    ncap = 0;
    cap_overflow = false;
    cap_requests = 0;
    upipe_init(&capsink, &capsink_mgr, uprobe_use(&probe));
    urefcount_init(&capsink_refcount, noop_free);
    capsink.refcount = &capsink_refcount;
    struct upipe_mgr *mgr = upipe_ts_pese_mgr_alloc();
    struct upipe *pese = upipe_void_alloc(mgr, uprobe_use(&probe));
    upipe_mgr_release(mgr);
    bool ok = pese != NULL;
    if (ok) {
        upipe_set_output(pese, &capsink);
        struct uref *fd = uref_block_flow_alloc_def(uref_mgr, "es.");
        ok = fd != NULL && ubase_check(uref_ts_flow_set_pes_id(fd, id));
        if (ok && min_header)
            ok = ubase_check(uref_ts_flow_set_pes_header(fd, (uint8_t)min_header));
        int err = ok ? upipe_set_flow_def(pese, fd) : UBASE_ERR_ALLOC;
        uref_free(fd);
        if (!ubase_check(err)) {
            sim_violation(V_CONTROL, "pes_encaps refuses block.es. with a PES id (%d)", err);
            ok = false;
        }
    }
    for (int n = 0; n < nau && ok && checking(); n++) {
        struct au *a = &aus[n];
        a->stream_id = id;
        a->bounded = true;
        struct uref *uref = make_buffer(a->data, a->len, (uint64_t)a->len * 2654435761u + (uint64_t)n);
        if (uref == NULL)
            break;
        /* dates in 27 MHz units; what goes on the wire is 90 kHz modulo 2^33 */
        if (a->ts_mode == 1)
            uref_clock_set_pts_prog(uref, a->pts * 300 + (uint64_t)n % 300);
        else if (a->ts_mode == 2) {
            uref_clock_set_dts_prog(uref, a->dts * 300 + (uint64_t)n % 300);
            uref_clock_set_dts_pts_delay(uref, ((a->pts + 0x200000000ULL - a->dts) & 0x1ffffffffULL) * 300);
        }
        if (a->ts_mode == 1)
            a->dts = a->pts;
        sim_ev("unit", (uint64_t)a->len, (uint64_t)a->ts_mode);
        upipe_input(pese, uref, NULL);
    }
    if (pese != NULL)
        upipe_release(pese);
    if (checking() && !urefcount_single(&capsink_refcount))
        sim_violation(V_LEAK, "the sink behind pes_encaps is still referenced after it was released");
    upipe_clean(&capsink);
    if (!ok || !checking() || cap_overflow)
        return false;
    if (ncap != nau) {
        sim_violation(V_UNIT_LOST, "%d access units went into pes_encaps, %d PES packets came out", nau, ncap);
        return false;
    }
    for (int n = 0; n < nau; n++) {
        char why[160];
        if (!check_pes(&aus[n], capbuf[n], caplen[n], id, min_header, why, sizeof(why))) {
            sim_violation(V_PES_HEADER, "PES packet %d (unit of %d octets, timestamps mode %d): %s", n, aus[n].len,
                          aus[n].ts_mode, why);
            return false;
        }
        memcpy(aus[n].pes, capbuf[n], (size_t)caplen[n]);
        aus[n].pes_len = caplen[n];
    }
    SIM_PROBE("ts_round_trip_through_pes_encaps");
    return true;
}

/* ------------------------------------------- ts_encaps (full round trip) */
/** the harness plays the mux: it pulls one TS packet after the other out of
 * the real ts_encaps along the simulated mux clock, checks every packet
 * against the layout of ISO/IEC 13818-1 2.4.3.2-2.4.3.7 with a parser of its
 * own, and keeps them as the packet sequence the channel will carry */
static bool tsencaps_units(void)
{
    static const uint8_t ids[] = { 0xe0, 0xc0, 0xbd, 0xe5, 0xc7 };
    uint8_t id = ids[(uint64_t)plan->cfg[CFG_PES_ID] % 5];
    unsigned pid = 32 + (unsigned)((uint64_t)plan->cfg[CFG_PID] % 8000);
    unsigned cc0 = (unsigned)((uint64_t)plan->cfg[CFG_CC0] % 16);
    bool align = ((uint64_t)plan->cfg[CFG_ALIGN] & 1) != 0;
    int min_header = (int)((uint64_t)plan->cfg[CFG_PES_HEADER] % 3) == 0 ? 0 : 9 + (int)((uint64_t)plan->cfg[CFG_PES_HEADER] % 32);
    uint64_t pcr_interval = ((uint64_t)plan->cfg[CFG_PCR_INTERVAL] % 4) == 0 ? 0 :
                            2700 + (uint64_t)plan->cfg[CFG_PCR_INTERVAL] % 2700000;
    uint64_t octetrate = 1000 + (uint64_t)plan->cfg[CFG_OCTETRATE] % 2000000;
    uint64_t step = 1 + (uint64_t)plan->cfg[CFG_MUX_STEP] % 40000;
    const uint64_t T0 = UINT64_C(27000000) * 100, K = UINT64_C(27000000) * 7, D = UCLOCK_FREQ / 2;

    memset(&enc_status, 0, sizeof(enc_status));
    enc_status.cr_sys = UINT64_MAX;
    upipe_init(&capsink, &capsink_mgr, uprobe_use(&probe));
    urefcount_init(&capsink_refcount, noop_free);
    capsink.refcount = &capsink_refcount;
    struct upipe_mgr *mgr = upipe_ts_encaps_mgr_alloc();
    struct upipe *enc = upipe_void_alloc(mgr, uprobe_use(&probe));
    upipe_mgr_release(mgr);
    if (enc == NULL) {
        sim_violation(V_CONTROL, "ts_encaps allocation failed");
        upipe_clean(&capsink);
        return false;
    }
    upipe_set_output(enc, &capsink);
    struct uref *fd = uref_block_flow_alloc_def(uref_mgr, "es.");
    bool ok = fd != NULL;
    if (ok) {
        uref_block_flow_set_octetrate(fd, octetrate);
        uref_ts_flow_set_tb_rate(fd, octetrate * 2);
        uref_ts_flow_set_pid(fd, pid);
        uref_ts_flow_set_pes_id(fd, id);
        if (align)
            uref_ts_flow_set_pes_alignment(fd);
        if (min_header)
            uref_ts_flow_set_pes_header(fd, (uint8_t)min_header);
        int err = upipe_set_flow_def(enc, fd);
        if (!ubase_check(err)) {
            sim_violation(V_CONTROL, "ts_encaps refuses its flow definition (%d)", err);
            ok = false;
        }
    }
    uref_free(fd);
    if (ok && (!ubase_check(upipe_ts_mux_set_pcr_interval(enc, pcr_interval)) ||
               !ubase_check(upipe_ts_mux_set_cc(enc, cc0)))) {
        sim_violation(V_CONTROL, "ts_encaps refuses a PCR interval / continuity counter");
        ok = false;
    }
    for (int n = 0; n < nau && ok && checking(); n++) {
        struct au *a = &aus[n];
        a->stream_id = id;
        a->bounded = true;
        struct uref *uref = make_buffer(a->data, a->len, (uint64_t)a->len * 2654435761u + (uint64_t)n);
        if (uref == NULL) {
            ok = false;
            break;
        }
        uint64_t cr_sys = T0 + (uint64_t)n * 270000;
        uref_clock_set_cr_sys(uref, cr_sys);
        uref_clock_set_cr_dts_delay(uref, D);
        /* without a clock reference the unit carries no timestamp */
        if (pcr_interval == 0 && a->ts_mode == 0) {
            a->ts_mode = 0;
        } else {
            /* one program clock for the whole run (constant offset to the
             * system clock, with a sub-90 kHz remainder) */
            uint64_t cr_prog = cr_sys - K + ((uint64_t)plan->cfg[CFG_PID] & 0xffff) * 300 + (uint64_t)plan->cfg[CFG_CC0] % 300;
            uref_clock_set_cr_prog(uref, cr_prog);
            uint64_t delta = a->ts_mode == 2 ? 1 + (a->pts + 0x200000000ULL - a->dts) % 90000 : 0;
            uref_clock_set_dts_pts_delay(uref, delta * 300);
            a->dts = ((cr_prog + D) / 300) & 0x1ffffffffULL;
            a->pts = ((cr_prog + D + delta * 300) / 300) & 0x1ffffffffULL;
            if (a->ts_mode == 0)
                a->ts_mode = 1;
        }
        if (a->rai)
            uref_flow_set_random(uref);
        sim_ev("unit", (uint64_t)a->len, (uint64_t)a->ts_mode);
        upipe_input(enc, uref, NULL);
    }
    if (ok)
        upipe_ts_encaps_eos(enc);

    /* pull the packets */
    npkt = 0;
    uint64_t mux = T0;
    unsigned idle = 0;
    while (ok && checking() && npkt < MAXPKT - 1 && idle < 3) {
        struct ubuf *ubuf = NULL;
        uint64_t dts_sys = 0;
        bool had_data = enc_status.cr_sys != UINT64_MAX;
        int err = upipe_ts_encaps_splice(enc, mux, mux + UCLOCK_FREQ * 100, &ubuf, &dts_sys);
        mux += step;
        if (!ubase_check(err)) {
            sim_violation(V_CONTROL, "upipe_ts_encaps_splice failed (%d) with %s", err, had_data ? "data pending" : "nothing pending");
            break;
        }
        if (ubuf == NULL) {
            idle++;
            continue;
        }
        size_t size = 0;
        ubuf_block_size(ubuf, &size);
        struct pkt *p = &pkts[npkt];
        memset(p, 0, sizeof(*p));
        if (size != 188 || !ubase_check(ubuf_block_extract(ubuf, 0, 188, p->d))) {
            sim_violation(V_TS_PACKET, "ts_encaps returned a packet of %zu octets", size);
            ubuf_free(ubuf);
            break;
        }
        ubuf_free(ubuf);
        p->au = -1;
        npkt++;
        if (!had_data)
            idle++;             /* PCR / padding only: nothing left to carry */
        else
            idle = 0;
    }
    upipe_release(enc);
    if (checking() && !urefcount_single(&capsink_refcount))
        sim_violation(V_LEAK, "the sink behind ts_encaps is still referenced after it was released");
    upipe_clean(&capsink);
    if (!ok || !checking())
        return false;

    /* parse what came out (reference parser) and map packets to units */
    unsigned cc = cc0;
    int cur = -1;               /* PES packet being collected */
    static uint8_t pes[MAXAU][MAXAUSIZE + 300];
    int pes_len[MAXAU];
    memset(pes_len, 0, sizeof(pes_len));
    uint64_t last_pcr = 0;
    bool any_pcr = false;
    for (int i = 0; i < npkt; i++) {
        struct pkt *p = &pkts[i];
        const uint8_t *d = p->d;
        char why[120] = "";
        unsigned afc = (d[3] >> 4) & 3;
        if (d[0] != 0x47) snprintf(why, sizeof(why), "sync octet %#x", d[0]);
        else if ((unsigned)(((d[1] & 0x1f) << 8) | d[2]) != pid) snprintf(why, sizeof(why), "PID %u, %u configured", ((d[1] & 0x1f) << 8) | d[2], pid);
        else if (d[1] & 0x80) snprintf(why, sizeof(why), "transport_error_indicator set");
        else if (d[3] & 0xc0) snprintf(why, sizeof(why), "scrambling control set");
        else if (afc == 0) snprintf(why, sizeof(why), "adaptation_field_control 00 is reserved");
        int off = 4;
        bool payload = (afc & 1) != 0;
        if (!why[0] && (afc & 2)) {
            int afl = d[4];
            if ((payload && afl > 182) || (!payload && afl != 183))
                snprintf(why, sizeof(why), "adaptation_field_length %d with%s payload", afl, payload ? "" : "out");
            else if (afl > 0) {
                int need = 1 + ((d[5] & 0x10) ? 6 : 0);
                if (d[5] & 0x0f) snprintf(why, sizeof(why), "adaptation field flags %#x announce fields nobody wrote", d[5] & 0x0f);
                else if (afl < need) snprintf(why, sizeof(why), "adaptation_field_length %d too short for its flags %#x", afl, d[5]);
                else {
                    for (int k = 5 + need; k < 5 + afl && !why[0]; k++)
                        if (d[k] != 0xff) snprintf(why, sizeof(why), "stuffing octet %#x in the adaptation field", d[k]);
                    if (d[5] & 0x10) {
                        uint64_t base = ((uint64_t)d[6] << 25) | ((uint64_t)d[7] << 17) | ((uint64_t)d[8] << 9) | ((uint64_t)d[9] << 1) | (d[10] >> 7);
                        uint64_t ext = ((uint64_t)(d[10] & 1) << 8) | d[11];
                        uint64_t pcr = base * 300 + ext;
                        if (ext >= 300) snprintf(why, sizeof(why), "PCR extension %" PRIu64, ext);
                        else if (any_pcr && pcr < last_pcr && last_pcr - pcr < UINT64_C(27000000) * 3600)
                            snprintf(why, sizeof(why), "PCR goes backwards (%" PRIu64 " after %" PRIu64 ")", pcr, last_pcr);
                        last_pcr = pcr;
                        any_pcr = true;
                        SIM_PROBE("ts_pcr");
                    }
                    p->rai = (d[5] & 0x40) != 0;
                }
            }
            off = 5 + afl;
        }
        if (!why[0]) {
            if (payload) {
                cc = (cc + 1) & 0xf;
                if ((unsigned)(d[3] & 0xf) != cc) snprintf(why, sizeof(why), "continuity counter %u, %u expected", d[3] & 0xf, cc);
            } else if ((unsigned)(d[3] & 0xf) != cc)
                snprintf(why, sizeof(why), "continuity counter %u on a packet without payload, last was %u", d[3] & 0xf, cc);
        }
        if (why[0]) {
            sim_violation(V_TS_PACKET, "packet %d written by ts_encaps: %s", i, why);
            return false;
        }
        p->pusi = (d[1] & 0x40) != 0;
        p->af_only = !payload;
        p->payload_off = off;
        p->payload_len = payload ? 188 - off : 0;
        p->segsel = (uint64_t)i * 0x9e3779b97f4a7c15ULL >> 20;
        if (!payload)
            continue;
        if (p->pusi) {
            cur++;
            if (cur >= nau) {
                sim_violation(V_TS_PACKET, "ts_encaps starts PES packet %d, %d units went in", cur + 1, nau);
                return false;
            }
            aus[cur].first_pkt = i;
        }
        if (cur < 0) {
            sim_violation(V_TS_PACKET, "packet %d carries payload before any payload unit start", i);
            return false;
        }
        if (pes_len[cur] + p->payload_len > MAXAUSIZE + 300) {
            sim_violation(V_TS_PACKET, "PES packet %d grows beyond anything that went in", cur);
            return false;
        }
        memcpy(pes[cur] + pes_len[cur], d + off, (size_t)p->payload_len);
        pes_len[cur] += p->payload_len;
        aus[cur].last_pkt = i;
        p->au = cur;
    }
    if (cur + 1 != nau) {
        sim_violation(V_UNIT_LOST, "%d access units went into ts_encaps, %d PES packets came out (%d packets)", nau, cur + 1, npkt);
        return false;
    }
    if (align) {
        for (int n = 0; n < nau; n++) {
            char why[160];
            /* the data alignment indicator is set by design here */
            uint8_t tmp6 = pes[n][6];
            pes[n][6] &= (uint8_t)~0x04;
            bool good = check_pes(&aus[n], pes[n], pes_len[n], id, min_header, why, sizeof(why));
            pes[n][6] = tmp6;
            if (!good) {
                sim_violation(V_PES_HEADER, "PES packet %d written by ts_encaps (unit of %d octets, timestamps mode %d): %s",
                              n, aus[n].len, aus[n].ts_mode, why);
                return false;
            }
            if (aus[n].rai != pkts[aus[n].first_pkt].rai) {
                sim_violation(V_MARKER, "unit %d: random access %d given, indicator %d written", n, aus[n].rai,
                              pkts[aus[n].first_pkt].rai);
                return false;
            }
            memcpy(aus[n].pes, pes[n], (size_t)pes_len[n]);
            aus[n].pes_len = pes_len[n];
        }
        SIM_PROBE("ts_round_trip_through_ts_encaps_aligned");
    } else {
        /* units may overlap PES packets: the elementary stream as a whole
         * must come out, every PES header well-formed */
        static uint8_t es[MAXAU * MAXAUSIZE];
        int es_len = 0, want_len = 0;
        for (int n = 0; n < nau; n++) {
            const uint8_t *q = pes[n];
            int l = pes_len[n];
            if (l < 9 || q[0] || q[1] || q[2] != 1 || q[3] != id || (q[6] & 0xc0) != 0x80 || 9 + q[8] > l ||
                (((q[4] << 8) | q[5]) != l - 6)) {
                sim_violation(V_PES_HEADER, "PES packet %d written by ts_encaps (not aligned) is malformed (%d octets)", n, l);
                return false;
            }
            memcpy(es + es_len, q + 9 + q[8], (size_t)(l - 9 - q[8]));
            es_len += l - 9 - q[8];
        }
        for (int n = 0; n < nau; n++)
            want_len += aus[n].len;
        bool same = es_len == want_len;
        int o = 0;
        for (int n = 0; n < nau && same; n++) {
            same = !memcmp(es + o, aus[n].data, (size_t)aus[n].len);
            o += aus[n].len;
        }
        if (!same) {
            sim_violation(V_PAYLOAD, "ts_encaps (not aligned): %d elementary stream octets came out, %d went in, or they differ",
                          es_len, want_len);
            return false;
        }
        SIM_PROBE("ts_round_trip_through_ts_encaps_overlapping");
        /* the decapsulation half is compared unit by unit only in aligned mode */
        return false;
    }
    return true;
}

/** applies the channel decisions of the plan (duplicate, lose, corrupt) to a
 * packet sequence that was not produced by packetise() */
static void channel_from_ops(void)
{
    static struct pkt tmp[MAXPKT];
    int opi = 0, n = 0;
    for (int i = 0; i < npkt && n < MAXPKT - 2; i++) {
        const struct sim_op *op = next_pkt_op(&opi);
        tmp[n] = pkts[i];
        struct pkt *p = &tmp[n++];
        uint64_t flags = op ? (uint64_t)op->a[1] : 0;
        int damage = op ? (int)((uint64_t)op->a[3] % 3) : 0;
        p->segsel = op ? (uint64_t)op->a[2] : p->segsel;
        p->fault = op ? (int)((uint64_t)op->a[5] % 6) : 0;
        p->lost = damage == 1 && !p->af_only;
        p->corrupt = damage == 2;
        if ((flags & 2) && !p->lost && !p->corrupt && !p->af_only) {
            tmp[n] = *p;
            tmp[n].dup = true;
            tmp[n].fault = 0;
            n++;
            SIM_PROBE("fault_packet_duplicated");
        }
    }
    /* packet indices moved: recompute which packets carry which unit */
    for (int a = 0; a < nau; a++) {
        aus[a].first_pkt = -1;
        aus[a].last_pkt = -1;
    }
    memcpy(pkts, tmp, sizeof(pkts[0]) * (size_t)n);
    npkt = n;
    for (int i = 0; i < npkt; i++) {
        int a = pkts[i].au;
        if (a < 0)
            continue;
        if (aus[a].first_pkt < 0)
            aus[a].first_pkt = i;
        aus[a].last_pkt = i;
    }
}

/* ----------------------------------------------------------------- decaps */
static void run_decaps(int kind)
{
    for (int i = 0; i < plan->nops; i++)
        if (plan->ops[i].code == OP_AU)
            build_au(&plan->ops[i]);
    if (nau == 0)
        return;
    if (kind == K_TSENCAPS) {
        if (!tsencaps_units())
            return;
    } else if (kind == K_ROUNDTRIP) {
        if (!encaps_units())
            return;
    } else
        for (int n = 0; n < nau; n++) {
            int hl = ref_pes_header(&aus[n], aus[n].pes);
            memcpy(aus[n].pes + hl, aus[n].data, (size_t)aus[n].len);
            aus[n].pes_len = hl + aus[n].len;
        }
    if (kind != K_TSENCAPS)
        packetise();
    else
        channel_from_ops();
    ev_ready = ev_dead = 0;

    unsigned pid = 32 + (unsigned)((uint64_t)plan->cfg[CFG_PID] % 8000);
    int split_mode = (int)((uint64_t)plan->cfg[CFG_SPLIT] % 3);   /* 0 none, 1 split, 2 split + second output */
    struct upipe *split = NULL, *sub = NULL, *sub2 = NULL;
    unsigned expect_pipes = 2, noise_sent = 0;
    noise_got = noise_bad = 0;
    noise_pid = ((uint64_t)plan->cfg[CFG_SPLIT] & 4) ? 0x1fff : pid ^ 1;
    struct upipe_mgr *mgr = upipe_ts_decaps_mgr_alloc();
    struct upipe *decaps = upipe_void_alloc(mgr, uprobe_use(&probe));
    upipe_mgr_release(mgr);
    mgr = upipe_ts_pesd_mgr_alloc();
    struct upipe *pesd = decaps ? upipe_void_alloc_output(decaps, mgr, uprobe_use(&probe)) : NULL;
    upipe_mgr_release(mgr);
    if (decaps == NULL || pesd == NULL) {
        sim_violation(V_CONTROL, "allocation of ts_decaps / ts_pes_decaps failed");
        return;
    }
    upipe_set_output(pesd, &sink);
    upipe_release(pesd);
    struct uref *fd = uref_block_flow_alloc_def(uref_mgr, "mpegts.mpegtspes.");
    int err = fd ? upipe_set_flow_def(decaps, fd) : UBASE_ERR_ALLOC;
    uref_free(fd);
    if (!ubase_check(err))
        sim_violation(V_CONTROL, "ts_decaps refuses block.mpegts.mpegtspes. (%d)", err);
    if (split_mode && checking()) {
        /* the PID demultiplexer in front: packets of other PIDs are mixed in */
        mgr = upipe_ts_split_mgr_alloc();
        split = upipe_void_alloc(mgr, uprobe_use(&probe));
        upipe_mgr_release(mgr);
        struct uref *sfd = uref_block_flow_alloc_def(uref_mgr, "mpegts.");
        if (split == NULL || sfd == NULL || !ubase_check(upipe_set_flow_def(split, sfd)))
            sim_violation(V_CONTROL, "ts_split allocation / flow definition failed");
        uref_free(sfd);
        sfd = uref_block_flow_alloc_def(uref_mgr, "mpegts.mpegtspes.");
        if (sfd != NULL && split != NULL) {
            uref_ts_flow_set_pid(sfd, pid);
            sub = upipe_flow_alloc_sub(split, uprobe_use(&probe), sfd);
            if (sub == NULL || !ubase_check(upipe_set_output(sub, decaps)))
                sim_violation(V_CONTROL, "ts_split output for PID %u failed", pid);
            expect_pipes += 2;
            if (split_mode == 2) {
                uref_ts_flow_set_pid(sfd, noise_pid);
                upipe_init(&noise_sink, &noise_mgr, uprobe_use(&probe));
                urefcount_init(&noise_sink_refcount, noise_free_cb);
                noise_sink.refcount = &noise_sink_refcount;
                sub2 = upipe_flow_alloc_sub(split, uprobe_use(&probe), sfd);
                if (sub2 == NULL || !ubase_check(upipe_set_output(sub2, &noise_sink)))
                    sim_violation(V_CONTROL, "ts_split output for PID %u failed", noise_pid);
                expect_pipes++;
            }
        }
        uref_free(sfd);
        SIM_PROBE("ts_split_in_front");
    }
    struct upipe *head = split != NULL ? split : decaps;

    bool any_lost = false, any_corrupt = false;
    int release_at = plan->cfg[CFG_RELEASE_AT] > 0 ? (int)((uint64_t)plan->cfg[CFG_RELEASE_AT] % (uint64_t)(npkt + 1)) : npkt;
    int lost_run = 0;
    /* gap_after[i]: packet i is the first payload packet delivered after a gap */
    static bool gap_before[MAXPKT], gap_optional[MAXPKT];
    memset(gap_before, 0, sizeof(gap_before));
    memset(gap_optional, 0, sizeof(gap_optional));
    for (int i = 0; i < npkt && i < release_at && checking(); i++) {
        struct pkt *p = &pkts[i];
        feeding_pkt = i;
        if (p->lost && !p->af_only && i > 0 && lost_run < 16) {
            /* (a gap of 16 packets shows the same counter again: only the
             * comparison with the last payload tells it from a duplicate) */
            any_lost = true;
            lost_run++;
            SIM_PROBE("fault_packet_lost");
            sim_ev("lost", (uint64_t)i, 0);
            if (i + 1 < npkt && pkts[i + 1].dup)
                pkts[i + 1].lost = true;        /* both copies */
            continue;
        }
        p->lost = false;
        if (lost_run && !p->af_only) {
            /* sixteen packets lost: the 4-bit counter shows nothing */
            if (lost_run % 16 != 0)
                gap_before[i] = true;
            else {
                /* (unless an adaptation-only packet in between gives it away) */
                gap_optional[i] = true;
                SIM_PROBE("ts_gap_of_16_invisible");
            }
            lost_run = 0;
        }
        uint8_t d[188];
        memcpy(d, p->d, 188);
        if (p->corrupt) {
            /* arbitrary damage, header and adaptation field included */
            uint64_t x = p->segsel * 0x9e3779b97f4a7c15ULL + (uint64_t)i;
            int k = 1 + (int)(x % 6);
            for (int j = 0; j < k; j++) {
                x = x * 6364136223846793005ULL + 1442695040888963407ULL;
                d[(x >> 20) % 188] = (uint8_t)(x >> 40);
            }
            d[0] = 0x47;
            any_corrupt = true;
            SIM_PROBE("fault_packet_corrupt");
        }
        if (split != NULL && p->corrupt) {
            /* keep the damage away from the PID: routing is not what a corrupt packet tests here */
            d[1] = (uint8_t)((d[1] & 0xe0) | ((pid >> 8) & 0x1f));
            d[2] = (uint8_t)pid;
        }
        struct uref *uref = make_buffer(d, 188, p->segsel);
        if (uref == NULL)
            break;
        if (!p->corrupt && !p->af_only && !p->dup)
            payload_octets_in += (unsigned)p->payload_len;
        else if (p->corrupt)
            payload_octets_in += 184;
        if (split != NULL && ((p->segsel >> 7) & 3) == 0) {
            /* a packet of another PID in between */
            uint8_t nz[188];
            for (int k = 0; k < 188; k++)
                nz[k] = (uint8_t)(p->segsel * 31 + (uint64_t)k * 7);
            nz[0] = 0x47;
            nz[1] = (uint8_t)((nz[1] & 0xe0) | ((noise_pid >> 8) & 0x1f));
            nz[2] = (uint8_t)noise_pid;
            struct uref *nu = make_buffer(nz, 188, p->segsel >> 9);
            if (nu != NULL) {
                noise_sent++;
                upipe_input(head, nu, NULL);
            }
        }
        sim_ev("packet", (uint64_t)i, (uint64_t)p->pusi | (uint64_t)p->dup << 1 | (uint64_t)p->af_only << 2 | (uint64_t)p->corrupt << 3);
        if (p->fault && ((uint64_t)plan->cfg[CFG_FAULTS] & 1))
            sim_alloc_arm(p->fault);
        if (p->disci && !p->corrupt)
            gap_optional[i] = true;     /* what it gives may come out flagged */
        int nchunk0 = nchunk;
        upipe_input(head, uref, NULL);
        /* the second copy of a packet is recognised and dropped, whatever the
         * packet carries (the pipeline is synchronous: nothing else can come
         * out while it is fed) */
        if (p->dup && !p->corrupt && nchunk > nchunk0 && checking() && !fault_fired)
            sim_violation(V_PAYLOAD, "packet %d is an exact duplicate of packet %d, it made %d chunk(s) come out%s", i, i - 1,
                          nchunk - nchunk0, p->disci ? " (the packet carries a discontinuity indicator)" : "");
        if (sim_alloc_disarm() == 0 && p->fault && ((uint64_t)plan->cfg[CFG_FAULTS] & 1)) {
            fault_fired = true;
            SIM_PROBE("fault_alloc_in_input");
        }
    }
    if (release_at < npkt)
        SIM_PROBE("ts_released_in_mid_stream");
    /* teardown in one of two orders */
    if (split != NULL && ((uint64_t)plan->cfg[CFG_SPLIT] & 8)) {
        upipe_release(split);
        split = NULL;
    }
    upipe_release(sub);
    upipe_release(sub2);
    upipe_release(split);
    upipe_release(decaps);
    if (split_mode == 2) {
        if (checking() && !urefcount_single(&noise_sink_refcount))
            sim_violation(V_LEAK, "the second sink behind ts_split is still referenced");
        upipe_clean(&noise_sink);
    }
    if (checking() && (ev_ready != expect_pipes || ev_dead != expect_pipes))
        sim_violation(V_LIFECYCLE, "%u pipes allocated, %u ready and %u dead events", expect_pipes, ev_ready, ev_dead);
    if (checking() && !fault_fired && split_mode == 2 && (noise_got != noise_sent || noise_bad))
        sim_violation(V_PID_ROUTING, "%u packets of PID %u went into ts_split, its output for that PID received %u (%u of them "
                      "not of that PID)", noise_sent, noise_pid, noise_got, noise_bad);
    if (!checking() || fault_fired || out_overflow)
        return;
    if ((unsigned)outpos > payload_octets_in) {
        sim_violation(V_OUT_OF_NOTHING, "%d octets came out, the packets carried %u payload octets", outpos, payload_octets_in);
        return;
    }
    if (any_corrupt) {
        SIM_PROBE("ts_run_with_corrupt_packets");
        return;         /* no crash, no leak, no octet out of nothing */
    }

    /* cut the output into units at start flags and at discontinuity flags */
    int first_chunk_checked = 0;
    for (int n = 0; n < nau; n++) {
        struct au *a = &aus[n];
        if (a->last_pkt >= release_at)
            break;
        bool touched = false;
        for (int i = a->first_pkt; i <= a->last_pkt; i++)
            touched = touched || pkts[i].lost || pkts[i].disci;
        /* a gap right behind the unit glues foreign chunks to it only if the
         * next unit start was lost too; those come with a discontinuity flag
         * and therefore start a new segment */
        if (touched) {
            SIM_PROBE("ts_unit_touched_by_gap");
            continue;
        }
        /* find the segment that starts with this unit's first octet */
        int c = first_chunk_checked;
        while (c < nchunk && !(chunks[c].start && chunks[c].after_pkt >= a->first_pkt &&
                               chunks[c].after_pkt <= a->last_pkt))
            c++;
        if (c >= nchunk) {
            sim_violation(V_UNIT_LOST, "access unit %d (%d octets, packets %d-%d, none lost) never came out",
                          n, a->len, a->first_pkt, a->last_pkt);
            return;
        }
        int got = 0, cc = c;
        bool end_seen = false;
        while (cc < nchunk && (cc == c || (!chunks[cc].start && !chunks[cc].disc)) && chunks[cc].after_pkt <= a->last_pkt) {
            if (got + chunks[cc].len > a->len || memcmp(outbuf + chunks[cc].off, a->data + got, (size_t)chunks[cc].len)) {
                sim_violation(V_PAYLOAD, "access unit %d: chunk %d (%d octets at offset %d of %d) differs from what was carried",
                              n, cc - c, chunks[cc].len, got, a->len);
                return;
            }
            got += chunks[cc].len;
            if (end_seen && chunks[cc].len) {
                sim_violation(V_MARKER, "access unit %d: data after the chunk marked as the end of the PES packet", n);
                return;
            }
            end_seen = end_seen || chunks[cc].end;
            if (cc > c && chunks[cc].random != pkts[chunks[cc].after_pkt].rai) {
                sim_violation(V_MARKER, "access unit %d: packet %d has random access indicator %d, the chunk it gave has %d",
                              n, chunks[cc].after_pkt, pkts[chunks[cc].after_pkt].rai, chunks[cc].random);
                return;
            }
            cc++;
        }
        if (got != a->len) {
            sim_violation(V_PAYLOAD, "access unit %d: %d of %d octets recovered (packets %d-%d, none lost)", n, got, a->len,
                          a->first_pkt, a->last_pkt);
            return;
        }
        bool bounded = a->bounded && a->pes_len - 6 <= 0xffff;
        if (bounded != end_seen) {
            sim_violation(V_MARKER, "access unit %d: PES length %s, end marker %s", n, bounded ? "announced" : "unbounded",
                          end_seen ? "set" : "not set");
            return;
        }
        bool want_random = false;
        for (int i = a->first_pkt; i <= chunks[c].after_pkt; i++)
            want_random = want_random || (pkts[i].rai && !pkts[i].dup && !pkts[i].af_only);
        /* (the first chunk may hold several packets' worth of PES header: it
         * carries the marker of the packet that started it) */
        if (chunks[c].random != want_random && chunks[c].random != pkts[a->first_pkt].rai) {
            sim_violation(V_MARKER, "access unit %d: random access indicator %d in the stream, %d on the unit", n, want_random,
                          chunks[c].random);
            return;
        }
        if ((a->ts_mode != 0) != chunks[c].has_dts) {
            sim_violation(V_TIMING, "access unit %d: timestamps %s in the PES header, %s on the unit", n,
                          a->ts_mode ? "present" : "absent", chunks[c].has_dts ? "present" : "absent");
            return;
        }
        if (a->ts_mode) {
            uint64_t want_dts = a->dts * (UCLOCK_FREQ / 90000);
            uint64_t want_delay = ((a->pts + 0x200000000ULL - a->dts) & 0x1ffffffffULL) * (UCLOCK_FREQ / 90000);
            if (chunks[c].dts_orig != want_dts || chunks[c].dts_pts_delay != want_delay) {
                sim_violation(V_TIMING, "access unit %d: DTS %" PRIu64 " / PTS-DTS %" PRIu64 " recovered, %" PRIu64 " / %" PRIu64
                              " carried (mode %d)", n, chunks[c].dts_orig, chunks[c].dts_pts_delay, want_dts, want_delay, a->ts_mode);
                return;
            }
        }
        first_chunk_checked = cc;
    }
    /* discontinuities: behind every gap (and possibly on the very first
     * payload packet), nowhere else. A chunk may carry the flags of packets
     * that were held back while a PES header was being collected. */
    /* the first thing that comes out may always be flagged (counter not
     * initialised yet) */
    bool first_payload = true, want = false, optional = true;
    int c = 0, want_pkt = -1;
    for (int i = 0; i < npkt && i < release_at; i++) {
        if (pkts[i].lost || pkts[i].af_only || pkts[i].dup)
            continue;
        if (gap_before[i]) {
            want = true;
            want_pkt = i;
        }
        if (gap_optional[i])
            optional = true;
        first_payload = false;
        while (c < nchunk && chunks[c].after_pkt < i)
            c++;
        bool seen = false, any = false;
        for (int k = c; k < nchunk && chunks[k].after_pkt == i; k++) {
            any = true;
            seen = seen || chunks[k].disc;
        }
        if (!any)
            continue;           /* held back: the PES header is still being collected */
        /* (while pes_decaps waits for its first unit start it drops what
         * ts_decaps flagged: nothing was delivered that the gap could separate) */
        if (want && !seen) {
            sim_violation(V_DISCONTINUITY, "packets were lost right before packet %d, what came out next (with packet %d) "
                          "is not flagged as a discontinuity", want_pkt, i);
            return;
        }
        if (!want && !optional && seen) {
            sim_violation(V_DISCONTINUITY, "output of packet %d is flagged as a discontinuity, no packet was lost before it", i);
            return;
        }
        want = optional = false;
    }
}

/* ----------------------------------------------------------------- engine */
static void gen(const char *pr, struct sim_rng *r, struct sim_plan *p)
{
    p->cfg[CFG_PROP] = atoi(pr + 1);
    uint32_t kk = sim_rng_below(r, 10);
    p->cfg[CFG_KIND] = kk < 4 ? K_DECAPS : kk < 6 ? K_ROUNDTRIP : K_TSENCAPS;
    p->cfg[CFG_ALIGN] = sim_rng_chance(r, 2, 3);
    p->cfg[CFG_PCR_INTERVAL] = sim_rng_below(r, 4000000);
    p->cfg[CFG_OCTETRATE] = sim_rng_below(r, 2000000);
    p->cfg[CFG_MUX_STEP] = sim_rng_below(r, 40000);
    p->cfg[CFG_SPLIT] = sim_rng_chance(r, 1, 2) ? sim_rng_below(r, 48) : 0;
    p->cfg[CFG_PES_ID] = sim_rng_below(r, 5);
    p->cfg[CFG_PES_HEADER] = sim_rng_below(r, 96);
    p->cfg[CFG_POOL] = sim_rng_below(r, 4);
    p->cfg[CFG_UMEM_OFF] = sim_rng_below(r, 7);
    p->cfg[CFG_FAULTS] = sim_rng_chance(r, 1, 5);
    p->cfg[CFG_PID] = sim_rng_below(r, 8000);
    p->cfg[CFG_CC0] = sim_rng_below(r, 16);
    p->cfg[CFG_RELEASE_AT] = sim_rng_chance(r, 1, 6) ? 1 + sim_rng_below(r, 60) : 0;
    int n = 1 + (int)sim_rng_below(r, 8);
    for (int i = 0; i < n; i++)
        sim_plan_add(p, 0, OP_AU, sim_rng_below(r, 6), sim_rng_below(r, 100000), sim_rng_below(r, 3) | (sim_rng_chance(r, 1, 10) ? 16 : 0),
                     sim_rng_below(r, 5), sim_rng_below(r, 400), sim_rng_below(r, 4));
    int style = (int)sim_rng_below(r, 3);       /* 0 plain, 1 adaptation fields everywhere, 2 mixed */
    int damage = (int)sim_rng_below(r, 4);      /* 0,3 none; 1 loss; 2 loss + corruption */
    int np = 4 + (int)sim_rng_below(r, 80);
    for (int i = 0; i < np; i++) {
        uint32_t wish = style == 0 ? 0 : style == 1 ? sim_rng_below(r, 190) : sim_rng_chance(r, 1, 3) ? sim_rng_below(r, 190) : 0;
        uint32_t flags = (sim_rng_chance(r, 1, 8) ? 1 : 0) | (sim_rng_chance(r, 1, 10) ? 2 : 0) | (sim_rng_chance(r, 1, 12) ? 4 : 0) |
                         (sim_rng_chance(r, 1, 16) ? 8 : 0) | (sim_rng_chance(r, 1, 12) ? 16 : 0);
        uint32_t dmg = 0;
        if (damage == 1 && sim_rng_chance(r, 1, 10)) dmg = 1;
        else if (damage == 2 && sim_rng_chance(r, 1, 10)) dmg = 1 + sim_rng_below(r, 2);
        sim_plan_add(p, 0, OP_PKT, wish, flags, (int64_t)(sim_rng_next(r) >> 20), dmg, sim_rng_chance(r, 1, 5) ? 6 + sim_rng_below(r, 2) : 0,
                     p->cfg[CFG_FAULTS] && sim_rng_chance(r, 1, 6) ? 1 + sim_rng_below(r, 5) : 0);
    }
}

static void run(const char *pr, const struct sim_plan *pl)
{
    plan = pl;
    env_setup();
    run_decaps((int)((uint64_t)plan->cfg[CFG_KIND] % K__N));
    env_teardown();
    sim_mark_nontrivial();
    sim_sig_add(1, sim_mix((uint64_t)nau, sim_mix((uint64_t)npkt, (uint64_t)nchunk)));
}

static const char *const props[] = { "C15", NULL };
const struct sim_engine sim_engine = {
    .name = "etspes", .props = props, .gen = gen, .run = run,
    .class_name = class_name, .op_name = op_name,
};

int main(int argc, char **argv) { return sim_main(argc, argv); }
