/*
 * E-ts, TS/PES part (C15): the real upipe_ts_decaps.c and upipe_ts_pes_decaps.c
 * (and, in the round-trip scenario, upipe_ts_pes_encaps.c / upipe_ts_encaps.c)
 * behind a simulated transport.
 *
 * decaps scenario: an independent reference packetiser (written from ISO/IEC
 *   13818-1 2.4.3, sharing nothing with the bitstream stand-in) wraps generated
 *   access units into PES packets (stream ids, PTS / PTS+DTS, header stuffing,
 *   bounded and unbounded lengths) and 188-octet TS packets (adaptation fields
 *   of every length, PCR, random access indicator, stuffing), the channel adds
 *   what a real one adds (duplicates, adaptation-only packets, lost packets,
 *   arbitrary corrupt packets), the packets - as possibly segmented buffers -
 *   go through ts_decaps -> pes_decaps into a recording sink.
 */
#include "../sim/sim.h"
#include "../sim/alloc.h"

#include <upipe/ubase.h>
#include <upipe/umem.h>
#include <upipe/udict.h>
#include <upipe/udict_inline.h>
#include <upipe/uref.h>
#include <upipe/uref_std.h>
#include <upipe/uref_flow.h>
#include <upipe/uref_block.h>
#include <upipe/uref_block_flow.h>
#include <upipe/uref_clock.h>
#include <upipe/uclock.h>
#include <upipe/ubuf.h>
#include <upipe/ubuf_block_mem.h>
#include <upipe/uprobe.h>
#include <upipe/upipe.h>
#include <upipe-ts/uref_ts_flow.h>
#include <upipe-ts/upipe_ts_decaps.h>
#include <upipe-ts/upipe_ts_pes_decaps.h>

#include <stdlib.h>
#include <string.h>
#include <inttypes.h>

enum {
    V_PAYLOAD = 1,          /* recovered unit differs from what was carried */
    V_TIMING,               /* PTS / DTS differ */
    V_MARKER,               /* unit start / end / random access marker wrong */
    V_DISCONTINUITY,        /* gap not flagged, or flag without gap */
    V_UNIT_LOST,            /* a unit the channel did not touch is missing */
    V_LEAK,
    V_LIFECYCLE,
    V_FATAL_UNEXPECTED,
    V_CONTROL,
    V_OUT_OF_NOTHING,       /* more octets out than payload octets in */
};

static const char *class_name(int cls)
{
    switch (cls) {
    case V_PAYLOAD: return "payload";
    case V_TIMING: return "timing";
    case V_MARKER: return "marker";
    case V_DISCONTINUITY: return "discontinuity";
    case V_UNIT_LOST: return "unit_lost";
    case V_LEAK: return "leak";
    case V_LIFECYCLE: return "lifecycle";
    case V_FATAL_UNEXPECTED: return "fatal_unexpected";
    case V_CONTROL: return "control";
    case V_OUT_OF_NOTHING: return "out_of_nothing";
    default: return NULL;
    }
}

enum {
    OP_AU = 1,  /* a0 size class, a1 size detail, a2 timestamps (0 none, 1 PTS, 2 PTS+DTS), a3 stream id selector,
                   a4 header stuffing, a5 bit0 bounded length, bit1 random access */
    OP_PKT,     /* a0 adaptation field stuffing wish, a1 bit0 PCR, bit1 duplicate after, bit2 adaptation-only packet before,
                   a2 segmentation, a3 damage (0 none, 1 lost, 2 corrupt), a4 detail, a5 alloc fault */
    OP__N
};
static const char *op_name(int code)
{
    static const char *const n[] = { "?", "au", "pkt" };
    return code > 0 && code < OP__N ? n[code] : "?";
}

enum { CFG_PROP = 0, CFG_KIND, CFG_POOL, CFG_RELEASE_AT, CFG_FAULTS, CFG_UMEM_OFF, CFG_PID, CFG_CC0 };

#define MAXAU 12
#define MAXAUSIZE 4000
#define MAXPKT 512
#define MAXCHUNK 1024

static struct umem_mgr *umem;
static struct udict_mgr *udict_mgr;
static struct uref_mgr *uref_mgr;
static struct ubuf_mgr *ubuf_mgr;
static const struct sim_plan *plan;
static bool fault_fired;

static bool checking(void) { return !sim_violation_class(); }

/* ------------------------------------------------------------ access units */
static struct au {
    uint8_t data[MAXAUSIZE];
    int len;
    int ts_mode;
    uint64_t pts, dts;          /* 90 kHz, 33 bits */
    uint8_t stream_id;
    int hdr_stuffing;
    bool bounded, rai;
    int first_pkt, last_pkt;    /* TS packets carrying it */
} aus[MAXAU];
static int nau;

static void build_au(const struct sim_op *op)
{
    if (nau >= MAXAU)
        return;
    struct au *a = &aus[nau];
    memset(a, 0, sizeof(*a));
    switch ((uint64_t)op->a[0] % 6) {
    case 0: a->len = 1 + (int)((uint64_t)op->a[1] % 8); break;
    case 1: case 2: a->len = 1 + (int)((uint64_t)op->a[1] % 180); break;
    case 3: a->len = 150 + (int)((uint64_t)op->a[1] % 60); break;      /* around one packet */
    case 4: a->len = 1 + (int)((uint64_t)op->a[1] % 1000); break;
    default: a->len = 1 + (int)((uint64_t)op->a[1] % MAXAUSIZE); break;
    }
    uint64_t seed = (uint64_t)op->a[1] * 0x9e3779b97f4a7c15ULL + (uint64_t)nau;
    for (int i = 0; i < a->len; i++) {
        seed = seed * 6364136223846793005ULL + 1442695040888963407ULL;
        uint8_t b = (uint8_t)(seed >> 35);
        /* start codes, sync octets and 0xff runs inside the payload */
        a->data[i] = (b & 15) == 0 ? 0x47 : (b & 15) == 1 ? 0x00 : (b & 15) == 2 ? 0x01 : (b & 15) == 3 ? 0xff : b;
    }
    a->data[0] = (uint8_t)(0xa0 + nau);        /* tells the units apart */
    a->ts_mode = (int)((uint64_t)op->a[2] % 3);
    a->dts = ((uint64_t)op->a[1] * 7919u + (uint64_t)nau * 3600u) & 0x1ffffffffULL;
    if (((uint64_t)op->a[2] >> 4) & 1)
        a->dts = 0x1ffffffffULL - (uint64_t)nau;      /* next to the 33-bit wrap */
    a->pts = a->ts_mode == 2 ? (a->dts + 1 + (uint64_t)op->a[4] * 900u % 90000u) & 0x1ffffffffULL : a->dts;
    static const uint8_t ids[] = { 0xe0, 0xc0, 0xbd, 0xe5, 0xc7 };
    a->stream_id = ids[(uint64_t)op->a[3] % 5];
    a->hdr_stuffing = (int)((uint64_t)op->a[4] % 4) == 0 ? (int)((uint64_t)op->a[4] / 4 % 30) : 0;
    a->bounded = ((uint64_t)op->a[5] & 1) != 0;
    a->rai = ((uint64_t)op->a[5] & 2) != 0;
    nau++;
}

/* reference PES header (ISO/IEC 13818-1 table 2-21) */
static int ref_pes_header(const struct au *a, uint8_t *h)
{
    int hdl = (a->ts_mode == 1 ? 5 : a->ts_mode == 2 ? 10 : 0) + a->hdr_stuffing;
    int total = 9 + hdl + a->len;
    h[0] = 0; h[1] = 0; h[2] = 1;
    h[3] = a->stream_id;
    int plen = total - 6;
    if (!a->bounded || plen > 0xffff)
        plen = 0;
    h[4] = (uint8_t)(plen >> 8);
    h[5] = (uint8_t)plen;
    h[6] = 0x80;                                /* '10', not scrambled, no priority/alignment/copyright */
    h[7] = a->ts_mode == 1 ? 0x80 : a->ts_mode == 2 ? 0xc0 : 0x00;
    h[8] = (uint8_t)hdl;
    int o = 9;
    if (a->ts_mode) {
        uint64_t t = a->pts;
        h[o++] = (uint8_t)((a->ts_mode == 2 ? 0x30 : 0x20) | ((t >> 29) & 0xe) | 1);
        h[o++] = (uint8_t)(t >> 22);
        h[o++] = (uint8_t)(((t >> 14) & 0xfe) | 1);
        h[o++] = (uint8_t)(t >> 7);
        h[o++] = (uint8_t)(((t << 1) & 0xfe) | 1);
    }
    if (a->ts_mode == 2) {
        uint64_t t = a->dts;
        h[o++] = (uint8_t)(0x10 | ((t >> 29) & 0xe) | 1);
        h[o++] = (uint8_t)(t >> 22);
        h[o++] = (uint8_t)(((t >> 14) & 0xfe) | 1);
        h[o++] = (uint8_t)(t >> 7);
        h[o++] = (uint8_t)(((t << 1) & 0xfe) | 1);
    }
    for (int i = 0; i < a->hdr_stuffing; i++)
        h[o++] = 0xff;
    return o;
}

/* ------------------------------------------------------------- TS packets */
static struct pkt {
    uint8_t d[188];
    int au;                 /* unit it carries, -1 none */
    int payload_off, payload_len;
    bool pusi, dup, af_only, lost, corrupt, rai;
    uint64_t segsel;
    int fault;
} pkts[MAXPKT];
static int npkt;
static unsigned payload_octets_in;

static const struct sim_op *next_pkt_op(int *opi)
{
    while (*opi < plan->nops) {
        const struct sim_op *o = &plan->ops[(*opi)++];
        if (o->code == OP_PKT)
            return o;
    }
    return NULL;
}

static void ts_header(uint8_t *d, unsigned pid, bool pusi, bool has_af, bool has_payload, unsigned cc)
{
    d[0] = 0x47;
    d[1] = (uint8_t)((pusi ? 0x40 : 0) | ((pid >> 8) & 0x1f));
    d[2] = (uint8_t)pid;
    d[3] = (uint8_t)((has_af ? 0x20 : 0) | (has_payload ? 0x10 : 0) | (cc & 0xf));
}

/** packetises the PES packets (reference packetiser) */
static void packetise(void)
{
    unsigned pid = 32 + (unsigned)((uint64_t)plan->cfg[CFG_PID] % 8000);
    unsigned cc = (unsigned)((uint64_t)plan->cfg[CFG_CC0] % 16);
    int opi = 0;
    npkt = 0;
    for (int n = 0; n < nau; n++) {
        struct au *a = &aus[n];
        static uint8_t pes[MAXAUSIZE + 64];
        int hl = ref_pes_header(a, pes);
        memcpy(pes + hl, a->data, (size_t)a->len);
        int total = hl + a->len, off = 0;
        a->first_pkt = npkt;
        while (off < total && npkt < MAXPKT - 2) {
            const struct sim_op *op = next_pkt_op(&opi);
            uint64_t flags = op ? (uint64_t)op->a[1] : 0;
            if ((flags & 4) && npkt < MAXPKT - 3) {
                /* adaptation-only packet (e.g. a PCR): same counter, no payload */
                struct pkt *q = &pkts[npkt++];
                memset(q, 0, sizeof(*q));
                q->au = -1;
                q->af_only = true;
                ts_header(q->d, pid, false, true, false, cc);
                q->d[4] = 183;
                q->d[5] = (flags & 1) ? 0x10 : 0x00;
                memset(q->d + 6, 0xff, 182);
                if (flags & 1) {
                    uint64_t pcr = (uint64_t)npkt * 12345;
                    q->d[6] = (uint8_t)(pcr >> 25); q->d[7] = (uint8_t)(pcr >> 17); q->d[8] = (uint8_t)(pcr >> 9);
                    q->d[9] = (uint8_t)(pcr >> 1); q->d[10] = (uint8_t)(0x7e | ((pcr & 1) << 7)); q->d[11] = 0;
                }
                q->segsel = op ? (uint64_t)op->a[2] >> 3 : 0;
                SIM_PROBE("ts_adaptation_only_packet");
            }
            struct pkt *p = &pkts[npkt];
            memset(p, 0, sizeof(*p));
            p->au = n;
            p->pusi = off == 0;
            p->rai = off == 0 && a->rai;
            int left = total - off;
            /* adaptation field: needed to pad the last packet of the PES, to
             * carry a PCR or the random access indicator, or just for stuffing */
            bool pcr = (flags & 1) != 0;
            int af_min = p->rai || pcr ? (pcr ? 8 : 2) : 0;    /* octets taken by the AF including its length */
            int wish = op ? (int)((uint64_t)op->a[0] % 190) : 0;
            int af = af_min;
            if (wish > af && wish <= 183)
                af = wish;
            if (184 - af > left)
                af = 184 - left;
            if (af > 183 && left > 0)
                af = 183;       /* at least one payload octet in a payload packet */
            int pl = 184 - af;
            cc = (cc + 1) & 0xf;
            ts_header(p->d, pid, p->pusi, af > 0, true, cc);
            if (af > 0) {
                p->d[4] = (uint8_t)(af - 1);
                if (af > 1) {
                    p->d[5] = (uint8_t)((p->rai ? 0x40 : 0) | (pcr && af >= 8 ? 0x10 : 0));
                    memset(p->d + 6, 0xff, (size_t)(af - 2));
                    if (pcr && af >= 8) {
                        uint64_t v = (uint64_t)npkt * 54321;
                        p->d[6] = (uint8_t)(v >> 25); p->d[7] = (uint8_t)(v >> 17); p->d[8] = (uint8_t)(v >> 9);
                        p->d[9] = (uint8_t)(v >> 1); p->d[10] = (uint8_t)(0x7e | ((v & 1) << 7)); p->d[11] = 1;
                        SIM_PROBE("ts_pcr");
                    }
                }
                if (af == 1)
                    SIM_PROBE("ts_adaptation_field_length_0");
                if (af >= 183)
                    SIM_PROBE("ts_adaptation_field_183");
            }
            p->payload_off = 4 + af;
            p->payload_len = pl;
            memcpy(p->d + 4 + af, pes + off, (size_t)pl);
            off += pl;
            p->segsel = op ? (uint64_t)op->a[2] : 0;
            p->fault = op ? (int)((uint64_t)op->a[5] % 6) : 0;
            int damage = op ? (int)((uint64_t)op->a[3] % 3) : 0;
            p->lost = damage == 1;
            p->corrupt = damage == 2;
            npkt++;
            if ((flags & 2) && !p->lost && !p->corrupt && npkt < MAXPKT - 2) {
                /* the channel delivers it twice */
                pkts[npkt] = *p;
                pkts[npkt].dup = true;
                pkts[npkt].fault = 0;
                npkt++;
                SIM_PROBE("fault_packet_duplicated");
            }
        }
        a->last_pkt = npkt - 1;
    }
}

/* -------------------------------------------------------------- recording */
static struct chunk {
    int off, len;
    bool start, end, disc, random, has_dts;
    uint64_t dts_orig, dts_pts_delay;
    int after_pkt;          /* index of the TS packet being fed when it came out */
} chunks[MAXCHUNK];
static int nchunk;
static uint8_t outbuf[1 << 17];
static int outpos;
static bool out_overflow;
static int feeding_pkt;

static struct upipe sink;
static struct urefcount sink_refcount;
static struct uprobe probe;
static struct urefcount probe_refcount;
static unsigned ev_ready, ev_dead;

static void noop_free(struct urefcount *r) { (void)r; }

static int catch(struct uprobe *uprobe, struct upipe *upipe, int event, va_list args)
{
    if (event == UPROBE_LOG) {
        if (sim_verbose) {
            va_list copy;
            va_copy(copy, args);
            struct ulog *ulog = va_arg(copy, struct ulog *);
            char msg[200];
            ulog_msg_print(ulog, msg, sizeof(msg));
            if (ulog->level >= UPROBE_LOG_DEBUG)
                printf("        log: %s\n", msg);
            va_end(copy);
        }
        return UBASE_ERR_NONE;
    }
    if (upipe == &sink)
        return UBASE_ERR_NONE;
    switch (event) {
    case UPROBE_READY: ev_ready++; break;
    case UPROBE_DEAD: ev_dead++; break;
    case UPROBE_FATAL:
        if (!sim_alloc_failed() && checking())
            sim_violation(V_FATAL_UNEXPECTED, "a fatal error is thrown although no fault was injected");
        break;
    default: break;
    }
    return UBASE_ERR_NONE;
}

static void sink_input(struct upipe *upipe, struct uref *uref, struct upump **upump_p)
{
    size_t size = 0;
    uref_block_size(uref, &size);
    if (nchunk >= MAXCHUNK || outpos + (int)size > (int)sizeof(outbuf)) {
        out_overflow = true;
        uref_free(uref);
        return;
    }
    struct chunk *c = &chunks[nchunk++];
    memset(c, 0, sizeof(*c));
    c->off = outpos;
    c->len = (int)size;
    if (size)
        uref_block_extract(uref, 0, (int)size, outbuf + outpos);
    outpos += (int)size;
    c->start = ubase_check(uref_block_get_start(uref));
    c->end = ubase_check(uref_block_get_end(uref));
    c->disc = ubase_check(uref_flow_get_discontinuity(uref));
    c->random = ubase_check(uref_flow_get_random(uref));
    c->has_dts = ubase_check(uref_clock_get_dts_orig(uref, &c->dts_orig));
    if (!ubase_check(uref_clock_get_dts_pts_delay(uref, &c->dts_pts_delay)))
        c->dts_pts_delay = 0;
    c->after_pkt = feeding_pkt;
    sim_ev("chunk", size, (uint64_t)c->start | (uint64_t)c->end << 1 | (uint64_t)c->disc << 2 | (uint64_t)c->random << 3);
    uref_free(uref);
}

static int sink_control(struct upipe *upipe, int command, va_list args)
{
    switch (command) {
    case UPIPE_SET_FLOW_DEF:
    case UPIPE_REGISTER_REQUEST:
    case UPIPE_UNREGISTER_REQUEST:
        return UBASE_ERR_NONE;
    default:
        return UBASE_ERR_UNHANDLED;
    }
}

static struct upipe_mgr sink_mgr = {
    .refcount = NULL, .signature = 0, .upipe_input = sink_input, .upipe_control = sink_control,
};

/* ------------------------------------------------------------ environment */
static void env_setup(void)
{
    static const uint16_t depth[] = { 0, 0, 2, 8 };
    int pool = (int)((uint64_t)plan->cfg[CFG_POOL] % 4);
    sim_alloc_reset();
    static const char *const allow[] = { "uref_std_alloc_inner", "ubuf_block_mem_alloc_inner",
                                         "ubuf_mem_shared_alloc_inner", NULL };
    sim_alloc_set_allow_list(allow);
    umem = umem_sim_mgr_alloc(1 + (unsigned)((uint64_t)plan->cfg[CFG_UMEM_OFF] % 7));
    udict_mgr = udict_inline_mgr_alloc(depth[pool], umem, -1, -1);
    uref_mgr = uref_std_mgr_alloc(depth[pool], udict_mgr, 0);
    ubuf_mgr = ubuf_block_mem_mgr_alloc(depth[pool], depth[pool], umem, 0, 0, 0, 0);
    uprobe_init(&probe, catch, NULL);
    urefcount_init(&probe_refcount, noop_free);
    probe.refcount = &probe_refcount;
    upipe_init(&sink, &sink_mgr, uprobe_use(&probe));
    urefcount_init(&sink_refcount, noop_free);
    sink.refcount = &sink_refcount;
    ev_ready = ev_dead = 0;
    nau = npkt = nchunk = outpos = 0;
    out_overflow = fault_fired = false;
    payload_octets_in = 0;
    feeding_pkt = -1;
}

static void env_teardown(void)
{
    if (checking() && !urefcount_single(&sink_refcount))
        sim_violation(V_LEAK, "the sink is still referenced after every pipe was released");
    upipe_clean(&sink);
    uref_mgr_vacuum(uref_mgr);
    udict_mgr_vacuum(udict_mgr);
    ubuf_mgr_vacuum(ubuf_mgr);
    if (checking()) {
        if (!urefcount_single(&probe_refcount))
            sim_violation(V_LEAK, "the probe is still referenced after every pipe was released");
        else if (!urefcount_single(uref_mgr->refcount))
            sim_violation(V_LEAK, "a uref is still alive after every pipe was released");
        else if (!urefcount_single(ubuf_mgr->refcount))
            sim_violation(V_LEAK, "a buffer is still alive after every pipe was released");
        else if (umem_sim_live() != 0)
            sim_violation(V_LEAK, "%u memory area(s) left", umem_sim_live());
    }
    uref_mgr_release(uref_mgr);
    ubuf_mgr_release(ubuf_mgr);
    udict_mgr_release(udict_mgr);
    umem_mgr_release(umem);
    if (checking() && sim_alloc_live() != 0)
        sim_violation(V_LEAK, "%u allocation(s) left after releasing everything", sim_alloc_live());
}

static struct uref *make_buffer(const uint8_t *data, int len, uint64_t cutsel)
{
    int nseg = len >= 2 ? 1 + (int)(cutsel % 3) : 1;
    if (nseg > len) nseg = len ? len : 1;
    struct uref *uref = NULL;
    int pos = 0;
    for (int s = 0; s < nseg; s++) {
        int seglen = s == nseg - 1 ? len - pos :
            1 + (int)((cutsel >> (4 * s + 2)) % (uint64_t)(len - pos - (nseg - 1 - s)));
        struct ubuf *ubuf = ubuf_block_alloc(ubuf_mgr, seglen);
        if (ubuf == NULL) { if (uref) uref_free(uref); return NULL; }
        if (seglen) {
            int sz = -1;
            uint8_t *w;
            if (!ubase_check(ubuf_block_write(ubuf, 0, &sz, &w))) {
                ubuf_free(ubuf);
                if (uref) uref_free(uref);
                return NULL;
            }
            memcpy(w, data + pos, (size_t)seglen);
            ubuf_block_unmap(ubuf, 0);
        }
        if (uref == NULL) {
            uref = uref_alloc(uref_mgr);
            if (uref == NULL) { ubuf_free(ubuf); return NULL; }
            uref_attach_ubuf(uref, ubuf);
        } else if (!ubase_check(uref_block_append(uref, ubuf))) {
            ubuf_free(ubuf);
            uref_free(uref);
            return NULL;
        }
        pos += seglen;
    }
    if (nseg > 1)
        SIM_PROBE("ts_segmented_packet");
    return uref;
}

/* ----------------------------------------------------------------- decaps */
static void run_decaps(void)
{
    for (int i = 0; i < plan->nops; i++)
        if (plan->ops[i].code == OP_AU)
            build_au(&plan->ops[i]);
    if (nau == 0)
        return;
    packetise();

    struct upipe_mgr *mgr = upipe_ts_decaps_mgr_alloc();
    struct upipe *decaps = upipe_void_alloc(mgr, uprobe_use(&probe));
    upipe_mgr_release(mgr);
    mgr = upipe_ts_pesd_mgr_alloc();
    struct upipe *pesd = decaps ? upipe_void_alloc_output(decaps, mgr, uprobe_use(&probe)) : NULL;
    upipe_mgr_release(mgr);
    if (decaps == NULL || pesd == NULL) {
        sim_violation(V_CONTROL, "allocation of ts_decaps / ts_pes_decaps failed");
        return;
    }
    upipe_set_output(pesd, &sink);
    upipe_release(pesd);
    struct uref *fd = uref_block_flow_alloc_def(uref_mgr, "mpegts.mpegtspes.");
    int err = fd ? upipe_set_flow_def(decaps, fd) : UBASE_ERR_ALLOC;
    uref_free(fd);
    if (!ubase_check(err))
        sim_violation(V_CONTROL, "ts_decaps refuses block.mpegts.mpegtspes. (%d)", err);

    bool any_lost = false, any_corrupt = false;
    int release_at = plan->cfg[CFG_RELEASE_AT] > 0 ? (int)((uint64_t)plan->cfg[CFG_RELEASE_AT] % (uint64_t)(npkt + 1)) : npkt;
    int lost_run = 0;
    /* gap_after[i]: packet i is the first payload packet delivered after a gap */
    static bool gap_before[MAXPKT];
    memset(gap_before, 0, sizeof(gap_before));
    for (int i = 0; i < npkt && i < release_at && checking(); i++) {
        struct pkt *p = &pkts[i];
        feeding_pkt = i;
        if (p->lost && !p->af_only && i > 0 && lost_run < 14) {
            /* (a gap of 16 packets cannot be seen in a 4-bit counter) */
            any_lost = true;
            lost_run++;
            SIM_PROBE("fault_packet_lost");
            sim_ev("lost", (uint64_t)i, 0);
            if (i + 1 < npkt && pkts[i + 1].dup)
                pkts[i + 1].lost = true;        /* both copies */
            continue;
        }
        p->lost = false;
        if (lost_run && !p->af_only) {
            gap_before[i] = true;
            lost_run = 0;
        }
        uint8_t d[188];
        memcpy(d, p->d, 188);
        if (p->corrupt) {
            /* arbitrary damage, header and adaptation field included */
            uint64_t x = p->segsel * 0x9e3779b97f4a7c15ULL + (uint64_t)i;
            int k = 1 + (int)(x % 6);
            for (int j = 0; j < k; j++) {
                x = x * 6364136223846793005ULL + 1442695040888963407ULL;
                d[(x >> 20) % 188] = (uint8_t)(x >> 40);
            }
            d[0] = 0x47;
            any_corrupt = true;
            SIM_PROBE("fault_packet_corrupt");
        }
        struct uref *uref = make_buffer(d, 188, p->segsel);
        if (uref == NULL)
            break;
        if (!p->corrupt && !p->af_only && !p->dup)
            payload_octets_in += (unsigned)p->payload_len;
        else if (p->corrupt)
            payload_octets_in += 184;
        sim_ev("packet", (uint64_t)i, (uint64_t)p->pusi | (uint64_t)p->dup << 1 | (uint64_t)p->af_only << 2 | (uint64_t)p->corrupt << 3);
        if (p->fault && ((uint64_t)plan->cfg[CFG_FAULTS] & 1))
            sim_alloc_arm(p->fault);
        upipe_input(decaps, uref, NULL);
        if (sim_alloc_disarm() == 0 && p->fault && ((uint64_t)plan->cfg[CFG_FAULTS] & 1)) {
            fault_fired = true;
            SIM_PROBE("fault_alloc_in_input");
        }
    }
    if (release_at < npkt)
        SIM_PROBE("ts_released_in_mid_stream");
    upipe_release(decaps);
    if (checking() && (ev_ready != 2 || ev_dead != 2))
        sim_violation(V_LIFECYCLE, "2 pipes allocated, %u ready and %u dead events", ev_ready, ev_dead);
    if (!checking() || fault_fired || out_overflow)
        return;
    if ((unsigned)outpos > payload_octets_in) {
        sim_violation(V_OUT_OF_NOTHING, "%d octets came out, the packets carried %u payload octets", outpos, payload_octets_in);
        return;
    }
    if (any_corrupt) {
        SIM_PROBE("ts_run_with_corrupt_packets");
        return;         /* no crash, no leak, no octet out of nothing */
    }

    /* cut the output into units at start flags and at discontinuity flags */
    int first_chunk_checked = 0;
    for (int n = 0; n < nau; n++) {
        struct au *a = &aus[n];
        if (a->last_pkt >= release_at)
            break;
        bool touched = false;
        for (int i = a->first_pkt; i <= a->last_pkt; i++)
            touched = touched || pkts[i].lost;
        /* a gap right behind the unit glues foreign chunks to it only if the
         * next unit start was lost too; those come with a discontinuity flag
         * and therefore start a new segment */
        if (touched) {
            SIM_PROBE("ts_unit_touched_by_gap");
            continue;
        }
        /* find the segment that starts with this unit's first octet */
        int c = first_chunk_checked;
        while (c < nchunk && !(chunks[c].start && chunks[c].after_pkt >= a->first_pkt &&
                               chunks[c].after_pkt <= a->last_pkt))
            c++;
        if (c >= nchunk) {
            sim_violation(V_UNIT_LOST, "access unit %d (%d octets, packets %d-%d, none lost) never came out",
                          n, a->len, a->first_pkt, a->last_pkt);
            return;
        }
        int got = 0, cc = c;
        bool end_seen = false;
        while (cc < nchunk && (cc == c || (!chunks[cc].start && !chunks[cc].disc)) && chunks[cc].after_pkt <= a->last_pkt) {
            if (got + chunks[cc].len > a->len || memcmp(outbuf + chunks[cc].off, a->data + got, (size_t)chunks[cc].len)) {
                sim_violation(V_PAYLOAD, "access unit %d: chunk %d (%d octets at offset %d of %d) differs from what was carried",
                              n, cc - c, chunks[cc].len, got, a->len);
                return;
            }
            got += chunks[cc].len;
            if (end_seen && chunks[cc].len) {
                sim_violation(V_MARKER, "access unit %d: data after the chunk marked as the end of the PES packet", n);
                return;
            }
            end_seen = end_seen || chunks[cc].end;
            if (cc > c && chunks[cc].random) {
                sim_violation(V_MARKER, "access unit %d: random access marker on a chunk that is not its first", n);
                return;
            }
            cc++;
        }
        if (got != a->len) {
            sim_violation(V_PAYLOAD, "access unit %d: %d of %d octets recovered (packets %d-%d, none lost)", n, got, a->len,
                          a->first_pkt, a->last_pkt);
            return;
        }
        int hl = 9 + (a->ts_mode == 1 ? 5 : a->ts_mode == 2 ? 10 : 0) + a->hdr_stuffing;
        bool bounded = a->bounded && hl + a->len - 6 <= 0xffff;
        if (bounded != end_seen) {
            sim_violation(V_MARKER, "access unit %d: PES length %s, end marker %s", n, bounded ? "announced" : "unbounded",
                          end_seen ? "set" : "not set");
            return;
        }
        if (chunks[c].random != a->rai) {
            sim_violation(V_MARKER, "access unit %d: random access indicator %d in the stream, %d on the unit", n, a->rai,
                          chunks[c].random);
            return;
        }
        if ((a->ts_mode != 0) != chunks[c].has_dts) {
            sim_violation(V_TIMING, "access unit %d: timestamps %s in the PES header, %s on the unit", n,
                          a->ts_mode ? "present" : "absent", chunks[c].has_dts ? "present" : "absent");
            return;
        }
        if (a->ts_mode) {
            uint64_t want_dts = a->dts * (UCLOCK_FREQ / 90000);
            uint64_t want_delay = ((a->pts + 0x200000000ULL - a->dts) & 0x1ffffffffULL) * (UCLOCK_FREQ / 90000);
            if (chunks[c].dts_orig != want_dts || chunks[c].dts_pts_delay != want_delay) {
                sim_violation(V_TIMING, "access unit %d: DTS %" PRIu64 " / PTS-DTS %" PRIu64 " recovered, %" PRIu64 " / %" PRIu64
                              " carried (mode %d)", n, chunks[c].dts_orig, chunks[c].dts_pts_delay, want_dts, want_delay, a->ts_mode);
                return;
            }
        }
        first_chunk_checked = cc;
    }
    /* discontinuities: behind every gap (and possibly on the very first
     * payload packet), nowhere else. A chunk may carry the flags of packets
     * that were held back while a PES header was being collected. */
    /* the first thing that comes out may always be flagged (counter not
     * initialised yet) */
    bool first_payload = true, want = false, optional = true;
    int c = 0, want_pkt = -1;
    for (int i = 0; i < npkt && i < release_at; i++) {
        if (pkts[i].lost || pkts[i].af_only || pkts[i].dup)
            continue;
        if (gap_before[i]) {
            want = true;
            want_pkt = i;
        }
        first_payload = false;
        while (c < nchunk && chunks[c].after_pkt < i)
            c++;
        bool seen = false, any = false;
        for (int k = c; k < nchunk && chunks[k].after_pkt == i; k++) {
            any = true;
            seen = seen || chunks[k].disc;
        }
        if (!any)
            continue;           /* held back: the PES header is still being collected */
        /* (while pes_decaps waits for its first unit start it drops what
         * ts_decaps flagged: nothing was delivered that the gap could separate) */
        if (want && !seen) {
            sim_violation(V_DISCONTINUITY, "packets were lost right before packet %d, what came out next (with packet %d) "
                          "is not flagged as a discontinuity", want_pkt, i);
            return;
        }
        if (!want && !optional && seen) {
            sim_violation(V_DISCONTINUITY, "output of packet %d is flagged as a discontinuity, no packet was lost before it", i);
            return;
        }
        want = optional = false;
    }
}

/* ----------------------------------------------------------------- engine */
static void gen(const char *pr, struct sim_rng *r, struct sim_plan *p)
{
    p->cfg[CFG_PROP] = atoi(pr + 1);
    p->cfg[CFG_KIND] = 0;
    p->cfg[CFG_POOL] = sim_rng_below(r, 4);
    p->cfg[CFG_UMEM_OFF] = sim_rng_below(r, 7);
    p->cfg[CFG_FAULTS] = sim_rng_chance(r, 1, 5);
    p->cfg[CFG_PID] = sim_rng_below(r, 8000);
    p->cfg[CFG_CC0] = sim_rng_below(r, 16);
    p->cfg[CFG_RELEASE_AT] = sim_rng_chance(r, 1, 6) ? 1 + sim_rng_below(r, 60) : 0;
    int n = 1 + (int)sim_rng_below(r, 8);
    for (int i = 0; i < n; i++)
        sim_plan_add(p, 0, OP_AU, sim_rng_below(r, 6), sim_rng_below(r, 100000), sim_rng_below(r, 3) | (sim_rng_chance(r, 1, 10) ? 16 : 0),
                     sim_rng_below(r, 5), sim_rng_below(r, 400), sim_rng_below(r, 4));
    int style = (int)sim_rng_below(r, 3);       /* 0 plain, 1 adaptation fields everywhere, 2 mixed */
    int damage = (int)sim_rng_below(r, 4);      /* 0,3 none; 1 loss; 2 loss + corruption */
    int np = 4 + (int)sim_rng_below(r, 80);
    for (int i = 0; i < np; i++) {
        uint32_t wish = style == 0 ? 0 : style == 1 ? sim_rng_below(r, 190) : sim_rng_chance(r, 1, 3) ? sim_rng_below(r, 190) : 0;
        uint32_t flags = (sim_rng_chance(r, 1, 8) ? 1 : 0) | (sim_rng_chance(r, 1, 10) ? 2 : 0) | (sim_rng_chance(r, 1, 12) ? 4 : 0);
        uint32_t dmg = 0;
        if (damage == 1 && sim_rng_chance(r, 1, 10)) dmg = 1;
        else if (damage == 2 && sim_rng_chance(r, 1, 10)) dmg = 1 + sim_rng_below(r, 2);
        sim_plan_add(p, 0, OP_PKT, wish, flags, (int64_t)(sim_rng_next(r) >> 20), dmg, 0,
                     p->cfg[CFG_FAULTS] && sim_rng_chance(r, 1, 6) ? 1 + sim_rng_below(r, 5) : 0);
    }
}

static void run(const char *pr, const struct sim_plan *pl)
{
    plan = pl;
    env_setup();
    run_decaps();
    env_teardown();
    sim_mark_nontrivial();
    sim_sig_add(1, sim_mix((uint64_t)nau, sim_mix((uint64_t)npkt, (uint64_t)nchunk)));
}

static const char *const props[] = { "C15", NULL };
const struct sim_engine sim_engine = {
    .name = "etspes", .props = props, .gen = gen, .run = run,
    .class_name = class_name, .op_name = op_name,
};

int main(int argc, char **argv) { return sim_main(argc, argv); }
