/* C10: attribute dictionaries are typed key-value maps (udict_inline) */
#define _GNU_SOURCE
#include "../sim/sim.h"
#include "../sim/alloc.h"
#include "ebuf.h"

#include <upipe/ubase.h>
#include <upipe/umem.h>
#include <upipe/udict.h>
#include <upipe/udict_inline.h>

#include <stdlib.h>
#include <string.h>
#include <math.h>

enum { D_ALLOC = 100, D_SET, D_DELETE, D_GET, D_DUP, D_IMPORT, D_COPY, D_CMP,
       D_ITER, D_FREE, D_SET_ALIAS, D__LAST };

const char *dict_op_name(int code)
{
    static const char *n[] = { "dict_alloc", "set", "delete", "get", "dict_dup", "import",
                               "dict_copy", "cmp", "iterate", "dict_free", "set_alias" };
    return code >= D_ALLOC && code < D__LAST ? n[code - D_ALLOC] : "?";
}

/* key space: names that are prefixes of one another x base types, and a few
 * shorthands of every base type */
static const char *const names[] = { "a", "ab", "abc", "b", "x.y", "x.yz", "name" };
#define NNAMES 7
static const struct { enum udict_type type, base; } shorts[] = {
    { UDICT_TYPE_FLOW_DEF, UDICT_TYPE_STRING }, { UDICT_TYPE_FLOW_ID, UDICT_TYPE_UNSIGNED },
    { UDICT_TYPE_CLOCK_RATE, UDICT_TYPE_RATIONAL }, { UDICT_TYPE_PIC_KEY, UDICT_TYPE_VOID },
    { UDICT_TYPE_PIC_OVERSCAN, UDICT_TYPE_BOOL }, { UDICT_TYPE_PIC_AFD, UDICT_TYPE_SMALL_UNSIGNED },
    { UDICT_TYPE_PIC_CEA_708, UDICT_TYPE_OPAQUE }, { UDICT_TYPE_FLOW_RAWDEF, UDICT_TYPE_STRING },
    { UDICT_TYPE_PIC_BAR_DATA, UDICT_TYPE_OPAQUE }, { UDICT_TYPE_CLOCK_DURATION, UDICT_TYPE_UNSIGNED },
};
#define NSHORTS 10
#define NKEYS (NNAMES * 10 + NSHORTS)

struct key { const char *name; enum udict_type type, base; };

static struct key key_of(int k)
{
    struct key key;
    k %= NKEYS;
    if (k < NNAMES * 10) {
        key.name = names[k / 10];
        key.type = key.base = (enum udict_type)(1 + k % 10);
    } else {
        key.name = NULL;
        key.type = shorts[k - NNAMES * 10].type;
        key.base = shorts[k - NNAMES * 10].base;
    }
    return key;
}

#define ND 4
#define MAXV 66000
struct ment { bool present; uint32_t len; uint8_t *v; };
struct mdict { bool live; struct udict *d; struct ment e[NKEYS]; };
static struct mdict md[ND];
static struct udict_mgr *dmgr;
static struct umem_mgr *dumem;
static uint8_t vpat;

static void ment_set(struct ment *e, const uint8_t *v, uint32_t len)
{
    free(e->v);
    e->v = malloc(len ? len : 1);
    if (len)
        memcpy(e->v, v, len);
    e->len = len;
    e->present = true;
}

static void ment_clear(struct ment *e)
{
    free(e->v);
    e->v = NULL;
    e->present = false;
    e->len = 0;
}

static void mdict_clear(struct mdict *m)
{
    for (int k = 0; k < NKEYS; k++)
        ment_clear(&m->e[k]);
}

static void mdict_copy(struct mdict *dst, const struct mdict *src)
{
    mdict_clear(dst);
    for (int k = 0; k < NKEYS; k++)
        if (src->e[k].present)
            ment_set(&dst->e[k], src->e[k].v, src->e[k].len);
}

/* canonical value bytes for a base type, from a selector */
static uint32_t make_value(enum udict_type base, uint64_t sel, uint8_t *out)
{
    switch (base) {
    case UDICT_TYPE_OPAQUE: {
        static const uint32_t sizes[] = { 0, 1, 2, 3, 8, 17, 64, 200, 1000, 5000, 30000, 65000 };
        uint32_t len = sizes[sel % 12];
        if (sel % 12 >= 9 && sel / 12 % 8 != 0)
            len = sizes[sel / 12 % 9];       /* huge values are rare */
        for (uint32_t i = 0; i < len; i++)
            out[i] = vpat = (uint8_t)(vpat * 13 + 7 + (uint8_t)sel);
        return len;
    }
    case UDICT_TYPE_STRING: {
        static const uint32_t sizes[] = { 0, 1, 2, 5, 16, 63, 300, 4000 };
        uint32_t len = sizes[sel % 8];
        for (uint32_t i = 0; i < len; i++)
            out[i] = (uint8_t)('a' + (vpat = (uint8_t)(vpat * 13 + 7 + (uint8_t)sel)) % 26);
        out[len] = '\0';
        return len + 1;
    }
    case UDICT_TYPE_VOID: return 0;
    case UDICT_TYPE_BOOL: out[0] = sel & 1; return 1;
    case UDICT_TYPE_SMALL_UNSIGNED: out[0] = (uint8_t)(sel * 37); return 1;
    case UDICT_TYPE_SMALL_INT: out[0] = (uint8_t)(sel * 41); return 1;
    case UDICT_TYPE_UNSIGNED:
    case UDICT_TYPE_INT:
    case UDICT_TYPE_FLOAT: {
        uint64_t v = sel % 5 == 0 ? UINT64_MAX : sel % 5 == 1 ? 0 : sim_mix(sel, 77);
        if (base == UDICT_TYPE_FLOAT) {
            double d = (double)(int64_t)(v >> 20) / 1024.0;
            memcpy(out, &d, 8);
        } else
            memcpy(out, &v, 8);
        return 8;
    }
    case UDICT_TYPE_RATIONAL: {
        int64_t num = (int64_t)sim_mix(sel, 5);
        uint64_t den = sim_mix(sel, 6) | 1;
        memcpy(out, &num, 8);
        memcpy(out + 8, &den, 8);
        return 16;
    }
    default: return 0;
    }
}

/* typed set through the public setters; value in canonical bytes */
static int typed_set(struct udict *d, struct key key, const uint8_t *v, uint32_t len)
{
    switch (key.base) {
    case UDICT_TYPE_OPAQUE: {
        struct udict_opaque o = { v, len };
        return udict_set_opaque(d, o, key.type, key.name);
    }
    case UDICT_TYPE_STRING: return udict_set_string(d, (const char *)v, key.type, key.name);
    case UDICT_TYPE_VOID: return udict_set_void(d, NULL, key.type, key.name);
    case UDICT_TYPE_BOOL: return udict_set_bool(d, v[0], key.type, key.name);
    case UDICT_TYPE_SMALL_UNSIGNED: return udict_set_small_unsigned(d, v[0], key.type, key.name);
    case UDICT_TYPE_SMALL_INT: return udict_set_small_int(d, (int8_t)v[0], key.type, key.name);
    case UDICT_TYPE_UNSIGNED: { uint64_t x; memcpy(&x, v, 8); return udict_set_unsigned(d, x, key.type, key.name); }
    case UDICT_TYPE_INT: { int64_t x; memcpy(&x, v, 8); return udict_set_int(d, (uint64_t)x, key.type, key.name); }
    case UDICT_TYPE_FLOAT: { double x; memcpy(&x, v, 8); return udict_set_float(d, x, key.type, key.name); }
    case UDICT_TYPE_RATIONAL: {
        struct urational r;
        memcpy(&r.num, v, 8);
        memcpy(&r.den, v + 8, 8);
        return udict_set_rational(d, r, key.type, key.name);
    }
    default: return UBASE_ERR_INVALID;
    }
}

/* typed get; returns canonical bytes in out */
static int typed_get(struct udict *d, struct key key, uint8_t *out, uint32_t *len)
{
    int ret;
    switch (key.base) {
    case UDICT_TYPE_OPAQUE: {
        struct udict_opaque o = { NULL, 0 };
        ret = udict_get_opaque(d, &o, key.type, key.name);
        if (ubase_check(ret)) {
            if (o.size > MAXV) return UBASE_ERR_INVALID;
            if (o.size) memcpy(out, o.v, o.size);
            *len = (uint32_t)o.size;
        }
        return ret;
    }
    case UDICT_TYPE_STRING: {
        const char *s = NULL;
        ret = udict_get_string(d, &s, key.type, key.name);
        if (ubase_check(ret)) {
            *len = (uint32_t)strlen(s) + 1;
            memcpy(out, s, *len);
        }
        return ret;
    }
    case UDICT_TYPE_VOID: *len = 0; return udict_get_void(d, NULL, key.type, key.name);
    case UDICT_TYPE_BOOL: { bool b = false; ret = udict_get_bool(d, &b, key.type, key.name); out[0] = b; *len = 1; return ret; }
    case UDICT_TYPE_SMALL_UNSIGNED: { uint8_t x = 0; ret = udict_get_small_unsigned(d, &x, key.type, key.name); out[0] = x; *len = 1; return ret; }
    case UDICT_TYPE_SMALL_INT: { int8_t x = 0; ret = udict_get_small_int(d, &x, key.type, key.name); out[0] = (uint8_t)x; *len = 1; return ret; }
    case UDICT_TYPE_UNSIGNED: { uint64_t x = 0; ret = udict_get_unsigned(d, &x, key.type, key.name); memcpy(out, &x, 8); *len = 8; return ret; }
    case UDICT_TYPE_INT: { int64_t x = 0; ret = udict_get_int(d, &x, key.type, key.name); memcpy(out, &x, 8); *len = 8; return ret; }
    case UDICT_TYPE_FLOAT: { double x = 0; ret = udict_get_float(d, &x, key.type, key.name); memcpy(out, &x, 8); *len = 8; return ret; }
    case UDICT_TYPE_RATIONAL: {
        struct urational r = { 0, 0 };
        ret = udict_get_rational(d, &r, key.type, key.name);
        memcpy(out, &r.num, 8);
        memcpy(out + 8, &r.den, 8);
        *len = 16;
        return ret;
    }
    default: return UBASE_ERR_INVALID;
    }
}

static uint8_t vbuf[MAXV + 16], gbuf[MAXV + 16];

static void check_key(int di, int k, const char *after)
{
    struct mdict *m = &md[di];
    struct key key = key_of(k);
    uint32_t len = 0;
    int ret = typed_get(m->d, key, gbuf, &len);
    if (!m->e[k].present) {
        if (ubase_check(ret))
            sim_violation(V_DICT_LOOKUP, "dict %d after %s: key %d (%s/type %d) found but never set or deleted",
                          di, after, k, key.name ? key.name : "shorthand", key.type);
        return;
    }
    if (!ubase_check(ret)) {
        sim_violation(V_DICT_LOOKUP, "dict %d after %s: key %d (%s/type %d) reported absent, %u octet(s) were stored",
                      di, after, k, key.name ? key.name : "shorthand", key.type, m->e[k].len);
        return;
    }
    if (len != m->e[k].len || (len && memcmp(gbuf, m->e[k].v, len)))
        sim_violation(V_DICT_LOOKUP, "dict %d after %s: key %d (%s/type %d) returns a value that is not the last stored "
                      "(size %u, stored %u)", di, after, k, key.name ? key.name : "shorthand", key.type, len, m->e[k].len);
}

static void check_dict(int di, const char *after)
{
    struct mdict *m = &md[di];
    if (!m->live)
        return;
    for (int k = 0; k < NKEYS && !sim_violation_class(); k++)
        check_key(di, k, after);
    /* iteration visits each present attribute exactly once */
    int seen[NKEYS];
    memset(seen, 0, sizeof(seen));
    const char *name = NULL;
    enum udict_type type = UDICT_TYPE_END;
    int visited = 0, present = 0;
    for (int guard = 0; guard < 4 * NKEYS && !sim_violation_class(); guard++) {
        udict_iterate(m->d, &name, &type);
        if (type == UDICT_TYPE_END)
            break;
        int k;
        for (k = 0; k < NKEYS; k++) {
            struct key key = key_of(k);
            if (key.type == type && ((key.name == NULL && name == NULL) ||
                                     (key.name && name && !strcmp(key.name, name))))
                break;
        }
        if (k == NKEYS) {
            sim_violation(V_DICT_ITER, "dict %d after %s: iteration visits an attribute that was never stored "
                          "(type %d name %s)", di, after, type, name ? name : "-");
            return;
        }
        if (seen[k]++)
            sim_violation(V_DICT_ITER, "dict %d after %s: iteration visits key %d twice", di, after, k);
        else if (!m->e[k].present)
            sim_violation(V_DICT_ITER, "dict %d after %s: iteration visits deleted key %d", di, after, k);
        visited++;
    }
    for (int k = 0; k < NKEYS; k++)
        present += m->e[k].present;
    if (!sim_violation_class() && visited != present)
        sim_violation(V_DICT_ITER, "dict %d after %s: iteration visited %d attribute(s), %d are present",
                      di, after, visited, present);
}

static void check_all_dicts(const char *after)
{
    for (int i = 0; i < ND && !sim_violation_class(); i++)
        check_dict(i, after);
}

static bool models_equal(const struct mdict *a, const struct mdict *b)
{
    for (int k = 0; k < NKEYS; k++) {
        if (a->e[k].present != b->e[k].present)
            return false;
        if (a->e[k].present && (a->e[k].len != b->e[k].len ||
                                (a->e[k].len && memcmp(a->e[k].v, b->e[k].v, a->e[k].len))))
            return false;
    }
    return true;
}

static int dfree_slot(int want)
{
    for (int i = 0; i < ND; i++)
        if (!md[(want + i) % ND].live)
            return (want + i) % ND;
    return -1;
}

void gen_dict(struct sim_rng *r, struct sim_plan *p)
{
    static const int depths[] = { 0, 0, 1, 4 };
    p->cfg[CFG_DICT_POOL] = depths[sim_rng_below(r, 4)];
    static const int mins[] = { 0, 1, 8, 64 };
    p->cfg[CFG_DICT_MIN] = mins[sim_rng_below(r, 4)];
    static const int extras[] = { 0, 1, 16, 64 };
    p->cfg[CFG_DICT_EXTRA] = extras[sim_rng_below(r, 4)];
    p->cfg[CFG_SUBOFFSET] = sim_rng_below(r, 16);
    bool faults = sim_rng_chance(r, 1, 2);
    p->cfg[CFG_FAULTS] = faults;
    sim_plan_add(p, 0, D_ALLOC, 0, sim_rng_below(r, 70), 0, 0, 0, 0);
    int n = 8 + (int)sim_rng_below(r, 40);
    /* a run concentrates on a few keys so that overwrite / delete / growth
     * of the same attribute happen */
    int hot[6];
    for (int i = 0; i < 6; i++)
        hot[i] = (int)sim_rng_below(r, NKEYS);
    for (int i = 0; i < n; i++) {
        int d = (int)sim_rng_below(r, ND), g = (int)sim_rng_below(r, ND);
        int k = sim_rng_chance(r, 3, 4) ? hot[sim_rng_below(r, 6)] : (int)sim_rng_below(r, NKEYS);
        int64_t f = faults && sim_rng_chance(r, 1, 5) ? 1 + sim_rng_below(r, 2) : 0;
        uint32_t c = sim_rng_below(r, 100);
        if (c < 6) sim_plan_add(p, 0, D_ALLOC, d, sim_rng_below(r, 70), 0, 0, 0, f);
        else if (c < 50) sim_plan_add(p, 0, D_SET, d, k, sim_rng_below(r, 100000), 0, 0, f);
        else if (c < 62) sim_plan_add(p, 0, D_DELETE, d, k, 0, 0, 0, 0);
        else if (c < 68) sim_plan_add(p, 0, D_GET, d, k, 0, 0, 0, 0);
        else if (c < 75) sim_plan_add(p, 0, D_DUP, d, g, 0, 0, 0, f);
        else if (c < 81) sim_plan_add(p, 0, D_IMPORT, d, g, 0, 0, 0, f);
        else if (c < 85) sim_plan_add(p, 0, D_COPY, d, g, 0, 0, 0, f);
        else if (c < 90) sim_plan_add(p, 0, D_CMP, d, g, 0, 0, 0, 0);
        else if (c < 93) sim_plan_add(p, 0, D_ITER, d, 0, 0, 0, 0, 0);
        else if (c < 96) sim_plan_add(p, 0, D_FREE, d, 0, 0, 0, 0, 0);
        else sim_plan_add(p, 0, D_SET_ALIAS, d, k, sim_rng_below(r, NKEYS), 0, 0, f);
    }
}

void run_dict(const struct sim_plan *plan)
{
    for (int i = 0; i < ND; i++) {
        md[i].live = false;
        md[i].d = NULL;
        mdict_clear(&md[i]);
    }
    vpat = (uint8_t)plan->seed;
    sim_alloc_reset();
    static const char *const allow[] = { NULL };     /* structures never fail here */
    sim_alloc_set_allow_list(allow);
    dumem = umem_sim_mgr_alloc((unsigned)((uint64_t)plan->cfg[CFG_SUBOFFSET] % 16));
    dmgr = udict_inline_mgr_alloc((uint16_t)((uint64_t)plan->cfg[CFG_DICT_POOL] % 9), dumem,
                                  (int)((uint64_t)plan->cfg[CFG_DICT_MIN] % 129),
                                  (int)((uint64_t)plan->cfg[CFG_DICT_EXTRA] % 129));
    for (int i = 0; i < plan->nops && !sim_violation_class(); i++) {
        const struct sim_op *op = &plan->ops[i];
        int di = (int)((uint64_t)op->a[0] % ND);
        struct mdict *m = &md[di];
        int k = (int)((uint64_t)op->a[1] % NKEYS);
        int gi = (int)((uint64_t)op->a[1] % ND);
        unsigned failed0 = sim_alloc_failed();
        sim_ev(dict_op_name(op->code), (uint64_t)op->a[0], (uint64_t)op->a[1]);
        switch (op->code) {
        case D_ALLOC: {
            int s = dfree_slot(di);
            if (s < 0) break;
            if (op->a[5] > 0) sim_alloc_arm((int)op->a[5]);
            struct udict *d = udict_alloc(dmgr, (size_t)((uint64_t)op->a[1] % 70));
            sim_alloc_disarm();
            if (d == NULL) {
                if (sim_alloc_failed() == failed0)
                    sim_violation(V_DICT_ERROR, "udict_alloc failed");
                break;
            }
            md[s].live = true;
            md[s].d = d;
            mdict_clear(&md[s]);
            check_dict(s, "alloc");
            break;
        }
        case D_SET:
        case D_SET_ALIAS: {
            if (!m->live) break;
            struct key key = key_of(k);
            uint32_t len;
            const uint8_t *src = vbuf;
            bool alias = false;
            if (op->code == D_SET_ALIAS && (key.base == UDICT_TYPE_OPAQUE || key.base == UDICT_TYPE_STRING)) {
                /* the source of the value is the dictionary's own storage */
                int k2 = (int)((uint64_t)op->a[2] % NKEYS);
                struct key key2 = key_of(k2);
                if (key2.base != key.base || !m->e[k2].present) break;
                size_t sz;
                const uint8_t *p;
                if (!ubase_check(udict_get(m->d, key2.name, key2.type, &sz, &p))) break;
                src = p;
                len = (uint32_t)sz;
                memcpy(vbuf, p, sz);
                alias = true;
                SIM_PROBE("dict_set_from_own_storage");
            } else
                len = make_value(key.base, (uint64_t)op->a[2], vbuf);
            if (op->a[5] > 0) sim_alloc_arm((int)op->a[5]);
            int ret = typed_set(m->d, key, src, len);
            sim_alloc_disarm();
            bool fired = sim_alloc_failed() != failed0;
            if (!ubase_check(ret)) {
                if (!fired) {
                    sim_violation(V_DICT_ERROR, "set of key %d (%u octets) refused with error %d", k, len, ret);
                    break;
                }
                SIM_PROBE("dict_set_failed_by_fault");
                /* deliberate, narrow relaxation: the key concerned may hold
                 * its previous value or be absent, nothing else changes */
                uint32_t l2 = 0;
                if (!ubase_check(typed_get(m->d, key, gbuf, &l2))) {
                    if (m->e[k].present)
                        SIM_PROBE("dict_failed_set_lost_previous_value");
                    ment_clear(&m->e[k]);
                }
                check_all_dicts("set(failed)");
                break;
            }
            (void)alias;
            if (m->e[k].present)
                SIM_PROBE("dict_overwrite");
            ment_set(&m->e[k], vbuf, len);
            check_all_dicts("set");
            break;
        }
        case D_DELETE: {
            if (!m->live) break;
            struct key key = key_of(k);
            int ret = udict_delete(m->d, key.type, key.name);
            if (m->e[k].present != ubase_check(ret))
                sim_violation(V_DICT_ERROR, "delete of %s key %d returned %d",
                              m->e[k].present ? "present" : "absent", k, ret);
            ment_clear(&m->e[k]);
            check_all_dicts("delete");
            break;
        }
        case D_GET:
            if (m->live) check_key(di, k, "get");
            break;
        case D_ITER:
            if (m->live) check_dict(di, "iterate");
            break;
        case D_DUP: {
            if (!m->live) break;
            int s = dfree_slot(gi);
            if (s < 0) break;
            if (op->a[5] > 0) sim_alloc_arm((int)op->a[5]);
            struct udict *d = udict_dup(m->d);
            sim_alloc_disarm();
            if (d == NULL) {
                if (sim_alloc_failed() == failed0)
                    sim_violation(V_DICT_ERROR, "udict_dup failed");
                check_all_dicts("dup(failed)");
                break;
            }
            md[s].live = true;
            md[s].d = d;
            mdict_copy(&md[s], m);
            check_all_dicts("dup");
            break;
        }
        case D_COPY: {
            if (!m->live) break;
            int s = dfree_slot(gi);
            if (s < 0) break;
            if (op->a[5] > 0) sim_alloc_arm((int)op->a[5]);
            struct udict *d = udict_copy(dmgr, m->d);
            sim_alloc_disarm();
            if (d == NULL) {
                if (sim_alloc_failed() == failed0)
                    sim_violation(V_DICT_ERROR, "udict_copy failed");
                check_all_dicts("copy(failed)");
                break;
            }
            md[s].live = true;
            md[s].d = d;
            mdict_copy(&md[s], m);
            check_all_dicts("copy");
            break;
        }
        case D_IMPORT: {
            struct mdict *src = &md[gi];
            if (!m->live || !src->live || gi == di) break;
            if (op->a[5] > 0) sim_alloc_arm((int)op->a[5]);
            int ret = udict_import(m->d, src->d);
            sim_alloc_disarm();
            bool fired = sim_alloc_failed() != failed0;
            if (!ubase_check(ret)) {
                if (!fired) {
                    sim_violation(V_DICT_ERROR, "import refused with error %d", ret);
                    break;
                }
                /* import stopped half-way: every key of the target holds its
                 * old value, the source's value, or (for the one that failed)
                 * nothing; adopt what can be read, then insist on stability */
                for (int kk = 0; kk < NKEYS; kk++) {
                    struct key key = key_of(kk);
                    uint32_t l2 = 0;
                    bool got = ubase_check(typed_get(m->d, key, gbuf, &l2));
                    bool is_old = m->e[kk].present && got && l2 == m->e[kk].len &&
                                  (!l2 || !memcmp(gbuf, m->e[kk].v, l2));
                    bool is_src = src->e[kk].present && got && l2 == src->e[kk].len &&
                                  (!l2 || !memcmp(gbuf, src->e[kk].v, l2));
                    if (got && !is_old && !is_src) {
                        sim_violation(V_FAULT_CHANGED, "failed import left key %d with a value that was never stored", kk);
                        break;
                    }
                    if (!got && m->e[kk].present && !src->e[kk].present) {
                        sim_violation(V_FAULT_CHANGED, "failed import removed unrelated key %d", kk);
                        break;
                    }
                    if (got) ment_set(&m->e[kk], gbuf, l2);
                    else ment_clear(&m->e[kk]);
                }
                check_all_dicts("import(failed)");
                break;
            }
            for (int kk = 0; kk < NKEYS; kk++)
                if (src->e[kk].present)
                    ment_set(&m->e[kk], src->e[kk].v, src->e[kk].len);
            check_all_dicts("import");
            break;
        }
        case D_CMP: {
            struct mdict *o = &md[gi];
            if (!m->live || !o->live) break;
            bool eq = models_equal(m, o);
            int c = udict_cmp(m->d, o->d);
            if (eq != (c == 0))
                sim_violation(V_DICT_CMP, "cmp(dict %d, dict %d) = %d, the maps are %s", di, gi, c,
                              eq ? "equal" : "different");
            break;
        }
        case D_FREE:
            if (!m->live) break;
            udict_free(m->d);
            m->live = false;
            m->d = NULL;
            mdict_clear(m);
            check_all_dicts("free");
            break;
        }
        uint64_t hsh = 5;
        for (int d = 0; d < ND; d++) {
            int cnt = 0;
            if (md[d].live)
                for (int kk = 0; kk < NKEYS; kk++)
                    cnt += md[d].e[kk].present;
            hsh = sim_mix(hsh, md[d].live ? (uint64_t)cnt : 99);
        }
        sim_sig_add(1, hsh);
    }
    bool clean = !sim_violation_class();
    for (int i = 0; i < ND; i++) {
        if (md[i].live && clean)
            udict_free(md[i].d);
        md[i].live = false;
        mdict_clear(&md[i]);
    }
    if (clean) {
        udict_mgr_vacuum(dmgr);
        if (umem_sim_live() != 0)
            sim_violation(V_LEAK, "%u dictionary storage area(s) left", umem_sim_live());
    }
    udict_mgr_release(dmgr);
    umem_mgr_release(dumem);
    if (clean && !sim_violation_class() && sim_alloc_live() != 0)
        sim_violation(V_LEAK, "%u structure(s) left after releasing the dictionary manager", sim_alloc_live());
    sim_mark_nontrivial();
}
