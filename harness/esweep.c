/*
 * E-sweep: the generic lifecycle clauses of C01 and C04 over every
 * single-input, single-output pipe of lib/upipe-modules that can be allocated
 * without a device, a file or a network: ready first, dead exactly once and
 * last, nothing to the output after dead, no data to an output that has not
 * accepted a flow definition, everything freed once the application let go -
 * under seeded histories (flow definitions accepted and refused, buffers with
 * and without dates, loop runs, clock jumps, flush, re-plumbing, release at
 * any point) and allocation failures.
 *
 * No per-pipe reference model here (that is E-pipe's job for its catalogue):
 * the oracles are the model-free ones, which is why so many pipe types fit.
 */
#include "../sim/sim.h"
#include "../sim/alloc.h"
#include "../sim/upump_sim.h"

#include <upipe/ubase.h>
#include <upipe/umem.h>
#include <upipe/udict.h>
#include <upipe/udict_inline.h>
#include <upipe/uref.h>
#include <upipe/uref_std.h>
#include <upipe/uref_attr.h>
#include <upipe/uref_flow.h>
#include <upipe/uref_block.h>
#include <upipe/uref_block_flow.h>
#include <upipe/uref_clock.h>
#include <upipe/ubuf.h>
#include <upipe/ubuf_block_mem.h>
#include <upipe/uclock.h>
#include <upipe/uprobe.h>
#include <upipe/uprobe_upump_mgr.h>
#include <upipe/uprobe_uref_mgr.h>
#include <upipe/uprobe_ubuf_mem.h>
#include <upipe/uprobe_ubuf_mem_pool.h>
#include <upipe/uprobe_uclock.h>
#include <upipe/upipe.h>
#include <upipe/urequest.h>
#include <upipe/upump.h>
#include <upipe/upump_blocker.h>
#include <upipe/ueventfd.h>
#include <upipe-modules/upipe_buffer.h>
#include <upipe-modules/upipe_burst.h>
#include <upipe-modules/upipe_convert_to_block.h>
#include <upipe-modules/upipe_dejitter.h>
#include <upipe-modules/upipe_delay.h>
#include <upipe-modules/upipe_discard_blocking.h>
#include <upipe-modules/upipe_dump.h>
#include <upipe-modules/upipe_genaux.h>
#include <upipe-modules/upipe_htons.h>
#include <upipe-modules/upipe_idem.h>
#include <upipe-modules/upipe_match_attr.h>
#include <upipe-modules/upipe_multicat_probe.h>
#include <upipe-modules/upipe_noclock.h>
#include <upipe-modules/upipe_nodemux.h>
#include <upipe-modules/upipe_null.h>
#include <upipe-modules/upipe_probe_uref.h>
#include <upipe-modules/upipe_rate_limit.h>
#include <upipe-modules/upipe_setattr.h>
#include <upipe-modules/upipe_setflowdef.h>
#include <upipe-modules/upipe_setrap.h>
#include <upipe-modules/upipe_skip.h>
#include <upipe-modules/upipe_time_limit.h>
#include <upipe-modules/upipe_dtsdi.h>
#include <upipe-modules/upipe_ntsc_prepend.h>
#include <upipe-modules/upipe_aggregate.h>
#include <upipe-modules/upipe_chunk_stream.h>
#include <upipe-modules/upipe_m3u_reader.h>
#include <upipe-modules/upipe_rtp_h264.h>
#include <upipe-modules/upipe_rtp_mpeg4.h>
#include <upipe-modules/upipe_audio_blank.h>
#include <upipe-modules/upipe_audio_copy.h>
#include <upipe-modules/upipe_block_to_sound.h>
#include <upipe-modules/upipe_crop.h>
#include <upipe-modules/upipe_rtp_pcm_pack.h>
#include <upipe-modules/upipe_rtp_pcm_unpack.h>
#include <upipe-modules/upipe_separate_fields.h>
#include <upipe-modules/upipe_video_blank.h>
#include <upipe-modules/upipe_row_join.h>
#include <upipe-modules/upipe_row_split.h>
#include <upipe-modules/upipe_void_source.h>
#include <upipe-modules/upipe_sine_wave_source.h>
#include <upipe-filters/upipe_audio_bar.h>
#include <upipe-filters/upipe_audio_graph.h>
#include <upipe-filters/upipe_audio_max.h>
#include <upipe-filters/upipe_filter_blend.h>
#include <upipe-filters/upipe_zoneplate.h>
#include <upipe-filters/upipe_zoneplate_source.h>
#include <upipe-filters/upipe_filter_format.h>
#include <upipe-modules/upipe_blank_source.h>
#include <upipe-ts/upipe_ts_align.h>
#include <upipe-ts/upipe_ts_metadata_generator.h>
#include <upipe-ts/upipe_ts_pcr_interpolator.h>
#include <upipe-ts/upipe_ts_pid_filter.h>
#include <upipe-ts/upipe_ts_tstd.h>
#include <upipe-v210/upipe_v210enc.h>
#include <upipe-hls/upipe_hls_buffer.h>
#include <upipe/uref_pic.h>
#include <upipe/uref_pic_flow.h>
#include <upipe/uref_sound.h>
#include <upipe/uref_sound_flow.h>
#include <upipe/uref_void_flow.h>
#include <upipe/ubuf_pic_mem.h>
#include <upipe/ubuf_sound_mem.h>

#include <stdlib.h>
#include <string.h>
#include <inttypes.h>
#include <setjmp.h>

enum {
    V_READY_ORDER = 1,      /* an event before ready */
    V_DEAD,                 /* dead thrown twice / not thrown */
    V_AFTER_DEAD,           /* event, data or flow definition after dead */
    V_NO_FLOW_DEF,          /* data to an output that accepted no flow definition */
    V_LEAK,
    V_REFCOUNT,
    V_CONTROL,
    V_DEAD_EARLY,           /* destroyed while the application still holds its reference */
    V_ORDER,                /* a buffer came out twice or out of order */
    V_PAYLOAD,              /* a pass-through pipe changed the payload */
    V_LOST,                 /* an immediate pass-through pipe swallowed a buffer */
    V_GETTER,               /* a getter does not report what the setter stored */
    V_INCOMPLETE,           /* a pipe that never drops kept or dropped a buffer although everything ran dry */
    V_SRC_BLOCKED,          /* the source pump is still blocked after everything was delivered */
    V_TWIN_SETTER,          /* a rejected setter changed what the pipe does next */
    V_TWIN_GETTER,          /* a getter changed what the pipe does next */
    V_STALE_FLOW_DEF,       /* a buffer delivered under a flow definition that is no longer the pipe's current one */
    V_PID_FILTER,           /* ts_pid_filter let a packet of a PID through that is not enabled */
    V_REQ_ROUTING,          /* a registered request is not lodged exactly once at the current output */
    V_REQ_ANSWER,           /* an answer did not reach the requester once, with the value given */
    V_REQ_AFTER_UNREGISTER, /* callback of a request invoked after it was unregistered */
};

static const char *class_name(int cls)
{
    switch (cls) {
    case V_READY_ORDER: return "ready_order";
    case V_DEAD: return "dead";
    case V_AFTER_DEAD: return "after_dead";
    case V_NO_FLOW_DEF: return "no_flow_def";
    case V_LEAK: return "leak";
    case V_REFCOUNT: return "refcount";
    case V_CONTROL: return "control";
    case V_DEAD_EARLY: return "dead_while_referenced";
    case V_ORDER: return "reordered_or_duplicated";
    case V_PAYLOAD: return "payload_changed";
    case V_LOST: return "buffer_swallowed";
    case V_GETTER: return "getter_value";
    case V_INCOMPLETE: return "buffer_never_delivered";
    case V_SRC_BLOCKED: return "source_left_blocked";
    case V_TWIN_SETTER: return "rejected_setter_changed_behaviour";
    case V_TWIN_GETTER: return "getter_changed_behaviour";
    case V_STALE_FLOW_DEF: return "stale_flow_def";
    case V_PID_FILTER: return "pid_filter";
    case V_REQ_ROUTING: return "request_routing";
    case V_REQ_ANSWER: return "request_answer";
    case V_REQ_AFTER_UNREGISTER: return "callback_after_unregister";
    default: return NULL;
    }
}

enum {
    OP_FLOW_DEF = 1,    /* a0 = definition, a1 = extra attributes, a5 = alloc fault */
    OP_INPUT,           /* a0 = size, a1 = dates/flags selector, a2 = content, a3 = burst-1, a5 = fault */
    OP_RUN,             /* a0 = dispatch budget */
    OP_ADVANCE,         /* a0 = ticks */
    OP_FLUSH,
    OP_SET_OUTPUT,      /* a0: 0 = NULL, 1 = the sink, 2 = a second sink */
    OP_SINK_MODE,       /* a0 = sink, a1: 0 accept, 1 refuse */
    OP_ATTACH,          /* a0 bit0 upump_mgr, bit1 uclock */
    OP_RELEASE,
    OP_OPTION,          /* a0 = which option of the pipe, a1 = value selector */
    OP_SINK_BLOCK,      /* a0 = sink, a1: 1 = hold what arrives and block the pump it came from, 0 = let go */
    OP_GETTER,          /* every getter the pipe answers */
    OP_REQ_REGISTER,    /* a0 = request */
    OP_REQ_UNREGISTER,  /* a0 = request */
    OP_REQ_PROVIDE,     /* a0 = sink, a1 = value: the sink answers every sink-latency request lodged with it */
    OP__N
};
static const char *op_name(int code)
{
    static const char *const n[] = { "?", "flow_def", "input", "run", "advance", "flush", "set_output", "sink_mode",
                                     "attach", "release", "option", "sink_block", "getter", "req_register",
                                     "req_unregister", "req_provide" };
    return code > 0 && code < OP__N ? n[code] : "?";
}

enum { CFG_PROP = 0, CFG_TYPE, CFG_POOL, CFG_FAULTS, CFG_PROVIDE, CFG_TWIN, CFG_ALLOCDEF, CFG_FAULTSWEEP, CFG_RELAY, CFG_POOLPROV, CFG_FFMODE };

enum { F_ORDER = 1, F_SAME_PAYLOAD = 2, F_IMMEDIATE = 4,
       F_COMPLETE = 8, /* documented never to drop: everything accepted comes out once the loop and the clock ran */
       F_TYPED = 16,   /* works on pictures / sound: only given complete flow definitions and buffers of that kind */
       F_FLOW_ALLOC = 32 /* allocated with a flow definition (of its output) instead of nothing */ };
struct ptype { const char *name; struct upipe_mgr *(*mgr_alloc)(void); unsigned flags; };
static const struct ptype types[] = {
    { "buffer", upipe_buffer_mgr_alloc, F_ORDER | F_SAME_PAYLOAD | F_COMPLETE }, { "burst", upipe_burst_mgr_alloc, F_ORDER | F_SAME_PAYLOAD | F_COMPLETE },
    { "convert_to_block", upipe_tblk_mgr_alloc, 0 }, { "dejitter", upipe_dejitter_mgr_alloc, F_ORDER | F_SAME_PAYLOAD },
    { "delay", upipe_delay_mgr_alloc, F_ORDER | F_SAME_PAYLOAD | F_IMMEDIATE | F_COMPLETE }, { "discard_blocking", upipe_disblo_mgr_alloc, F_ORDER | F_SAME_PAYLOAD },
    { "dump", upipe_dump_mgr_alloc, F_ORDER | F_SAME_PAYLOAD | F_IMMEDIATE | F_COMPLETE }, { "genaux", upipe_genaux_mgr_alloc, F_ORDER },
    { "htons", upipe_htons_mgr_alloc, F_ORDER | F_COMPLETE }, { "idem", upipe_idem_mgr_alloc, F_ORDER | F_SAME_PAYLOAD | F_IMMEDIATE | F_COMPLETE },
    { "match_attr", upipe_match_attr_mgr_alloc, F_ORDER | F_SAME_PAYLOAD }, { "multicat_probe", upipe_multicat_probe_mgr_alloc, F_ORDER | F_SAME_PAYLOAD | F_IMMEDIATE | F_COMPLETE },
    { "noclock", upipe_noclock_mgr_alloc, F_ORDER | F_SAME_PAYLOAD | F_IMMEDIATE | F_COMPLETE }, { "nodemux", upipe_nodemux_mgr_alloc, F_ORDER | F_SAME_PAYLOAD | F_COMPLETE },
    { "null", upipe_null_mgr_alloc, 0 }, { "probe_uref", upipe_probe_uref_mgr_alloc, F_ORDER | F_SAME_PAYLOAD | F_IMMEDIATE | F_COMPLETE },
    { "rate_limit", upipe_rate_limit_mgr_alloc, F_ORDER | F_SAME_PAYLOAD | F_COMPLETE }, { "setattr", upipe_setattr_mgr_alloc, F_ORDER | F_SAME_PAYLOAD | F_IMMEDIATE | F_COMPLETE },
    { "setflowdef", upipe_setflowdef_mgr_alloc, F_ORDER | F_SAME_PAYLOAD | F_IMMEDIATE | F_COMPLETE }, { "setrap", upipe_setrap_mgr_alloc, F_ORDER | F_SAME_PAYLOAD | F_IMMEDIATE | F_COMPLETE },
    { "skip", upipe_skip_mgr_alloc, F_ORDER | F_COMPLETE }, { "time_limit", upipe_time_limit_mgr_alloc, F_ORDER | F_SAME_PAYLOAD | F_COMPLETE },
    { "dtsdi", upipe_dtsdi_mgr_alloc, 0 }, { "ntsc_prepend", upipe_ntsc_prepend_mgr_alloc, 0 },
    { "aggregate", upipe_agg_mgr_alloc, 0 }, { "chunk_stream", upipe_chunk_stream_mgr_alloc, 0 },
    { "m3u_reader", upipe_m3u_reader_mgr_alloc, 0 }, { "rtp_h264", upipe_rtp_h264_mgr_alloc, 0 },
    { "rtp_mpeg4", upipe_rtp_mpeg4_mgr_alloc, 0 },
    /* pictures and sound (second batch) */
    { "crop", upipe_crop_mgr_alloc, F_TYPED }, { "separate_fields", upipe_separate_fields_mgr_alloc, F_TYPED },
    { "filter_blend", upipe_filter_blend_mgr_alloc, F_TYPED }, { "audio_max", upipe_amax_mgr_alloc, F_TYPED },
    { "row_join", upipe_row_join_mgr_alloc, F_TYPED }, { "rtp_pcm_pack", upipe_rtp_pcm_pack_mgr_alloc, F_TYPED },
    { "rtp_pcm_unpack", upipe_rtp_pcm_unpack_mgr_alloc, F_TYPED }, { "sine_wave_source", upipe_sinesrc_mgr_alloc, F_TYPED },
    { "audio_blank", upipe_ablk_mgr_alloc, F_TYPED | F_FLOW_ALLOC }, { "audio_copy", upipe_audio_copy_mgr_alloc, F_TYPED | F_FLOW_ALLOC },
    { "block_to_sound", upipe_block_to_sound_mgr_alloc, F_TYPED | F_FLOW_ALLOC }, { "video_blank", upipe_vblk_mgr_alloc, F_TYPED | F_FLOW_ALLOC },
    { "row_split", upipe_row_split_mgr_alloc, F_TYPED | F_FLOW_ALLOC }, { "audio_bar", upipe_audiobar_mgr_alloc, F_TYPED | F_FLOW_ALLOC },
    { "audio_graph", upipe_agraph_mgr_alloc, F_TYPED | F_FLOW_ALLOC }, { "void_source", upipe_voidsrc_mgr_alloc, F_TYPED | F_FLOW_ALLOC },
    { "zoneplate", upipe_zp_mgr_alloc, F_TYPED | F_FLOW_ALLOC },
    /* bins: a source and a filter inside, proxy probes, the bin's output is the last inner pipe's */
    { "blank_source", upipe_blksrc_mgr_alloc, F_TYPED | F_FLOW_ALLOC }, { "zoneplate_source", upipe_zpsrc_mgr_alloc, F_TYPED | F_FLOW_ALLOC },
    /* transport stream pipes that only need the shim's TS accessors */
    { "ts_align", upipe_ts_align_mgr_alloc, 0 }, { "ts_metadata_generator", upipe_ts_mdg_mgr_alloc, 0 },
    { "ts_pcr_interpolator", upipe_ts_pcr_interpolator_mgr_alloc, F_ORDER | F_SAME_PAYLOAD },
    { "ts_pid_filter", upipe_ts_pidf_mgr_alloc, F_ORDER | F_SAME_PAYLOAD }, { "ts_tstd", upipe_ts_tstd_mgr_alloc, F_ORDER | F_SAME_PAYLOAD },
    /* other libraries: v210 encoder (planar 4:2:2 in), HLS segment buffer (pack10bit / unpack10bit of upipe-hbrmt
     * were tried and left out: their contract is about the alignment and spare room of the buffers they are given) */
    { "v210enc", upipe_v210enc_mgr_alloc, F_TYPED }, { "hls_buffer", upipe_hls_buffer_mgr_alloc, F_ORDER | F_SAME_PAYLOAD },
    /* a bin that builds its inner chain from the answer to a flow format request and holds its input meanwhile: without
     * swscale / swresample managers (pictures only: a sound conversion needs swresample) the chain is setflowdef, or
     * filter_blend + setflowdef when the answer is progressive and the input is not */
    { "filter_format", upipe_ffmt_mgr_alloc, F_TYPED | F_FLOW_ALLOC | F_ORDER },
};
#define NTYPES (int)(sizeof(types) / sizeof(types[0]))

static const char *const defs[] = { "block.", "block.mpegts.", "block.h264.", "void.", "block.m3u.", "block.aac.",
                                    "block.mpeg4.", "block.foo.bar.", "pic.", "sound.s16.", "block.mpegtsaligned.",
                                    "void.scte35." };
#define NDEFS (int)(sizeof(defs) / sizeof(defs[0]))

/* complete flow definitions for the pipes that look inside pictures and sound,
 * with the kind of buffer that goes with each */
enum { K_BLOCK = 0, K_PIC, K_S16, K_S32, K_F32P, K_VOID, K_S24BLOCK, K_PIC422, K__N };
static int cur_kind;                   /* of the flow definition accepted last */
static uint64_t alloc_which;
static bool incomplete_alloc_def;           /* kind of flow definition a flow-allocated pipe was given */
static struct ubuf_mgr *kind_mgr[K__N];


static const struct sim_plan *plan;
static struct umem_mgr *umem;
static struct udict_mgr *udict_mgr;
static struct uref_mgr *uref_mgr;
static struct ubuf_mgr *ubuf_mgr;
static struct upump_mgr *upump_mgr;
static struct uclock *uclock;
static bool fault_fired;
static int type;


/* which providers the application stacks on its probes (bit 0: the sinks answer
 * requests). The pipes of the second batch assert on a manager nobody gave them:
 * they only run in complete applications. */
static void req_final_probe(void);
/* typed pipes that keep input while they wait for a manager (the hold-input
 * idiom) instead of asserting: these also run in incomplete applications */
static bool typed_but_patient(void)
{
    return !strcmp(types[type].name, "audio_copy") || !strcmp(types[type].name, "row_join");
}
static uint64_t provide(void)
{
    /* (C12: a control command that ends with the pipe's own check returns the
     * check's error - a manager is missing - although the command was carried
     * out; only complete applications, where an error means "not taken") */
    if (plan->cfg[CFG_PROP] == 12)
        return 31;
    return ((types[type].flags & F_TYPED) && !typed_but_patient()) ? 31 : (uint64_t)plan->cfg[CFG_PROVIDE];
}
static bool req_overflow, has_no_output;
static bool sim_violation_suppressed;
static bool provider_failed;
static bool checking(void) { return !sim_violation_class() && !sim_violation_suppressed; }

/* C20, second and third clause, without a model of any pipe: the history is
 * executed again without its getters and without the setters the pipe
 * rejected; what reaches the outputs (and the events thrown) must be the same.
 * The loop runs ready watchers in allocation order and the clock is rewound, so
 * that the executions differ in nothing else. */
enum { MODE_PRIMARY = 0, MODE_TWIN, MODE_TWIN_KEEP_REJECTED, MODE__N };
static int mode;
static bool twin_run;                  /* this history is executed more than once */
static bool rejected[SIM_MAX_OPS];
static int cur_op;
#define MAXTRACE 2048
static uint64_t trace[MODE__N][MAXTRACE];
static unsigned ntrace[MODE__N];
static char trace_what[MODE__N][MAXTRACE];
static void trace_add(char what, uint64_t v)
{
    if (!twin_run)
        return;
    if (ntrace[mode] < MAXTRACE) {
        trace_what[mode][ntrace[mode]] = what;
        trace[mode][ntrace[mode]] = v;
    }
    ntrace[mode]++;
}
/* events thrown while a getter or a rejected setter runs are part of that
 * call, not of what the pipe does next */
static void trace_forget_events_since(unsigned n0)
{
    if (!twin_run || ntrace[mode] > MAXTRACE)
        return;
    unsigned w = n0;
    for (unsigned i = n0; i < ntrace[mode]; i++)
        if (trace_what[mode][i] != 'e') {
            trace_what[mode][w] = trace_what[mode][i];
            trace[mode][w++] = trace[mode][i];
        }
    ntrace[mode] = w;
}
static uint64_t dict_hash(struct uref *uref)
{
    uint64_t h = 7;
    if (uref == NULL || uref->udict == NULL)
        return h;
    const char *name = NULL;
    enum udict_type t = UDICT_TYPE_END;
    while (ubase_check(udict_iterate(uref->udict, &name, &t)) && t != UDICT_TYPE_END) {
        const uint8_t *v = NULL;
        size_t size = 0;
        uint64_t e = sim_mix((uint64_t)t, 99);
        if (name != NULL)
            for (const char *c = name; *c; c++)
                e = sim_mix(e, (uint64_t)(uint8_t)*c);
        if (ubase_check(udict_get(uref->udict, name, t, &size, &v)) && v != NULL)
            for (size_t i = 0; i < size; i++)
                e = sim_mix(e, v[i]);
        h += e;         /* (order of attributes in the storage is not behaviour) */
    }
    return h;
}

/* what went in (C05 clauses for the pipes flagged in the table) */
#define MAXSEQ 256
static struct { uint64_t hash; unsigned size; bool arrived; unsigned epoch; } sent_rec[MAXSEQ];
/* C04 for a bin that renegotiates (filter_format): every accepted flow definition that differs from the one
 * before opens an epoch; a buffer input in epoch e may only reach an output that was given a flow definition
 * since epoch e began (the inner chain of the previous epoch must not carry it) */
static unsigned fd_epoch;
static uint64_t fd_epoch_hash;
static uint64_t last_arrived_seq;
static bool any_arrived, any_refusal;
static struct upipe *cur_out;

static uint64_t payload_hash(struct uref *uref, unsigned *size_p)
{
    size_t size = 0;
    uint64_t h = 1469598103934665603ULL;
    if (uref->ubuf == NULL || !ubase_check(uref_block_size(uref, &size))) {
        *size_p = 0;
        return 0;
    }
    uint8_t buf[256];
    if (size > sizeof(buf))
        size = sizeof(buf);
    if (size && ubase_check(uref_block_extract(uref, 0, (int)size, buf)))
        for (size_t i = 0; i < size; i++)
            h = (h ^ buf[i]) * 1099511628211ULL;
    *size_p = (unsigned)size;
    return h;
}

/* ------------------------------------------------------- probe and sinks */
static struct uprobe root;
static struct urefcount root_refcount;
static struct uprobe *chain;            /* providers on top of root */
static struct upipe *ut;                /* pipe under test */
static struct upipe *ut_alloc;
static bool allocating;
static jmp_buf run_abort;              /* leaves a run whose pipe was freed under the caller's feet */
static bool held_while_waiting;        /* data was input while a manager request was unanswered */
static unsigned flow_defs_behind_held;
static unsigned ut_ready, ut_dead, ut_events, ut_fatal, ut_error;
static bool ut_first_event_seen;

#define NSINK 2
static struct sink {
    struct upipe upipe;
    struct urefcount refcount;
    bool refuse;
    bool accepted;              /* accepted a flow definition since it was plugged */
    unsigned inputs, flow_defs, refused;
    uint64_t fd_hash;           /* of the flow definition accepted last */
    unsigned fd_epoch;          /* epoch of the pipe's input when that happened */
    struct urequest *lodged[8]; /* sink-latency requests registered here */
    unsigned nlodged;
    struct urequest *parked[8]; /* the pipe's own flow format requests, answered later (CFG_FFMODE 2) */
    unsigned nparked;
    bool blocking;              /* holds what arrives and blocks the pump it came from */
    struct uchain held, blockers;
} sinks[NSINK];

/* "chains of them": in one run out of three a real pass-through pipe (upipe_idem)
 * sits between the pipe under test and each sink. Flow definitions, buffers,
 * requests and blockers then go through a real pipe's control and input
 * functions; the sinks see the same things, so every oracle stays as it is. */
static struct upipe *relay[NSINK];
static struct upipe *out_of(int k)
{
    return relay[k] != NULL ? relay[k] : &sinks[k].upipe;
}

/* the pump the harness names as the source of its buffers (a timer that never
 * fires): pipes that hold input block it, and must let it go again */
static struct upump *src_pump;
static struct ueventfd src_fd;
static void src_pump_cb(struct upump *upump) { (void)upump; }
static bool complete_tainted;          /* something happened that legitimately drops or keeps buffers */
static bool sink_blocked_ever;
static uint64_t buffer_max_size, largest_input;
static bool ff_in_limbo;         /* the pipe's flow format request was withdrawn unanswered and is lodged nowhere */
/* C20, first clause at any later instant: what the last accepted setter of option
 * w stored, until something that may legitimately change it (another accepted
 * setter of the same pipe that shares its storage, an accepted flow definition,
 * a failed allocation) */
static struct { bool valid; uint64_t v; const char *what; } opt_model[3];
static void opt_model_forget(void) { for (int w = 0; w < 3; w++) opt_model[w].valid = false; }
static unsigned row_seq;
static int pic_rows = 16;              /* height of the pictures made (row_join is fed rows of 4) */
static bool pid_enabled[4];            /* model of ts_pid_filter: PIDs 0x100..0x103 */

static void sink_blocker_cb(struct upump_blocker *blocker)
{
    /* the blocked pump is going away */
    ulist_delete(upump_blocker_to_uchain(blocker));
    upump_blocker_free(blocker);
}
static void sink_let_go(struct sink *s)
{
    struct uchain *uchain;
    s->blocking = false;
    while ((uchain = ulist_pop(&s->blockers)) != NULL)
        upump_blocker_free(upump_blocker_from_uchain(uchain));
    while ((uchain = ulist_pop(&s->held)) != NULL)
        uref_free(uref_from_uchain(uchain));
}

static void noop_free(struct urefcount *r) { (void)r; }

static int catch(struct uprobe *uprobe, struct upipe *upipe, int event, va_list args)
{
    if (event == UPROBE_LOG) {
        if (sim_verbose) {
            va_list copy;
            va_copy(copy, args);
            struct ulog *ulog = va_arg(copy, struct ulog *);
            char msg[200];
            ulog_msg_print(ulog, msg, sizeof(msg));
            if (ulog->level >= UPROBE_LOG_DEBUG)
                printf("        log: %s\n", msg);
            va_end(copy);
        }
        return UBASE_ERR_NONE;
    }
    if (upipe == NULL || upipe == &sinks[0].upipe || upipe == &sinks[1].upipe || upipe == relay[0] || upipe == relay[1])
        return UBASE_ERR_UNHANDLED;
    if (ut == NULL && ut_alloc == NULL && allocating)
        ut_alloc = upipe;               /* ready is thrown from inside the allocator */
    if (upipe != ut && upipe != ut_alloc)
        return UBASE_ERR_UNHANDLED;     /* inner pipes of a bin: not ours to judge */
    ut_events++;
    if (event != UPROBE_PROVIDE_REQUEST)
        trace_add('e', (uint64_t)event);
    else if (plan->cfg[CFG_FFMODE]) {
        /* a flow format asked of the probes (no output to ask): nobody knows,
         * the application is incomplete from here on */
        va_list copy;
        va_copy(copy, args);
        struct urequest *rq = va_arg(copy, struct urequest *);
        va_end(copy);
        uint64_t tracer = 0;
        if (rq != NULL && rq->type == UREQUEST_FLOW_FORMAT &&
            (rq->uref == NULL || !ubase_check(uref_attr_get_unsigned(rq->uref, &tracer, UDICT_TYPE_UNSIGNED, "x.tracer"))))
            provider_failed = true;
    }
    if (!ut_first_event_seen) {
        ut_first_event_seen = true;
        if (event != UPROBE_READY && checking())
            sim_violation(V_READY_ORDER, "%s: first event is %d, not ready", types[type].name, event);
    }
    if (ut_dead && checking())
        sim_violation(V_AFTER_DEAD, "%s throws event %d after dead", types[type].name, event);
    switch (event) {
    case UPROBE_READY: ut_ready++; break;
    case UPROBE_DEAD:
        ut_dead++;
        if (ut != NULL) {
            /* the application has not let go yet: the pipe dropped a
             * reference it did not own. Forget the handle (it dangles). */
            if (plan->cfg[CFG_PROP] != 1) {
                /* a lifetime matter (C01): the other properties served by
                 * this engine just give the run up */
                SIM_PROBE("sweep_run_abandoned_pipe_freed_early");
                ut = NULL;
                longjmp(run_abort, 1);
            }
            if (checking()) {
                if (held_while_waiting && flow_defs_behind_held >= 1)
                    sim_violation(V_DEAD_EARLY, "%s destroyed while the application still holds a reference (hold-input idiom: "
                                  "%u flow definition(s) queued behind held data when the awaited manager arrived, "
                                  "the self-reference is released once per nested check)", types[type].name,
                                  flow_defs_behind_held);
                else
                    sim_violation(V_DEAD_EARLY, "%s destroyed while the application still holds a reference",
                                  types[type].name);
            }
            ut = NULL;
            /* the library is still running inside the freed pipe: do not let
             * it (the sanitizer would end the process and the verdict with
             * it); what this run allocated is abandoned */
            if (sim_violation_class() == V_DEAD_EARLY)
                longjmp(run_abort, 1);
        }
        break;
    case UPROBE_FATAL: ut_fatal++; SIM_PROBE("sweep_fatal_event"); break;
    case UPROBE_ERROR: ut_error++; SIM_PROBE("sweep_error_event"); break;
    default: break;
    }
    return UBASE_ERR_UNHANDLED;
}

static void sink_input(struct upipe *upipe, struct uref *uref, struct upump **upump_p)
{
    struct sink *s = container_of(upipe, struct sink, upipe);
    s->inputs++;
    sim_ev("sink_input", (uint64_t)(s - sinks), 0);
    if (twin_run) {
        unsigned tsize = 0;
        uint64_t th = payload_hash(uref, &tsize);
        uint64_t dates = sim_mix(sim_mix(uref->flags, uref->date_sys), sim_mix(uref->date_prog, uref->date_orig));
        dates = sim_mix(dates, sim_mix(sim_mix(uref->dts_pts_delay, uref->cr_dts_delay), sim_mix(uref->rap_cr_delay, uref->priv)));
        trace_add('d', sim_mix(sim_mix((uint64_t)(s - sinks), tsize), sim_mix(th, sim_mix(dict_hash(uref), dates))));
    }
    if (checking()) {
        if (ut_dead)
            sim_violation(V_AFTER_DEAD, "%s sends a buffer to its output after dead", types[type].name);
        else if (!s->accepted)
            sim_violation(V_NO_FLOW_DEF, "%s sends a buffer to an output that %s", types[type].name,
                          s->refused ? "refused its flow definition" : "was given no flow definition");
    }
    /* C04: the definition this output accepted is still the one the pipe calls
     * its current one */
    /* (not for upipe_video_blank and the bin around it: the getter is a control
     * call from inside the pipe's own output, the pipe's control function ends
     * with its check, and a check nested in a check lets go of the
     * self-reference twice - the idiom of section 7.3, here triggered by this
     * harness only: no output calls its upstream back from its input function) */
    bool reentrant_getter_ok = strcmp(types[type].name, "video_blank") && strcmp(types[type].name, "blank_source");
    if (checking() && s->accepted && ut != NULL && !ut_dead && !fault_fired && plan->cfg[CFG_PROP] == 4 && reentrant_getter_ok) {
        struct uref *cur = NULL;
        if (ubase_check(upipe_get_flow_def(ut, &cur)) && cur != NULL && dict_hash(cur) != s->fd_hash)
            sim_violation(V_STALE_FLOW_DEF, "%s delivers a buffer although its current flow definition (get_flow_def) is not the one "
                          "its output accepted last: a change was not announced", types[type].name);
    }
    uint64_t sq = 0;
    if (checking() && plan->cfg[CFG_PROP] == 4 && !fault_fired && s->accepted && !strcmp(types[type].name, "filter_format") &&
        ubase_check(uref_attr_get_unsigned(uref, &sq, UDICT_TYPE_UNSIGNED, "x.seq")) && sq < MAXSEQ - 1) {
        SIM_PROBE("sweep_epoch_of_delivered_buffer_checked");
        if (sent_rec[sq].epoch > s->fd_epoch)
            sim_violation(V_STALE_FLOW_DEF, "%s: buffer %" PRIu64 " was input after flow definition change %u was accepted and reaches "
                          "an output whose last flow definition dates from before that change (%u)", types[type].name, sq,
                          sent_rec[sq].epoch, s->fd_epoch);
    }
    sq = 0;
    if (ubase_check(uref_attr_get_unsigned(uref, &sq, UDICT_TYPE_UNSIGNED, "x.seq")) && sq < MAXSEQ && checking() &&
        plan->cfg[CFG_PROP] == 5 && !fault_fired) {
        unsigned fl = types[type].flags;
        if (fl & F_ORDER) {
            if (sent_rec[sq].arrived)
                sim_violation(V_ORDER, "%s: buffer %" PRIu64 " comes out twice", types[type].name, sq);
            else if (any_arrived && sq < last_arrived_seq)
                sim_violation(V_ORDER, "%s: buffer %" PRIu64 " comes out after buffer %" PRIu64, types[type].name, sq,
                              last_arrived_seq);
        }
        if ((fl & F_SAME_PAYLOAD) && checking()) {
            unsigned size = 0;
            uint64_t h = payload_hash(uref, &size);
            if (size != sent_rec[sq].size || h != sent_rec[sq].hash)
                sim_violation(V_PAYLOAD, "%s: buffer %" PRIu64 " went in with %u octets and comes out with %u, or its content changed",
                              types[type].name, sq, sent_rec[sq].size, size);
        }
        sent_rec[sq].arrived = true;
        any_arrived = true;
        last_arrived_seq = sq;
    } else if (sq < MAXSEQ)
        sent_rec[sq].arrived = true;
    if (s->blocking) {
        /* what a sink does that cannot take more for now */
        ulist_add(&s->held, uref_to_uchain(uref));
        if (upump_p != NULL && *upump_p != NULL && upump_blocker_find(&s->blockers, *upump_p) == NULL) {
            struct upump_blocker *b = upump_blocker_alloc(*upump_p, sink_blocker_cb, s);
            if (b != NULL) {
                ulist_add(&s->blockers, upump_blocker_to_uchain(b));
                SIM_PROBE("sweep_sink_blocked_a_pump");
            }
        }
        return;
    }
    uref_free(uref);
}

static int sink_control(struct upipe *upipe, int command, va_list args)
{
    struct sink *s = container_of(upipe, struct sink, upipe);
    switch (command) {
    case UPIPE_SET_FLOW_DEF:
        if (twin_run) {
            va_list copy;
            va_copy(copy, args);
            trace_add('f', sim_mix((uint64_t)(s - sinks), dict_hash(va_arg(copy, struct uref *))));
            va_end(copy);
        }
        if (ut_dead && checking())
            sim_violation(V_AFTER_DEAD, "%s sends a flow definition to its output after dead", types[type].name);
        s->flow_defs++;
        if (s->refuse) {
            any_refusal = true;
            s->refused++;
            s->accepted = false;
            return UBASE_ERR_INVALID;
        }
        s->accepted = true;
        s->fd_epoch = fd_epoch;
        {
            va_list copy;
            va_copy(copy, args);
            s->fd_hash = dict_hash(va_arg(copy, struct uref *));
            va_end(copy);
        }
        return UBASE_ERR_NONE;
    case UPIPE_REGISTER_REQUEST: {
        struct urequest *rq = va_arg(args, struct urequest *);
        uint64_t tracer = 0;
        if (rq->type == UREQUEST_SINK_LATENCY ||
            (rq->type == UREQUEST_FLOW_FORMAT && rq->uref != NULL &&
             ubase_check(uref_attr_get_unsigned(rq->uref, &tracer, UDICT_TYPE_UNSIGNED, "x.tracer")))) {
            /* the tracers of C12: nobody answers them before the plan says so */
            if (s->nlodged < 8)
                s->lodged[s->nlodged++] = rq;
            else
                req_overflow = true;
            if (ut_dead && checking())
                sim_violation(V_AFTER_DEAD, "%s registers a request at its output after dead", types[type].name);
            return UBASE_ERR_NONE;
        }
        /* the pipe's own flow format request: this output is the one that knows.
         * It agrees with what is proposed, at once or when the loop next runs
         * (what an output behind a queue does); mode 0: nobody answers */
        if (rq->type == UREQUEST_FLOW_FORMAT && rq->uref != NULL && plan->cfg[CFG_FFMODE]) {
            ff_in_limbo = false;
            if (plan->cfg[CFG_FFMODE] == 2) {
                if (s->nparked < 8) {
                    s->parked[s->nparked++] = rq;
                    SIM_PROBE("sweep_flow_format_request_parked");
                }
                return UBASE_ERR_NONE;
            }
            struct uref *ans = uref_dup(rq->uref);
            if (ans == NULL) {
                provider_failed = true;
                return UBASE_ERR_ALLOC;
            }
            SIM_PROBE("sweep_flow_format_answered_at_once");
            return urequest_provide_flow_format(rq, ans);
        }
        if (provide() & 1) {
            int err = upipe_throw_provide_request(upipe, rq);
            if (!ubase_check(err))
                provider_failed = true;     /* (an injected failure in the provider) */
            return err;
        }
        return UBASE_ERR_NONE;
    }
    case UPIPE_UNREGISTER_REQUEST: {
        struct urequest *rq = va_arg(args, struct urequest *);
        uint64_t tracer = 0;
        for (unsigned k = 0; k < s->nparked; k++)
            if (s->parked[k] == rq) {
                /* withdrawn before it was answered (the output is being
                 * disconnected): until it is lodged somewhere again nobody
                 * will answer it, a pipe that waits for it waits for good */
                s->parked[k] = s->parked[--s->nparked];
                ff_in_limbo = true;
                break;
            }
        if (rq->type == UREQUEST_SINK_LATENCY ||
            (rq->type == UREQUEST_FLOW_FORMAT && rq->uref != NULL &&
             ubase_check(uref_attr_get_unsigned(rq->uref, &tracer, UDICT_TYPE_UNSIGNED, "x.tracer")))) {
            unsigned k = 0;
            while (k < s->nlodged && s->lodged[k] != rq)
                k++;
            if (k == s->nlodged) {
                if (checking() && !req_overflow)
                    sim_violation(V_REQ_ROUTING, "%s unregisters a request at an output where it was not registered",
                                  types[type].name);
            } else {
                s->lodged[k] = s->lodged[--s->nlodged];
            }
        }
        return UBASE_ERR_NONE;
    }
    default:
        return UBASE_ERR_UNHANDLED;
    }
}

static struct upipe_mgr sink_mgr = {
    .refcount = NULL, .signature = 0, .upipe_input = sink_input, .upipe_control = sink_control,
};

/* ------------------------------------------------------------ environment */
static void env_setup(void)
{
    static const uint16_t depth[] = { 0, 0, 1, 2, 8 };
    int pool = (int)((uint64_t)plan->cfg[CFG_POOL] % 5);
    sim_alloc_reset();
    static const char *const allow[] = { "uref_std_alloc_inner", "ubuf_block_mem_alloc_inner",
                                         "ubuf_mem_shared_alloc_inner", NULL };
    sim_alloc_set_allow_list(allow);
    /* (pictures and sound are written through typed pointers: like malloc, 16-aligned for them) */
    umem = umem_sim_mgr_alloc((types[type].flags & F_TYPED) ? 0 : 3);
    /* half of the runs: a dictionary storage that every attribute makes grow (growth can then fail) */
    bool small_dicts = ((uint64_t)plan->cfg[CFG_POOL] % 10) >= 5;
    udict_mgr = udict_inline_mgr_alloc(depth[pool], umem, small_dicts ? 1 : -1, small_dicts ? 1 : -1);
    uref_mgr = uref_std_mgr_alloc(depth[pool], udict_mgr, 0);
    ubuf_mgr = ubuf_block_mem_mgr_alloc(depth[pool], depth[pool], umem, 0, 0, 0, 0);
    upump_mgr = upump_sim_mgr_alloc(depth[pool], depth[pool]);
    upump_sim_mgr_set_horizon(upump_mgr, UINT64_C(27000000) * 3600);   /* an hour */
    upump_sim_mgr_set_fifo(upump_mgr, twin_run);
    memset(kind_mgr, 0, sizeof(kind_mgr));
    if (types[type].flags & F_TYPED) {
        kind_mgr[K_PIC] = ubuf_pic_mem_mgr_alloc(depth[pool], depth[pool], umem, 1, 0, 0, 0, 0, 16, 0);
        ubuf_pic_mem_mgr_add_plane(kind_mgr[K_PIC], "y8", 1, 1, 1);
        ubuf_pic_mem_mgr_add_plane(kind_mgr[K_PIC], "u8", 2, 2, 1);
        ubuf_pic_mem_mgr_add_plane(kind_mgr[K_PIC], "v8", 2, 2, 1);
        kind_mgr[K_PIC422] = ubuf_pic_mem_mgr_alloc(depth[pool], depth[pool], umem, 1, 0, 0, 0, 0, 16, 0);
        ubuf_pic_mem_mgr_add_plane(kind_mgr[K_PIC422], "y8", 1, 1, 1);
        ubuf_pic_mem_mgr_add_plane(kind_mgr[K_PIC422], "u8", 2, 1, 1);
        ubuf_pic_mem_mgr_add_plane(kind_mgr[K_PIC422], "v8", 2, 1, 1);
        kind_mgr[K_S16] = ubuf_sound_mem_mgr_alloc(depth[pool], depth[pool], umem, 4, 16);
        ubuf_sound_mem_mgr_add_plane(kind_mgr[K_S16], "lr");
        kind_mgr[K_S32] = ubuf_sound_mem_mgr_alloc(depth[pool], depth[pool], umem, 8, 16);
        ubuf_sound_mem_mgr_add_plane(kind_mgr[K_S32], "lr");
        kind_mgr[K_F32P] = ubuf_sound_mem_mgr_alloc(depth[pool], depth[pool], umem, 4, 16);
        ubuf_sound_mem_mgr_add_plane(kind_mgr[K_F32P], "l");
        ubuf_sound_mem_mgr_add_plane(kind_mgr[K_F32P], "r");
    }
    cur_kind = K_BLOCK;
    incomplete_alloc_def = false;
    uclock = uclock_sim_alloc();
    uprobe_init(&root, catch, NULL);
    urefcount_init(&root_refcount, noop_free);
    root.refcount = &root_refcount;
    /* the providers a real application stacks on its probes */
    chain = uprobe_use(&root);
    if (provide() & 2)
        chain = uprobe_uref_mgr_alloc(chain, uref_mgr);
    if (provide() & 4)
        /* (the pooled provider hands out the same manager again for the same
         * format: an answer that changes nothing) */
        chain = plan->cfg[CFG_POOLPROV] ? uprobe_ubuf_mem_pool_alloc(chain, umem, depth[pool], depth[pool])
                                        : uprobe_ubuf_mem_alloc(chain, umem, depth[pool], depth[pool]);
    if (provide() & 8)
        chain = uprobe_upump_mgr_alloc(chain, upump_mgr);
    if (provide() & 16)
        chain = uprobe_uclock_alloc(chain, uclock);
    memset(sinks, 0, sizeof(sinks));
    for (int i = 0; i < NSINK; i++) {
        upipe_init(&sinks[i].upipe, &sink_mgr, uprobe_use(chain));
        urefcount_init(&sinks[i].refcount, noop_free);
        sinks[i].upipe.refcount = &sinks[i].refcount;
        ulist_init(&sinks[i].held);
        ulist_init(&sinks[i].blockers);
    }
    /* a watcher on a descriptor nobody writes to: never dispatched, does not
     * keep the loop alive, can be blocked */
    memset(relay, 0, sizeof(relay));
    if (((uint64_t)plan->cfg[CFG_RELAY] & 1) && !(types[type].flags & F_TYPED)) {
        struct upipe_mgr *idem_mgr = upipe_idem_mgr_alloc();
        for (int i = 0; i < NSINK; i++) {
            relay[i] = upipe_void_alloc(idem_mgr, uprobe_use(chain));
            SIM_PROBE("sweep_relay_pipe_in_front_of_sink");
            if (relay[i] != NULL)
                upipe_set_output(relay[i], &sinks[i].upipe);
        }
        upipe_mgr_release(idem_mgr);
    }
    src_pump = ueventfd_init(&src_fd, false) ? ueventfd_upump_alloc(&src_fd, upump_mgr, src_pump_cb, NULL, NULL) : NULL;
    if (src_pump != NULL) {
        upump_set_status(src_pump, false);
        upump_start(src_pump);
    }
    complete_tainted = sink_blocked_ever = false;
    largest_input = 0;
    memset(pid_enabled, 0, sizeof(pid_enabled));
    row_seq = 0;
    pic_rows = !strcmp(types[type].name, "row_join") ? 4 : 16;
    opt_model_forget();
    ff_in_limbo = false;
    buffer_max_size = 0;        /* (upipe_buffer's default: nothing fits until the application says how much) */
    ut = NULL;
    ut_ready = ut_dead = ut_events = ut_fatal = ut_error = 0;
    ut_first_event_seen = false;
    fault_fired = false;
    sim_violation_suppressed = false;
    provider_failed = false;
}

static void env_teardown(void)
{
    for (int i = 0; i < NSINK; i++)
        sink_let_go(&sinks[i]);
    for (int i = 0; i < NSINK; i++)
        if (relay[i] != NULL) {
            /* (the application's reference; the pipe under test held its own) */
            struct upipe *r = relay[i];
            relay[i] = NULL;
            upipe_release(r);
        }
    if (src_pump != NULL) {
        /* (a blocker left by a dead pipe is called back from here) */
        upump_stop(src_pump);
        upump_free(src_pump);
        src_pump = NULL;
        ueventfd_clean(&src_fd);
    }
    for (int i = 0; i < NSINK; i++) {
        if (checking() && !urefcount_single(&sinks[i].refcount))
            sim_violation(V_LEAK, "%s: sink %d is still referenced after the pipe was released", types[type].name, i);
        upipe_clean(&sinks[i].upipe);
    }
    uprobe_release(chain);
    uref_mgr_vacuum(uref_mgr);
    udict_mgr_vacuum(udict_mgr);
    ubuf_mgr_vacuum(ubuf_mgr);
    upump_mgr_vacuum(upump_mgr);
    for (int k = 0; k < K__N; k++)
        if (kind_mgr[k] != NULL) {
            ubuf_mgr_vacuum(kind_mgr[k]);
            if (checking() && !urefcount_single(kind_mgr[k]->refcount))
                sim_violation(V_REFCOUNT, "%s: a picture / sound buffer is still alive (its manager is not back to one reference)",
                              types[type].name);
            ubuf_mgr_release(kind_mgr[k]);
            kind_mgr[k] = NULL;
        }
    if (checking()) {
        if (!urefcount_single(&root_refcount))
            sim_violation(V_REFCOUNT, "%s: the probe is still referenced after the pipe was released", types[type].name);
        else if (upump_sim_mgr_live_pumps(upump_mgr) != 0)
            sim_violation(V_LEAK, "%s: %u pump(s) left in the event loop", types[type].name, upump_sim_mgr_live_pumps(upump_mgr));
        else if (!urefcount_single(uref_mgr->refcount))
            sim_violation(V_REFCOUNT, "%s: a uref is still alive (uref manager not back to one reference)", types[type].name);
        else if (!urefcount_single(ubuf_mgr->refcount))
            sim_violation(V_REFCOUNT, "%s: a buffer is still alive (ubuf manager not back to one reference)", types[type].name);
        else if (!urefcount_single(upump_mgr->refcount))
            sim_violation(V_REFCOUNT, "%s: the upump manager is still referenced", types[type].name);
        else if (!urefcount_single(uclock->refcount))
            sim_violation(V_REFCOUNT, "%s: the clock is still referenced", types[type].name);
    }
    uclock_release(uclock);
    upump_mgr_release(upump_mgr);
    uref_mgr_release(uref_mgr);
    ubuf_mgr_release(ubuf_mgr);
    udict_mgr_release(udict_mgr);
    if (checking() && umem_sim_live() != 0)
        sim_violation(V_LEAK, "%s: %u memory area(s) left", types[type].name, umem_sim_live());
    umem_mgr_release(umem);
    if (checking() && sim_alloc_live() != 0) {
        char buf[160];
        sim_alloc_describe_live(buf, sizeof(buf));
        sim_violation(V_LEAK, "%s: %u allocation(s) left after releasing everything: %s", types[type].name,
                      sim_alloc_live(), buf);
    }
    if (checking() && sim_fd_open_count() != 0)
        sim_violation(V_LEAK, "%s: %d descriptor(s) left open", types[type].name, sim_fd_open_count());
}

/* pipes whose input path dereferences an unchecked allocation result (no error
 * path: DESIGN.md 2.3): no allocation fault while they run */
static bool faults_allowed(void)
{
    static const char *const no_error_path[] = { "m3u_reader", "row_split", "row_join", "ts_align", NULL };
    for (int i = 0; no_error_path[i] != NULL; i++)
        if (!strcmp(types[type].name, no_error_path[i]))
            return false;
    return ((uint64_t)plan->cfg[CFG_FAULTS] & 1) && !twin_run;
}
/* the picture / sound filters of the second batch mostly use what they allocate
 * while processing a buffer without testing it (no error path: DESIGN.md 2.3):
 * allocations fail for them in control commands only */
static bool faults_here(const struct sim_op *op)
{
    /* (filter_format that could not duplicate a flow definition throws fatal and keeps its flow format request
     * registered without a definition to go with it: the next answer asserts in uref_dup(NULL). What a pipe does
     * after its own fatal event is not in the properties; observation in DESIGN 7.4) */
    if (!strcmp(types[type].name, "filter_format") && op->code == OP_FLOW_DEF)
        return false;
    return faults_allowed() && !((types[type].flags & F_TYPED) && op->code == OP_INPUT);
}
/* single-fault sweep: the same fault-free history is executed again and again,
 * the k-th eligible allocation of the whole execution failing, k = 1, 2, ...
 * until k is past the last one. Lifecycle and leak oracles only. */
static int sweep_k;
static void arm(const struct sim_op *op)
{
    if (sweep_k)
        return;
    int f = (int)((uint64_t)op->a[5] % 6);
    if (f && faults_here(op))
        sim_alloc_arm(f);
}
static void disarm(const struct sim_op *op)
{
    if (sweep_k)
        return;
    int f = (int)((uint64_t)op->a[5] % 6);
    if (sim_alloc_disarm() == 0 && f && faults_here(op)) {
        fault_fired = true;
        /* a failure while the pipe asks for a manager or a clock leaves the
         * request unanswered: the pipe may wait for ever, like in an
         * incomplete application */
        if (op->code != OP_INPUT)
            provider_failed = true;
        SIM_PROBE("fault_alloc_in_operation");
    }
}

static uint64_t seq;
static bool flow_def_accepted;

/* C12 over the sweep's pipe types: sink-latency requests registered on the
 * pipe under test are lodged (as they are, or through proxies) at its current
 * output, move with set_output, go away on unregister and at the latest when
 * the pipe dies; an answer given at the output reaches the requester. */
#define NAREQ 3
#define NAREQ_ALL (NAREQ + 1)          /* the last one is the harness's own probe request */
static struct areq {
    struct urequest ureq;
    bool inited, registered, travelling, is_flow_format;
    unsigned answers;
    uint64_t last;
} areqs[NAREQ_ALL];

static int areq_provide(struct urequest *ur, va_list args)
{
    struct areq *a = container_of(ur, struct areq, ureq);
    uint64_t v = 0;
    if (a->is_flow_format) {
        /* the answer is a flow format, the requester's from now on */
        struct uref *u = va_arg(args, struct uref *);
        if (u != NULL)
            uref_attr_get_unsigned(u, &v, UDICT_TYPE_UNSIGNED, "x.ans");
        uref_free(u);
    } else
        v = va_arg(args, uint64_t);
    sim_ev("req_answer", (uint64_t)(a - areqs), v);
    if (!a->registered && checking())
        sim_violation(V_REQ_AFTER_UNREGISTER, "%s: request %d answered (value %" PRIu64 ") after it was unregistered",
                      types[type].name, (int)(a - areqs), v);
    a->answers++;
    a->last = v;
    return UBASE_ERR_NONE;
}

/* filter_format is not judged under C12: added in the fourth session, its first C12 batches raised two classes
 * (request_routing after a second flow definition, request_answer for a traced flow format request) that were not
 * triaged before the session ended; until they are, nothing is claimed about its requests (DESIGN section 10) */
static bool c12_not_judged(void) { return !strcmp(types[type].name, "filter_format"); }
static void req_invariant(const char *when)
{
    if (!checking() || fault_fired || provider_failed || req_overflow || has_no_output || plan->cfg[CFG_PROP] != 12 ||
        c12_not_judged())
        return;
    /* a request seen to arrive at the output travels: it has to be at the
     * current output, whichever that is, as long as it is registered; one that
     * was answered on the spot (by a probe, for want of an output or of an inner
     * pipe; by a pipe where requests end) may or may not move later */
    unsigned lower = 0, upper = 0;
    for (int i = 0; i < NAREQ; i++)
        if (areqs[i].registered) {
            upper++;
            if (areqs[i].travelling)
                lower++;
        }
    for (int k = 0; k < NSINK; k++) {
        bool current = ut != NULL && !ut_dead && cur_out == &sinks[k].upipe;
        unsigned lo = current ? lower : 0, hi = current ? upper : 0;
        if (sinks[k].nlodged < lo || sinks[k].nlodged > hi) {
            sim_violation(V_REQ_ROUTING, "%s, %s: %u traced request(s) lodged at sink %d (%s), between %u and %u expected "
                          "(%u registered on the pipe, %u of them seen travelling)", types[type].name, when, sinks[k].nlodged, k,
                          current ? "the current output" : "not the output", lo, hi, upper, lower);
            return;
        }
    }
    SIM_PROBE("sweep_request_routing_checked");
}

#define NTYPED 8
static bool incomplete_sound_defs = true;
static struct uref *typed_def(uint64_t which, uint64_t x, int *kind_p)
{
    struct uref *fd = NULL;
    struct urational fps = { 25, 1 };
    switch (which % NTYPED) {
    case 0:
        fd = uref_pic_flow_alloc_def(uref_mgr, 1);
        if (fd != NULL) {
            uref_pic_flow_add_plane(fd, 1, 1, 1, "y8");
            uref_pic_flow_add_plane(fd, 2, 2, 1, "u8");
            uref_pic_flow_add_plane(fd, 2, 2, 1, "v8");
            /* (sometimes without its rate or its size: a definition these pipes have to refuse) */
            if (!(x & 64)) {
                uref_pic_flow_set_hsize(fd, 32);
                uref_pic_flow_set_vsize(fd, 16);
            }
            if (!(x & 32) || (x & 64))
                uref_pic_flow_set_fps(fd, fps);
            if (x & 16) uref_pic_set_progressive(fd);
        }
        *kind_p = K_PIC;
        break;
    case 1:
        fd = uref_sound_flow_alloc_def(uref_mgr, "s16.", 2, 4);
        if (fd != NULL) {
            uref_sound_flow_add_plane(fd, "lr");
            uref_sound_flow_set_rate(fd, (x & 4) ? 44100 : 48000);
            if (x & 16) uref_sound_flow_set_samples(fd, 32);
        }
        *kind_p = K_S16;
        break;
    case 2:
        fd = uref_sound_flow_alloc_def(uref_mgr, "s32.", 2, 8);
        if (fd != NULL) {
            uref_sound_flow_add_plane(fd, "lr");
            uref_sound_flow_set_rate(fd, (x & 4) ? 44100 : 48000);
        }
        *kind_p = K_S32;
        break;
    case 3:
        fd = uref_sound_flow_alloc_def(uref_mgr, "f32.", 2, 4);
        if (fd != NULL) {
            uref_sound_flow_add_plane(fd, "l");
            uref_sound_flow_add_plane(fd, "r");
            uref_sound_flow_set_rate(fd, 44100);
        }
        *kind_p = K_F32P;
        break;
    case 4:
        fd = uref_void_flow_alloc_def(uref_mgr);
        *kind_p = K_VOID;
        break;
    case 7:
        fd = uref_pic_flow_alloc_def(uref_mgr, 1);
        if (fd != NULL) {
            uref_pic_flow_add_plane(fd, 1, 1, 1, "y8");
            uref_pic_flow_add_plane(fd, 2, 1, 1, "u8");
            uref_pic_flow_add_plane(fd, 2, 1, 1, "v8");
            uref_pic_flow_set_hsize(fd, 32);
            uref_pic_flow_set_vsize(fd, 16);
            uref_pic_flow_set_fps(fd, fps);
        }
        *kind_p = K_PIC422;
        break;
    case 5:
        fd = uref_alloc(uref_mgr);
        if (fd != NULL) {
            uref_flow_set_def(fd, "block.s24be.sound.");
            uref_sound_flow_set_channels(fd, 2);
            uref_sound_flow_set_rate(fd, 48000);
        }
        *kind_p = K_S24BLOCK;
        break;
    default:
        fd = uref_alloc(uref_mgr);
        if (fd != NULL)
            uref_flow_set_def(fd, "block.");
        *kind_p = K_BLOCK;
        break;
    }
    /* (sometimes a sound definition without its rate, its channels or its
     * sample size: whoever needs them has to refuse it, and refuse it cleanly) */
    unsigned w = which % NTYPED;
    if (fd != NULL && incomplete_sound_defs && (w == 1 || w == 2 || w == 3 || w == 5)) {
        if ((x & 32) && !(x & 2))
            uref_sound_flow_delete_rate(fd);
        if ((x & 32) && (x & 2))
            uref_sound_flow_delete_channels(fd);
        if ((x & 64) && w != 5)
            uref_sound_flow_delete_sample_size(fd);
    }
    return fd;
}

/* a buffer of the kind the accepted flow definition announces */
static struct uref *typed_buffer(int kind, unsigned size, uint64_t content)
{
    struct uref *uref = NULL;
    if (kind == K_VOID)
        return uref_alloc(uref_mgr);
    if (kind == K_PIC || kind == K_PIC422) {
        uref = uref_pic_alloc(uref_mgr, kind_mgr[kind], 32, pic_rows);
        static const char *const planes[] = { "y8", "u8", "v8" };
        for (int p = 0; uref != NULL && p < 3; p++) {
            uint8_t *w;
            size_t stride = 0;
            uint8_t hsub = 1, vsub = 1;
            if (!ubase_check(uref_pic_plane_size(uref, planes[p], &stride, &hsub, &vsub, NULL)) ||
                !ubase_check(uref_pic_plane_write(uref, planes[p], 0, 0, -1, -1, &w)))
                continue;
            for (int y = 0; y < pic_rows / vsub; y++)
                for (int x = 0; x < 32 / hsub; x++)
                    w[(size_t)y * stride + (size_t)x] = (uint8_t)(content * 31 + (uint64_t)(x + y * 3 + p));
            uref_pic_plane_unmap(uref, planes[p], 0, 0, -1, -1);
        }
        return uref;
    }
    if (kind == K_S16 || kind == K_S32 || kind == K_F32P) {
        int samples = 1 + (int)(size % 96);
        uref = uref_sound_alloc(uref_mgr, kind_mgr[kind], samples);
        const char *const *planes = kind == K_F32P ? (const char *const []){ "l", "r", NULL }
                                                   : (const char *const []){ "lr", NULL };
        size_t bytes = (size_t)samples * (kind == K_S32 ? 8 : 4);
        for (int p = 0; uref != NULL && planes[p] != NULL; p++) {
            uint8_t *w;
            if (!ubase_check(uref_sound_plane_write_uint8_t(uref, planes[p], 0, -1, &w)))
                continue;
            for (size_t i = 0; i < bytes; i++)
                w[i] = (uint8_t)(content * 13 + i + (size_t)p);
            uref_sound_plane_unmap(uref, planes[p], 0, -1);
        }
        return uref;
    }
    return NULL;
}

static int genaux_get_a(struct uref *uref, uint64_t *p) { return uref_clock_get_cr_sys(uref, p); }
static int genaux_get_b(struct uref *uref, uint64_t *p) { return uref_clock_get_pts_sys(uref, p); }

/* option w of the pipe type under test: set (*v is what gets set, adjusted to
 * the option's domain) or get (*v receives the value). *what stays NULL when the
 * type has no such option. */
static int option_access(int w, bool set, uint64_t *v, const char **what)
{
    const char *name = types[type].name;
    *what = NULL;
    if (!strcmp(name, "buffer")) {
        if (w == 0) { *what = "max_size"; return set ? upipe_buffer_set_max_size(ut, *v) : upipe_buffer_get_max_size(ut, v); }
        if (w == 1) { *what = "low_limit"; return set ? upipe_buffer_set_low_limit(ut, *v) : upipe_buffer_get_low_limit(ut, v); }
        *what = "high_limit";
        return set ? upipe_buffer_set_high_limit(ut, *v) : upipe_buffer_get_high_limit(ut, v);
    }
    if (!strcmp(name, "time_limit")) {
        *what = "limit";
        return set ? upipe_time_limit_set_limit(ut, *v) : upipe_time_limit_get_limit(ut, v);
    }
    if (!strcmp(name, "rate_limit")) {
        if (w == 0) { *what = "limit"; return set ? upipe_rate_limit_set_limit(ut, *v) : upipe_rate_limit_get_limit(ut, v); }
        *what = "duration";
        if (set && *v == 0)
            *v = 1;
        return set ? upipe_rate_limit_set_duration(ut, *v) : upipe_rate_limit_get_duration(ut, v);
    }
    if (!strcmp(name, "skip")) {
        *what = "offset";
        if (set) {
            *v %= 256;
            return upipe_skip_set_offset(ut, (size_t)*v);
        }
        size_t o = 0;
        int err = upipe_skip_get_offset(ut, &o);
        *v = o;
        return err;
    }
    if (!strcmp(name, "delay")) {
        *what = "delay";
        if (set)
            return upipe_delay_set_delay(ut, (int64_t)*v);
        int64_t d = 0;
        int err = upipe_delay_get_delay(ut, &d);
        *v = (uint64_t)d;
        return err;
    }
    if (!strcmp(name, "setrap")) {
        *what = "rap";
        return set ? upipe_setrap_set_rap(ut, *v) : upipe_setrap_get_rap(ut, v);
    }
    if (!strcmp(name, "aggregate")) {
        *what = "output_size";
        if (set)
            return upipe_set_output_size(ut, (unsigned int)*v);
        unsigned int u = 0;
        int err = upipe_get_output_size(ut, &u);
        *v = u;
        return err;
    }
    if (!strcmp(name, "chunk_stream")) {
        unsigned int align = w == 0 ? 1 : 4;
        *what = w == 0 ? "mtu (alignment 1)" : "mtu (alignment 4)";
        if (set)
            return upipe_chunk_stream_set_mtu(ut, (unsigned int)*v, align);
        unsigned int m = 0, a = 0;
        int err = upipe_chunk_stream_get_mtu(ut, &m, &a);
        *v = m;
        return err;
    }
    if (!strcmp(name, "genaux")) {
        *what = "getattr";
        if (set) {
            *v &= 1;
            return upipe_genaux_set_getattr(ut, *v ? genaux_get_b : genaux_get_a);
        }
        int (*g)(struct uref *, uint64_t *) = NULL;
        int err = upipe_genaux_get_getattr(ut, &g);
        *v = g == genaux_get_b ? 1 : g == genaux_get_a ? 0 : 2;
        return err;
    }
    return UBASE_ERR_UNHANDLED;
}

static void answer_parked(void);
static void do_op_inner(const struct sim_op *op)
{
    sim_ev(op_name(op->code), (uint64_t)op->a[0], (uint64_t)op->a[1]);
    if (ut == NULL)
        return;
    switch (op->code) {
    case OP_FLOW_DEF: {
        const char *def = defs[(uint64_t)op->a[0] % NDEFS];
        uint64_t x = (uint64_t)op->a[1];
        int kind = K_BLOCK;
        if (sweep_k)
            sim_alloc_suspend();        /* (the harness's own allocations do not fail) */
        /* (upipe_audio_copy reframes: the format it was allocated with has to be
         * the one of its input - it copies with the input's sample size into
         * buffers of the output's and does not compare them) */
        uint64_t which_def = !strcmp(types[type].name, "audio_copy") ? alloc_which : (uint64_t)op->a[0];
        struct uref *fd = (types[type].flags & F_TYPED) ? typed_def(which_def, x, &kind) : uref_alloc(uref_mgr);
        if (fd == NULL)
            break;
        if (!(types[type].flags & F_TYPED))
            uref_flow_set_def(fd, def);
        if (x & 1) uref_block_flow_set_octetrate(fd, 1000 + x % 100000);
        if (x & 2) uref_clock_set_latency(fd, x % 27000000);
        if (x & 4) uref_flow_set_id(fd, x % 100);
        static const uint64_t fsizes[] = { 188, 16, 1500, 70 };
        if (x & 8) uref_block_flow_set_size(fd, fsizes[(x >> 4) & 3]);
        /* (what upipe_ts_tstd needs besides the octet rate) */
        if ((x & 16) && !(types[type].flags & F_TYPED)) uref_block_flow_set_buffer_size(fd, 500 + (x % 7) * 300);
        if (sweep_k)
            sim_alloc_resume();
        if (mode == MODE_TWIN && rejected[cur_op]) {
            /* the pipe said no to this one: the twin is not even asked */
            uref_free(fd);
            break;
        }
        unsigned n0 = ntrace[mode];
        uint64_t fdh = dict_hash(fd);
        arm(op);
        int err = upipe_set_flow_def(ut, fd);
        disarm(op);
        uref_free(fd);
        if (ubase_check(err) && (fd_epoch == 0 || fdh != fd_epoch_hash)) {
            fd_epoch++;
            fd_epoch_hash = fdh;
        }
        if (mode == MODE_PRIMARY)
            rejected[cur_op] = !ubase_check(err);
        if (!ubase_check(err))
            trace_forget_events_since(n0);
        if (held_while_waiting)
            flow_defs_behind_held++;
        if (ubase_check(err)) {
            opt_model_forget();
            flow_def_accepted = true;
            cur_kind = kind;
            SIM_PROBE("sweep_flow_def_accepted");
        } else
            SIM_PROBE("sweep_flow_def_refused");
        break;
    }
    case OP_INPUT: {
        /* the framework's contract: no data before the pipe accepted a flow
         * definition */
        if (!flow_def_accepted)
            break;
        /* (second batch: a pipe whose request for a manager failed inside the
         * provider asserts on the first buffer; incomplete application) */
        if ((types[type].flags & F_TYPED) && provider_failed && !typed_but_patient())
            break;
        unsigned burst = 1 + (unsigned)((uint64_t)op->a[3] % 4);
        for (unsigned k = 0; k < burst && ut != NULL; k++) {
            unsigned size = (unsigned)((uint64_t)(op->a[0] + k) % 200);
            if (!strncmp(types[type].name, "ts_", 3) && ((uint64_t)op->a[0] & 3))
                size = 188;
            /* (upipe_rtp_h264_input declares a variable-length array of the
             * buffer's size: an empty buffer is undefined behaviour there; no
             * property is about that, empty buffers are kept away from it) */
            if (size == 0 && !strncmp(types[type].name, "rtp_", 4))
                size = 1;
            if (sweep_k)
                sim_alloc_suspend();
            bool blocks = cur_kind == K_BLOCK || cur_kind == K_S24BLOCK;
            if (cur_kind == K_S24BLOCK)
                size = size / 6 * 6;        /* whole 24-bit stereo samples */
            struct uref *uref = blocks ? uref_block_alloc(uref_mgr, ubuf_mgr, (int)size)
                                       : typed_buffer(cur_kind, size, (uint64_t)op->a[2] + k);
            if (uref == NULL) {
                if (sweep_k)
                    sim_alloc_resume();
                break;
            }
            if (!blocks)
                SIM_PROBE("sweep_typed_buffer_input");
            /* pictures cut into rows (row_split's output, row_join's input) */
            /* (upipe_row_join dereferences the picture under construction
             * without a test: a stream that starts in the middle of a picture, or
             * rows that do not follow each other, crash it. No property is about
             * that: it gets rows of 4 lines, top row first, in sequence) */
            if (cur_kind == K_PIC && !strcmp(types[type].name, "row_join"))
                uref_pic_set_vposition(uref, (row_seq++ % 4) * 4);
            else if (cur_kind == K_PIC && ((uint64_t)op->a[2] & 8))
                uref_pic_set_vposition(uref, (((uint64_t)op->a[2] >> 4) & 3) * 4);
            if (size && blocks) {
                uint8_t *w;
                int s = -1;
                if (ubase_check(uref_block_write(uref, 0, &s, &w))) {
                    for (int i = 0; i < s; i++)
                        w[i] = (uint8_t)((uint64_t)op->a[2] * 31 + (uint64_t)i * 7 + seq);
                    /* things parsers look for */
                    /* (upipe_rtp_pcm_unpack shifts an octet promoted to int by 24:
                     * undefined for octets above 0x7f, harmless everywhere, outside
                     * every property: such octets are not generated for it) */
                    if (cur_kind == K_S24BLOCK)
                        for (int i = 0; i < s; i++)
                            w[i] &= 0x7f;
                    if (s > 8 && ((uint64_t)op->a[2] & 1)) { w[0] = 0x47; }
                    if (s > 8 && ((uint64_t)op->a[2] & 2)) memcpy(w, "#EXTM3U\n", 8);
                    /* transport stream pipes: mostly whole packets of four PIDs */
                    if (!strncmp(types[type].name, "ts_", 3) && s >= 4) {
                        unsigned pid = 0x100 + (unsigned)(((uint64_t)op->a[2] + k) % 4);
                        w[0] = 0x47;
                        w[1] = (uint8_t)((pid >> 8) & 0x1f);
                        w[2] = (uint8_t)pid;
                        w[3] = (uint8_t)(0x10 | (seq & 0xf));
                    }
                    uref_block_unmap(uref, 0);
                }
            }
            uint64_t x = (uint64_t)op->a[1];
            uint64_t now = sim_now();
            if (x & 1) uref_clock_set_cr_sys(uref, now + x % 100000);
            if (x & 2) uref_clock_set_cr_prog(uref, 27000000 + seq * 900);
            if (x & 4) uref_clock_set_cr_dts_delay(uref, x % 27000);
            if (x & 8) uref_clock_set_dts_pts_delay(uref, x % 9000);
            if (x & 16) uref_clock_set_duration(uref, 1 + x % 27000);
            if (x & 32) uref_flow_set_discontinuity(uref);
            if (x & 64) uref_flow_set_random(uref);
            if (x & 128) uref_block_set_start(uref);
            if (x & 256) uref_clock_set_pts_sys(uref, now + x % 50000);
            uint64_t my = seq < MAXSEQ ? seq : MAXSEQ - 1;
            uref_attr_set_unsigned(uref, my, UDICT_TYPE_UNSIGNED, "x.seq");
            sent_rec[my].hash = payload_hash(uref, &sent_rec[my].size);
            sent_rec[my].arrived = false;
            sent_rec[my].epoch = fd_epoch;
            seq++;
            if (provider_failed)
                held_while_waiting = true;
            if (sent_rec[my].size > largest_input)
                largest_input = sent_rec[my].size;
            if (!strcmp(types[type].name, "buffer") && sent_rec[my].size > buffer_max_size)
                complete_tainted = true;        /* (never fits: kept for ever, by design) */
            if (sweep_k)
                sim_alloc_resume();
            arm(op);
            upipe_input(ut, uref, ((uint64_t)op->a[2] & 4) && src_pump != NULL ? &src_pump : NULL);
            disarm(op);
            /* ts_pid_filter against its model: a packet passes, at once, iff its
             * PID is enabled */
            if (!strcmp(types[type].name, "ts_pid_filter") && plan->cfg[CFG_PROP] == 5 && checking() && !fault_fired &&
                !any_refusal && cur_out != NULL && ut != NULL && seq <= MAXSEQ && sent_rec[my].size >= 4 &&
                cur_kind == K_BLOCK && !sink_blocked_ever) {
                bool on = pid_enabled[((uint64_t)op->a[2] + k) % 4];
                if (on && !sent_rec[my].arrived)
                    sim_violation(V_LOST, "ts_pid_filter: packet %" PRIu64 " of the enabled PID 0x%x did not come out", my,
                                  0x100 + (unsigned)(((uint64_t)op->a[2] + k) % 4));
                else if (!on && sent_rec[my].arrived)
                    sim_violation(V_PID_FILTER, "ts_pid_filter: packet %" PRIu64 " of PID 0x%x came out, that PID is not enabled", my,
                                  0x100 + (unsigned)(((uint64_t)op->a[2] + k) % 4));
                else
                    SIM_PROBE(on ? "sweep_pid_filter_passed" : "sweep_pid_filter_dropped");
            }
            /* an immediate pass-through pipe with a consenting output has
             * nothing to keep */
            if (plan->cfg[CFG_PROP] == 5 && (types[type].flags & F_IMMEDIATE) && checking() && !fault_fired &&
                !any_refusal && cur_out != NULL && ut != NULL && seq <= MAXSEQ && !sent_rec[my].arrived)
                sim_violation(V_LOST, "%s: buffer %" PRIu64 " (%u octets) went in and did not come out although its output "
                              "accepted the flow definition", types[type].name, my, sent_rec[my].size);
        }
        break;
    }
    case OP_RUN:
        answer_parked();
        upump_sim_mgr_set_budget(upump_mgr, 1 + (uint64_t)op->a[0] % 16);
        upump_mgr_run(upump_mgr, NULL);
        break;
    case OP_ADVANCE:
        sim_advance(1 + (uint64_t)op->a[0] % 27000000);
        break;
    case OP_FLUSH:
        complete_tainted = true;
        upipe_flush(ut);
        break;
    case OP_SET_OUTPUT: {
        int w = (int)((uint64_t)op->a[0] % 3);
        struct upipe *out = w == 0 ? NULL : &sinks[w - 1].upipe;
        if (out != NULL && relay[w - 1] == NULL)
            sinks[w - 1].accepted = false;     /* has to negotiate again */
        complete_tainted = true;
        if (ubase_check(upipe_set_output(ut, w == 0 ? NULL : out_of(w - 1))))
            cur_out = out;
        else
            has_no_output = true;       /* (a sink, or an allocation failed) */
        break;
    }
    case OP_SINK_MODE:
        sinks[(uint64_t)op->a[0] % NSINK].refuse = ((uint64_t)op->a[1] & 1) != 0;
        if ((uint64_t)op->a[1] & 1)
            any_refusal = true;
        break;
    case OP_SINK_BLOCK: {
        struct sink *sk = &sinks[(uint64_t)op->a[0] % NSINK];
        if ((uint64_t)op->a[1] & 1) {
            sk->blocking = true;
            sink_blocked_ever = true;
        } else
            sink_let_go(sk);
        break;
    }
    case OP_ATTACH:
        /* (upipe_buffer drops its idler on a new event loop and only makes
         * another one when the next buffer comes in: what it kept waits for
         * that. Kept, not lost - the property does not say when; not judged) */
        if (((uint64_t)op->a[0] & 1) && seq && !strcmp(types[type].name, "buffer"))
            complete_tainted = true;
        if ((uint64_t)op->a[0] & 1) upipe_attach_upump_mgr(ut);
        if ((uint64_t)op->a[0] & 2) upipe_attach_uclock(ut);
        break;
    case OP_OPTION: {
        /* the options these pipes have, with their getters (C20's first
         * clause rides along: what was accepted must read back) */
        static const uint64_t vals[] = { 0, 1, 8, 64, 200, 1000, 27000, 27000000 };
        uint64_t v = vals[(uint64_t)op->a[1] % 8], got;
        int w = (int)((uint64_t)op->a[0] % 3);
        const char *name = types[type].name, *what = NULL;
        if (mode == MODE_TWIN && rejected[cur_op])
            break;
        if (!strcmp(name, "audio_blank") || !strcmp(name, "video_blank") || !strcmp(name, "blank_source")) {
            /* the reference sound / picture these pipes repeat (it becomes theirs) */
            int kind = !strcmp(name, "audio_blank") ? K_S16 : !strcmp(name, "video_blank") ? K_PIC :
                       ((uint64_t)op->a[1] & 1) ? K_PIC : K_S16;
            struct uref *ref = kind_mgr[kind] != NULL ? typed_buffer(kind, (unsigned)((uint64_t)op->a[1] * 13 % 200), (uint64_t)op->a[1]) : NULL;
            if (ref == NULL)
                break;
            SIM_PROBE("sweep_reference_buffer_given");
            if (!strcmp(name, "audio_blank"))
                upipe_ablk_set_sound(ut, ref);
            else if (!strcmp(name, "video_blank"))
                upipe_vblk_set_pic(ut, ref);
            else
                upipe_input(ut, ref, NULL);
            break;
        }
        if (!strcmp(name, "ts_pid_filter")) {
            unsigned k = (unsigned)((uint64_t)op->a[1] % 4);
            int perr = w == 0 ? upipe_ts_pidf_del_pid(ut, (uint16_t)(0x100 + k)) : upipe_ts_pidf_add_pid(ut, (uint16_t)(0x100 + k));
            if (ubase_check(perr))
                pid_enabled[k] = w != 0;
            if (mode == MODE_PRIMARY)
                rejected[cur_op] = !ubase_check(perr);
            break;
        }
        unsigned n0 = ntrace[mode];
        int err = option_access(w, true, &v, &what);
        if (what == NULL)
            break;
        if (mode == MODE_PRIMARY)
            rejected[cur_op] = !ubase_check(err);
        if (!ubase_check(err))
            trace_forget_events_since(n0);
        if (mode == MODE_PRIMARY) {
            /* (only upipe_buffer has three options that do not share storage) */
            if (strcmp(name, "buffer") || !ubase_check(err))
                opt_model_forget();
            if (ubase_check(err) && w < 3) {
                opt_model[w].valid = true;
                opt_model[w].v = v;
                opt_model[w].what = what;
            }
        }
        if (ubase_check(err) && !strcmp(name, "buffer") && w == 0) {
            buffer_max_size = v;
            if (v < largest_input)
                complete_tainted = true;
        }
        SIM_PROBE("sweep_option_set");
        if (!ubase_check(err))
            SIM_PROBE("sweep_option_rejected");
        if (mode != MODE_PRIMARY)
            break;              /* (the read-back is a getter) */
        got = ~v;
        n0 = ntrace[mode];
        int gerr = option_access(w, false, &got, &what);
        trace_forget_events_since(n0);
        if (ubase_check(err) && checking() && (!ubase_check(gerr) || got != v))
            sim_violation(V_GETTER, "%s: %s set to %" PRIu64 " (accepted), the getter %s %" PRIu64, name, what, v,
                          ubase_check(gerr) ? "reports" : "fails; it left", got);
        break;
    }
    case OP_GETTER: {
        if (mode != MODE_PRIMARY)
            break;
        SIM_PROBE("sweep_getters_called");
        unsigned n0 = ntrace[mode];
        struct uref *fd = NULL;
        struct upipe *out = NULL;
        unsigned int usize = 0, ulen = 0;
        const char *str = NULL;
        upipe_get_flow_def(ut, &fd);
        upipe_get_output(ut, &out);
        upipe_get_output_size(ut, &usize);
        upipe_get_max_length(ut, &ulen);
        upipe_get_uri(ut, &str);
        upipe_get_option(ut, "x", &str);
        /* (not after a set_output that returned an error: commands that end with
         * the pipe's own check report the check's error although the output was
         * set - which one is current is then not known to the application) */
        if (cur_out != NULL && out == out_of((int)(container_of(cur_out, struct sink, upipe) - sinks)))
            out = cur_out;
        if (checking() && out != cur_out && out != NULL && cur_out != NULL && !has_no_output)
            sim_violation(V_GETTER, "%s: get_output does not report the output that was set", types[type].name);
        for (int w = 0; w < 3; w++) {
            uint64_t got = 0;
            const char *what = NULL;
            int gerr = option_access(w, false, &got, &what);
            if (what == NULL || !opt_model[w].valid || !checking() || provider_failed || sim_alloc_failed())
                continue;
            SIM_PROBE("sweep_option_read_back_later");
            if (!ubase_check(gerr) || got != opt_model[w].v)
                sim_violation(V_GETTER, "%s: %s was set to %" PRIu64 " (accepted, no setter called since), the getter now %s %" PRIu64,
                              types[type].name, opt_model[w].what, opt_model[w].v, ubase_check(gerr) ? "reports" : "fails; it left", got);
        }
        trace_forget_events_since(n0);
        break;
    }
    case OP_REQ_REGISTER: {
        struct areq *a = &areqs[(uint64_t)op->a[0] % NAREQ];
        if (a->registered)
            break;
        if (a->inited)
            urequest_clean(&a->ureq);
        unsigned lodged_before = 0;
        for (int k = 0; k < NSINK; k++)
            lodged_before += sinks[k].nlodged;
        a->is_flow_format = ((uint64_t)op->a[1] & 1) != 0;
        if (a->is_flow_format) {
            /* a flow format the requester would like (marked, so that the sinks
             * tell it from what the pipe asks on its own account) */
            struct uref *ff = uref_alloc(uref_mgr);
            if (ff == NULL)
                break;
            uref_flow_set_def(ff, "block.");
            uref_attr_set_unsigned(ff, 1 + (uint64_t)op->a[0] % NAREQ, UDICT_TYPE_UNSIGNED, "x.tracer");
            urequest_init_flow_format(&a->ureq, ff, areq_provide, NULL);
        } else
            urequest_init_sink_latency(&a->ureq, areq_provide, NULL);
        a->inited = true;
        a->answers = 0;
        a->registered = true;           /* (an answer may come from inside the call) */
        unsigned before = a->answers;
        arm(op);
        int err = upipe_register_request(ut, &a->ureq);
        disarm(op);
        if (!ubase_check(err)) {
            /* the pipe does not take requests (or an allocation failed): the
             * requester withdraws it, as the framework's own pipes do */
            upipe_unregister_request(ut, &a->ureq);
            a->registered = false;
            SIM_PROBE("sweep_request_refused");
            break;
        }
        unsigned lodged_after = 0;
        for (int k = 0; k < NSINK; k++)
            lodged_after += sinks[k].nlodged;
        a->travelling = lodged_after == lodged_before + 1;
        (void)before;
        SIM_PROBE(a->travelling ? "sweep_request_travels" : "sweep_request_answered_on_the_spot");
        break;
    }
    case OP_REQ_UNREGISTER: {
        struct areq *a = &areqs[(uint64_t)op->a[0] % NAREQ];
        if (!a->registered)
            break;
        upipe_unregister_request(ut, &a->ureq);
        a->registered = false;
        SIM_PROBE("sweep_request_unregistered");
        break;
    }
    case OP_REQ_PROVIDE: {
        struct sink *sk = &sinks[(uint64_t)op->a[0] % NSINK];
        uint64_t v = 1000 + (uint64_t)op->a[1] % 100000;
        unsigned before[NAREQ];
        for (int i = 0; i < NAREQ; i++)
            before[i] = areqs[i].answers;
        unsigned n = sk->nlodged;
        struct urequest *snapshot[8];
        memcpy(snapshot, sk->lodged, sizeof(snapshot));
        for (unsigned k = 0; k < n; k++) {
            /* (still lodged? an answer may make the requester unregister) */
            bool still = false;
            for (unsigned j = 0; j < sk->nlodged; j++)
                still = still || sk->lodged[j] == snapshot[k];
            if (!still)
                continue;
            if (snapshot[k]->type == UREQUEST_SINK_LATENCY)
                urequest_provide_sink_latency(snapshot[k], v);
            else {
                struct uref *ans = snapshot[k]->uref != NULL ? uref_dup(snapshot[k]->uref) : NULL;
                if (ans != NULL) {
                    uref_attr_set_unsigned(ans, v, UDICT_TYPE_UNSIGNED, "x.ans");
                    urequest_provide_flow_format(snapshot[k], ans);
                }
            }
        }
        if (n && checking() && !fault_fired && !provider_failed && plan->cfg[CFG_PROP] == 12 && ut != NULL &&
            cur_out == &sk->upipe && !c12_not_judged())
            for (int i = 0; i < NAREQ; i++)
                if (areqs[i].registered && areqs[i].travelling &&
                    (areqs[i].answers != before[i] + 1 || areqs[i].last != v)) {
                    sim_violation(V_REQ_ANSWER, "%s: the output answered %" PRIu64 " to the requests lodged with it, request %d "
                                  "was called back %u time(s) (last value %" PRIu64 ")", types[type].name, v, i,
                                  areqs[i].answers - before[i], areqs[i].last);
                    break;
                }
        if (n)
            SIM_PROBE("sweep_request_answered_by_output");
        break;
    }
    case OP_RELEASE: {
        complete_tainted = true;
        /* the application lets go of its requests first, as a pipe would */
        for (int i = 0; i < NAREQ; i++)
            if (areqs[i].registered) {
                upipe_unregister_request(ut, &areqs[i].ureq);
                areqs[i].registered = false;
            }
        struct upipe *p = ut;
        ut = NULL;
        upipe_release(p);
        break;
    }
    default:
        break;
    }
}

/* (single-fault sweep over the second batch: like the sampled faults, the swept
 * one never falls inside input or a loop run of these pipes) */
static void do_op(const struct sim_op *op)
{
    bool shield = sweep_k && (types[type].flags & F_TYPED) && (op->code == OP_INPUT || op->code == OP_RUN);
    if (shield)
        sim_alloc_suspend();
    do_op_inner(op);
    if (shield)
        sim_alloc_resume();
}

/* C12, "every still-registered request is re-issued to the new output", for the
 * requests that were registered while the pipe had no output (or no inner pipe)
 * and were therefore never seen travelling: at the end of the history the
 * harness registers one more request of that type; if that one arrives at the
 * output, this pipe forwards the type, and every request of the type still
 * registered has to be lodged there as well. */
static unsigned lodged_of(struct sink *sk, bool flow_format)
{
    unsigned n = 0;
    for (unsigned k = 0; k < sk->nlodged; k++)
        if ((sk->lodged[k]->type == UREQUEST_FLOW_FORMAT) == flow_format)
            n++;
    return n;
}
static void req_final_probe(void)
{
    if (plan->cfg[CFG_PROP] != 12 || fault_fired || provider_failed || req_overflow || has_no_output || cur_out == NULL ||
        ut == NULL || ut_dead || c12_not_judged())
        return;
    struct sink *sk = container_of(cur_out, struct sink, upipe);
    for (int ff = 0; ff < 2; ff++) {
        unsigned registered = 0;
        for (int i = 0; i < NAREQ; i++)
            if (areqs[i].registered && areqs[i].is_flow_format == (ff != 0))
                registered++;
        if (registered == 0 || sk->nlodged + 1 > 8)
            continue;
        struct areq *p = &areqs[NAREQ];
        if (p->inited) {
            p->ureq.registered = false;
            urequest_clean(&p->ureq);
            p->inited = false;
        }
        p->is_flow_format = ff != 0;
        if (ff) {
            struct uref *f = uref_alloc(uref_mgr);
            if (f == NULL)
                continue;
            uref_flow_set_def(f, "block.");
            uref_attr_set_unsigned(f, 99, UDICT_TYPE_UNSIGNED, "x.tracer");
            urequest_init_flow_format(&p->ureq, f, areq_provide, NULL);
        } else
            urequest_init_sink_latency(&p->ureq, areq_provide, NULL);
        p->inited = true;
        p->registered = true;
        unsigned before = lodged_of(sk, ff != 0);
        int err = upipe_register_request(ut, &p->ureq);
        unsigned after = lodged_of(sk, ff != 0);
        bool forwards = ubase_check(err) && after == before + 1;
        if (forwards && checking() && after != registered + 1)
            sim_violation(V_REQ_ROUTING, "%s forwards %s requests to its output (a fresh one arrived there), and of the %u "
                          "registered on it earlier only %u are lodged there: a request registered before the output "
                          "was connected was not re-issued", types[type].name, ff ? "flow format" : "sink latency",
                          registered, before);
        else if (forwards)
            SIM_PROBE("sweep_request_final_probe_forwarded");
        upipe_unregister_request(ut, &p->ureq);
        p->registered = false;
    }
}

/* C05, last clause but one: what a pipe keeps for later comes out once its
 * output takes data again, the loop runs and time passes. Judged only on
 * histories in which nothing may legitimately drop or keep a buffer. */
/* the outputs answer the flow format requests they parked */
static void answer_parked(void)
{
    for (int i = 0; i < NSINK; i++) {
        struct sink *s = &sinks[i];
        while (s->nparked) {
            struct urequest *rq = s->parked[--s->nparked];
            struct uref *ans = rq->uref != NULL ? uref_dup(rq->uref) : NULL;
            if (ans == NULL) {
                provider_failed = true;
                continue;
            }
            SIM_PROBE("sweep_flow_format_answered_later");
            urequest_provide_flow_format(rq, ans);
        }
    }
}

static void drain(void)
{
    answer_parked();
    bool complete_env = (provide() & 31) == 31;
    if (!(types[type].flags & F_COMPLETE) || complete_tainted || any_refusal || fault_fired || provider_failed ||
        !complete_env || cur_out == NULL || seq > MAXSEQ || ut_fatal || ut_error || ff_in_limbo)
        return;
    for (int i = 0; i < NSINK; i++)
        sink_let_go(&sinks[i]);
    uint64_t missing = 0;
    for (int round = 0; round < 600 && ut != NULL; round++) {
        missing = 0;
        for (uint64_t q = 0; q < seq; q++)
            if (!sent_rec[q].arrived)
                missing++;
        if (!missing && (src_pump == NULL || upump_sim_active(src_pump)))
            break;
        upump_sim_mgr_set_budget(upump_mgr, 24);
        upump_mgr_run(upump_mgr, NULL);
        sim_advance(27000001);
    }
    if (ut == NULL || !checking())
        return;
    SIM_PROBE("sweep_drained_before_release");
    if (missing) {
        uint64_t first = 0;
        while (first < seq && sent_rec[first].arrived)
            first++;
        sim_violation(V_INCOMPLETE, "%s: %" PRIu64 " of %" PRIu64 " buffer(s) never came out (first: buffer %" PRIu64 ", %u octets) although "
                      "the output takes everything, the loop ran dry and %s", types[type].name, missing, seq, first,
                      sent_rec[first].size, "the clock went far ahead");
    } else if (src_pump != NULL && !upump_sim_active(src_pump))
        sim_violation(V_SRC_BLOCKED, "%s: everything was delivered and the pump of the source is still blocked", types[type].name);
}

static bool run_once(void)
{
    seq = 0;
    flow_def_accepted = false;
    memset(sent_rec, 0, sizeof(sent_rec));
    fd_epoch = 0;
    fd_epoch_hash = 0;
    any_arrived = any_refusal = false;
    last_arrived_seq = 0;
    cur_out = NULL;
    held_while_waiting = false;
    flow_defs_behind_held = 0;
    for (int i = 0; i < NAREQ_ALL; i++) {
        if (areqs[i].inited) {
            /* (left registered by a run that was abandoned, or whose pipe
             * died under the application's feet: nothing of it survives) */
            areqs[i].ureq.registered = false;
            urequest_clean(&areqs[i].ureq);
        }
        memset(&areqs[i], 0, sizeof(areqs[i]));
    }
    req_overflow = false;
    if (setjmp(run_abort)) {
        sim_alloc_disarm();
        sim_mark_nontrivial();
        return false;
    }
    env_setup();
    if (sweep_k) {
        fault_fired = true;             /* (data oracles off from the start) */
        sim_alloc_arm(sweep_k);
    }
    struct upipe_mgr *mgr = types[type].mgr_alloc();
    ut_alloc = NULL;
    allocating = true;
    if (mgr != NULL && (types[type].flags & F_FLOW_ALLOC)) {
        int kind;
        /* three times out of four the kind of flow definition the type is made for */
        static const struct { const char *name; int which; } hints[] = {
            { "audio_blank", 1 }, { "audio_copy", 1 }, { "block_to_sound", 2 }, { "video_blank", 0 }, { "row_split", 0 },
            { "audio_bar", 0 }, { "audio_graph", 0 }, { "void_source", 4 }, { "zoneplate", 0 }, { "blank_source", 0 },
            { "zoneplate_source", 0 }, { "filter_format", 0 }, { NULL, 0 } };
        uint64_t which = (uint64_t)plan->cfg[CFG_ALLOCDEF];
        if ((which >> 4) & 3)
            for (int i = 0; hints[i].name != NULL; i++)
                if (!strcmp(hints[i].name, types[type].name))
                    which = (which & ~(uint64_t)7) | (uint64_t)hints[i].which;
        /* (filter_format asked for sound allocates a swresample pipe from a manager the application never gave it) */
        if (!strcmp(types[type].name, "filter_format"))
            which = (which & ~(uint64_t)7) | (((which >> 8) & 1) ? 7 : 0);
        alloc_which = which & 7;
        /* (allocated with a picture definition without its size: audio_bar /
         * audio_graph keep what they are given while they wait for a downstream
         * pipe to say how large the picture is; nobody will: incomplete) */
        incomplete_alloc_def = (which & 512) != 0 && (which & 7) % NTYPED % 7 == 0;
        if (sweep_k)
            sim_alloc_suspend();
        struct uref *fd = typed_def(which & 7, (which >> 3) | ((which & 64) ? 16 : 0), &kind);
        if (sweep_k)
            sim_alloc_resume();
        ut = fd != NULL ? upipe_flow_alloc(mgr, uprobe_use(chain), fd) : NULL;
        uref_free(fd);
    } else
        ut = mgr ? upipe_void_alloc(mgr, uprobe_use(chain)) : NULL;
    allocating = false;
    upipe_mgr_release(mgr);
    if (ut == NULL) {
        /* (some managers need more than a void allocator: nothing to sweep) */
        SIM_PROBE("sweep_void_alloc_refused");
    } else {
        /* events thrown from inside the allocator are attributed afterwards */
        sinks[0].accepted = false;
        cur_out = NULL;
        has_no_output = false;
        if (ubase_check(upipe_set_output(ut, out_of(0))))
            cur_out = &sinks[0].upipe;
        else
            has_no_output = true;
        for (int i = 0; i < plan->nops && checking(); i++) {
            cur_op = i;
            do_op(&plan->ops[i]);
            if (sweep_k && sim_alloc_failed())
                provider_failed = true;         /* (what failed may have been the answer to a request) */
            req_invariant(op_name(plan->ops[i].code));
        }
        if (ut != NULL && checking())
            req_final_probe();
        if (ut != NULL)
            for (int i = 0; i < NAREQ_ALL; i++)
                if (areqs[i].registered) {
                    upipe_unregister_request(ut, &areqs[i].ureq);
                    areqs[i].registered = false;
                }
        if (ut != NULL && checking() && plan->cfg[CFG_PROP] == 5)
            drain();
        if (ut != NULL) {
            struct upipe *p = ut;
            ut = NULL;
            upipe_release(p);
        }
        /* (the outputs answer what they parked: a pipe that waits for its flow
         * format keeps itself until then) */
        answer_parked();
        /* pipes that keep themselves alive until their pumps are done */
        if (sweep_k && (types[type].flags & F_TYPED))
            sim_alloc_suspend();
        upump_sim_mgr_set_budget(upump_mgr, 64);
        upump_mgr_run(upump_mgr, NULL);
        if (sweep_k && (types[type].flags & F_TYPED))
            sim_alloc_resume();
        bool complete_env = (provide() & 31) == 31;
        if (sweep_k && sim_alloc_failed())
            provider_failed = true;     /* (what failed may have been the answer to a request) */
        if (checking() && ut_ready != 1)
            sim_violation(V_READY_ORDER, "%s threw ready %u times", types[type].name, ut_ready);
        else if (checking() && ut_dead > 1)
            sim_violation(V_DEAD, "%s threw dead %u times", types[type].name, ut_dead);
        else if ((!complete_env || provider_failed || incomplete_alloc_def || ff_in_limbo) && ut_dead == 0) {
            /* a pipe may keep itself (and what it holds) alive while it waits
             * for a manager, a clock or an event loop nobody provides: the
             * application is incomplete, nothing is decided about leaks */
            SIM_PROBE("sweep_incomplete_environment_pipe_waits");
            sim_violation_suppressed = true;
        } else if (checking() && ut_dead != 1)
            sim_violation(V_DEAD, "%s threw dead %u times after its last reference was released and the loop ran dry",
                          types[type].name, ut_dead);
    }
    for (int i = 0; i < NAREQ_ALL; i++)
        if (areqs[i].inited) {
            areqs[i].ureq.registered = false;
            urequest_clean(&areqs[i].ureq);     /* (frees the flow format it carries) */
            areqs[i].inited = false;
        }
    if (checking() && ut_dead == 1 && !req_overflow)
        for (int k = 0; k < NSINK; k++)
            if (sinks[k].nlodged != 0) {
                sim_violation(V_REQ_ROUTING, "%s is dead and %u traced request(s) are still lodged at sink %d",
                              types[type].name, sinks[k].nlodged, k);
                break;
            }
    env_teardown();
    sim_mark_nontrivial();
    sim_sig_add(1, sim_mix((uint64_t)type, sim_mix(sinks[0].inputs, sim_mix(sinks[0].flow_defs, ut_events))));
    return true;
}

static bool same_trace(int a, int b, unsigned *at)
{
    unsigned n = ntrace[a] < ntrace[b] ? ntrace[a] : ntrace[b];
    for (unsigned i = 0; i < n; i++)
        if (trace[a][i] != trace[b][i] || trace_what[a][i] != trace_what[b][i]) {
            *at = i;
            return false;
        }
    *at = n;
    return ntrace[a] == ntrace[b];
}
static const char *trace_word(int m, unsigned at)
{
    static char buf[2][48];
    static int flip;
    if (at >= ntrace[m])
        return "nothing more";
    if (trace_what[m][at] == 'd')
        return "a buffer to its output";
    if (trace_what[m][at] == 'f')
        return "a flow definition to its output";
    flip ^= 1;
    snprintf(buf[flip], sizeof(buf[flip]), "event %s", uprobe_event_str((int)trace[m][at]) ? uprobe_event_str((int)trace[m][at]) : "(local)");
    return buf[flip];
}

static void run(const char *pr, const struct sim_plan *pl)
{
    plan = pl;
    type = (int)((uint64_t)plan->cfg[CFG_TYPE] % NTYPES);
    /* (development only, never set by tools/check.py: every run drives one type) */
    const char *only = getenv("ESWEEP_ONLY");
    for (int i = 0; only != NULL && i < NTYPES; i++)
        if (!strcmp(types[i].name, only))
            type = i;
    twin_run = plan->cfg[CFG_PROP] == 20 && ((uint64_t)plan->cfg[CFG_TWIN] & 1);
    mode = MODE_PRIMARY;
    memset(rejected, 0, sizeof(rejected));
    memset(ntrace, 0, sizeof(ntrace));
    uint64_t t0 = sim_now();
    sweep_k = 0;
    if (((uint64_t)plan->cfg[CFG_FAULTSWEEP] & 1) && !twin_run && !(types[type].flags & F_TYPED)) {
        /* fault-free first, then one execution per allocation that can fail */
        bool swept = false;
        static const char *const no_error_path[] = { "m3u_reader", "ts_align", "row_split", "row_join", NULL };
        for (int i = 0; no_error_path[i] != NULL; i++)
            if (!strcmp(types[type].name, no_error_path[i]))
                swept = true;
        if (!run_once() || swept)
            return;
        for (int k = 1; k <= 96 && checking(); k++) {
            sim_set_now(t0);
            sweep_k = k;
            bool ok = run_once();
            unsigned failed = sim_alloc_failed();
            sweep_k = 0;
            if (!ok)
                return;
            if (!failed) {
                SIM_PROBE("sweep_fault_sweep_completed");
                break;                  /* k is past the last allocation */
            }
            SIM_PROBE("sweep_fault_sweep_execution");
        }
        sim_alloc_disarm();
        return;
    }
    if (!run_once() || !twin_run || !checking() || fault_fired || provider_failed)
        return;
    bool anything = false;
    for (int i = 0; i < plan->nops; i++)
        if (rejected[i] || plan->ops[i].code == OP_GETTER || plan->ops[i].code == OP_OPTION)
            anything = true;
    if (!anything || ntrace[MODE_PRIMARY] > MAXTRACE)
        return;
    SIM_PROBE("sweep_twin_executed");
    mode = MODE_TWIN;
    sim_set_now(t0);
    bool ok = run_once();
    mode = MODE_PRIMARY;
    unsigned at = 0;
    if (!ok || !checking() || ntrace[MODE_TWIN] > MAXTRACE || same_trace(MODE_PRIMARY, MODE_TWIN, &at))
        return;
    /* which of the two clauses? once more, the rejected setters kept */
    mode = MODE_TWIN_KEEP_REJECTED;
    sim_set_now(t0);
    ok = run_once();
    mode = MODE_PRIMARY;
    unsigned at2 = 0;
    if (!ok || !checking())
        return;
    if (!same_trace(MODE_PRIMARY, MODE_TWIN_KEEP_REJECTED, &at2))
        sim_violation(V_TWIN_GETTER, "%s: the same history without its getter calls behaves differently: step %u of what the pipe "
                      "does is %s, without the getters it is %s", types[type].name, at2, trace_word(MODE_PRIMARY, at2),
                      trace_word(MODE_TWIN_KEEP_REJECTED, at2));
    else
        sim_violation(V_TWIN_SETTER, "%s: the same history without the setter calls the pipe rejected behaves differently: step %u "
                      "of what the pipe does is %s, without the rejected calls it is %s", types[type].name, at,
                      trace_word(MODE_PRIMARY, at), trace_word(MODE_TWIN, at));
}

static void gen(const char *pr, struct sim_rng *r, struct sim_plan *p)
{
    p->cfg[CFG_PROP] = atoi(pr + 1);
    p->cfg[CFG_TYPE] = sim_rng_below(r, NTYPES);
    p->cfg[CFG_POOL] = sim_rng_below(r, 10);
    p->cfg[CFG_FAULTS] = sim_rng_chance(r, 1, 3);
    p->cfg[CFG_PROVIDE] = sim_rng_chance(r, 9, 10) ? 31 : sim_rng_below(r, 32);
    p->cfg[CFG_ALLOCDEF] = sim_rng_below(r, 128) | (sim_rng_chance(r, 1, 6) ? (sim_rng_chance(r, 1, 2) ? 256 : 512) : 0);
    p->cfg[CFG_RELAY] = sim_rng_chance(r, 1, 3);
    p->cfg[CFG_POOLPROV] = sim_rng_chance(r, 1, 3);
    p->cfg[CFG_FFMODE] = sim_rng_below(r, 3);
    int n = 3 + (int)sim_rng_below(r, 24);
    if ((p->cfg[CFG_PROP] == 1 || p->cfg[CFG_PROP] == 4) && !p->cfg[CFG_TWIN] && sim_rng_chance(r, 1, 8)) {
        /* single-fault sweep over a short fault-free history */
        p->cfg[CFG_FAULTSWEEP] = 1;
        p->cfg[CFG_FAULTS] = 0;
        p->cfg[CFG_PROVIDE] = 31;
        n = 2 + (int)sim_rng_below(r, 8);
    }
    /* most histories negotiate something the pipe may accept first */
    int first = (int)sim_rng_below(r, NDEFS);
    if (sim_rng_chance(r, 7, 8))
        for (int k = 0; k < 3; k++)
            sim_plan_add(p, 0, OP_FLOW_DEF, (first + k * 3) % NDEFS, sim_rng_below(r, 64), 0, 0, 0, 0);
    if (sim_rng_chance(r, 1, 2))
        sim_plan_add(p, 0, OP_ATTACH, 3, 0, 0, 0, 0, 0);
    /* C12: requests registered while there is no output yet, then the output */
    if (p->cfg[CFG_PROP] == 12 && sim_rng_chance(r, 1, 3)) {
        sim_plan_add(p, 0, OP_SET_OUTPUT, 0, 0, 0, 0, 0, 0);
        for (uint32_t k = 0, nreq = 1 + sim_rng_below(r, 2); k < nreq; k++)
            sim_plan_add(p, 0, OP_REQ_REGISTER, sim_rng_below(r, NAREQ), sim_rng_below(r, 2), 0, 0, 0, 0);
        sim_plan_add(p, 0, OP_SET_OUTPUT, 1 + sim_rng_below(r, 2), 0, 0, 0, 0, 0);
    }
    /* pipes that only do something once configured */
    for (int k = 0; k < 3; k++)
        if (sim_rng_chance(r, 1, 2))
            sim_plan_add(p, 0, OP_OPTION, k, 1 + sim_rng_below(r, 7), 0, 0, 0, 0);
    /* C05: half of the histories contain nothing that may legitimately drop
     * or keep a buffer, so that the completeness clause gets judged */
    if (p->cfg[CFG_PROP] == 20 && sim_rng_chance(r, 2, 3)) {
        p->cfg[CFG_TWIN] = 1;
        p->cfg[CFG_FAULTS] = 0;
        p->cfg[CFG_PROVIDE] = 31;
    }
    bool clean = p->cfg[CFG_PROP] == 5 && sim_rng_chance(r, 1, 2);
    if (clean) {
        p->cfg[CFG_FAULTS] = 0;
        p->cfg[CFG_PROVIDE] = 31;
    }
    for (int i = 0; i < n; i++) {
        uint32_t c = sim_rng_below(r, 100);
        int64_t f = p->cfg[CFG_FAULTS] && sim_rng_chance(r, 1, 5) ? 1 + sim_rng_below(r, 5) : 0;
        if (clean) {
            if (c < 55) sim_plan_add(p, 0, OP_INPUT, sim_rng_below(r, 200), sim_rng_below(r, 512), sim_rng_below(r, 64), sim_rng_below(r, 4), 0, 0);
            else if (c < 70) sim_plan_add(p, 0, OP_RUN, sim_rng_below(r, 16), 0, 0, 0, 0, 0);
            else if (c < 80) sim_plan_add(p, 0, OP_ADVANCE, sim_rng_below(r, 27000000), 0, 0, 0, 0, 0);
            else if (c < 88) sim_plan_add(p, 0, OP_OPTION, sim_rng_below(r, 3), sim_rng_below(r, 8), 0, 0, 0, 0);
            else sim_plan_add(p, 0, OP_SINK_BLOCK, sim_rng_below(r, NSINK), sim_rng_chance(r, 2, 3), 0, 0, 0, 0);
            continue;
        }
        if (p->cfg[CFG_PROP] == 12 && c >= 20 && c < 40) {
            if (c < 29) sim_plan_add(p, 0, OP_REQ_REGISTER, sim_rng_below(r, NAREQ), sim_rng_below(r, 2), 0, 0, 0, f);
            else if (c < 34) sim_plan_add(p, 0, OP_REQ_UNREGISTER, sim_rng_below(r, NAREQ), 0, 0, 0, 0, 0);
            else sim_plan_add(p, 0, OP_REQ_PROVIDE, sim_rng_below(r, NSINK), sim_rng_below(r, 100000), 0, 0, 0, 0);
        } else if (p->cfg[CFG_PROP] == 20 && c >= 30 && c < 40) sim_plan_add(p, 0, c < 35 ? OP_GETTER : OP_OPTION, sim_rng_below(r, 3), sim_rng_below(r, 8), 0, 0, 0, 0);
        else if (c < 40) sim_plan_add(p, 0, OP_INPUT, sim_rng_below(r, 200), sim_rng_below(r, 512), sim_rng_below(r, 64), sim_rng_below(r, 4), 0, f);
        /* (half of them a variant of what was negotiated first: same kind, other attributes, possibly incomplete) */
        else if (c < 52) sim_plan_add(p, 0, OP_FLOW_DEF, sim_rng_chance(r, 1, 2) ? (first + (int)sim_rng_below(r, 3) * 3) % NDEFS : sim_rng_below(r, NDEFS),
                                      sim_rng_below(r, 64), 0, 0, 0, f);
        else if (c < 64) sim_plan_add(p, 0, OP_RUN, sim_rng_below(r, 16), 0, 0, 0, 0, 0);
        else if (c < 72) sim_plan_add(p, 0, OP_ADVANCE, sim_rng_below(r, 27000000), 0, 0, 0, 0, 0);
        else if (c < 77) sim_plan_add(p, 0, OP_FLUSH, 0, 0, 0, 0, 0, 0);
        else if (c < 86) sim_plan_add(p, 0, OP_SET_OUTPUT, sim_rng_below(r, 3), 0, 0, 0, 0, 0);
        else if (c < 92) sim_plan_add(p, 0, OP_SINK_MODE, sim_rng_below(r, NSINK), sim_rng_below(r, 2), 0, 0, 0, 0);
        else if (c < 95) sim_plan_add(p, 0, OP_ATTACH, sim_rng_below(r, 4), 0, 0, 0, 0, 0);
        else if (c < 97) sim_plan_add(p, 0, OP_OPTION, sim_rng_below(r, 3), sim_rng_below(r, 8), 0, 0, 0, 0);
        else if (c < 98 && p->cfg[CFG_PROP] != 5) sim_plan_add(p, 0, OP_RELEASE, 0, 0, 0, 0, 0, 0);
        /* (also for the lifetime properties: release while an output holds buffers
         * and a blocker on one of the pipe's pumps) */
        else if (c < 99) sim_plan_add(p, 0, OP_SINK_BLOCK, sim_rng_below(r, NSINK), sim_rng_chance(r, 2, 3), 0, 0, 0, 0);
        else sim_plan_add(p, 0, OP_RELEASE, 0, 0, 0, 0, 0, 0);
    }
}

static const char *const props[] = { "C01", "C04", "C05", "C20", "C12", NULL };
const struct sim_engine sim_engine = {
    .name = "esweep", .props = props, .gen = gen, .run = run,
    .class_name = class_name, .op_name = op_name,
};

int main(int argc, char **argv) { return sim_main(argc, argv); }
