/* E-pipe: shared declarations of the single-thread pipeline simulator */
#ifndef EPIPE_H
#define EPIPE_H

#include "../sim/sim.h"
#include "../sim/alloc.h"
#include "../sim/upump_sim.h"

#include <upipe/ubase.h>
#include <upipe/umem.h>
#include <upipe/udict.h>
#include <upipe/udict_inline.h>
#include <upipe/uref.h>
#include <upipe/uref_std.h>
#include <upipe/uref_attr.h>
#include <upipe/uref_flow.h>
#include <upipe/uref_block.h>
#include <upipe/uref_block_flow.h>
#include <upipe/uref_clock.h>
#include <upipe/ubuf.h>
#include <upipe/ubuf_block_mem.h>
#include <upipe/uclock.h>
#include <upipe/uprobe.h>
#include <upipe/upipe.h>
#include <upipe/urequest.h>
#include <upipe/upump.h>

enum {
    V_READY_ORDER = 1,      /* an event before ready */
    V_DEAD_TWICE,           /* dead thrown twice / not thrown */
    V_AFTER_DEAD,           /* event, data or flow def after dead */
    V_NO_FLOW_DEF,          /* data delivered without an accepted, current flow def */
    V_DATA_AFTER_REJECT,    /* data delivered although the sink rejected the flow def */
    V_LOSS,                 /* a buffer the model delivers did not arrive */
    V_DUPLICATE,            /* a buffer arrived twice */
    V_REORDER,              /* buffers arrived out of order */
    V_CONTENT,              /* payload / attributes / dates differ from the model */
    V_SPURIOUS,             /* a buffer the model drops arrived */
    V_LEAK,                 /* something left allocated at the end */
    V_REFCOUNT,             /* manager / probe not back to one reference */
    V_GETTER_VALUE,         /* getter does not report what the setter stored */
    V_GETTER_EFFECT,        /* calling getters changed what the pipe does */
    V_REQ_ROUTING,          /* request not lodged where it must be */
    V_REQ_ANSWER,           /* answer did not reach the requester / wrong value */
    V_REQ_AFTER_UNREGISTER, /* callback invoked after unregister */
    V_HELD_ORDER,           /* held buffers not delivered first / in order */
    V_FATAL_UNEXPECTED,     /* fatal/error event thrown without an injected fault */
    V_CONTROL,              /* a control command failed that must succeed */
};

#endif
