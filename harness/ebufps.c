/*
 * E-buf, picture and sound part of C02: shared memory is copy-on-write.
 *
 * Families of picture (planar 4:2:0 or 8-bit grey) and sound (planar 16-bit)
 * buffers of the real ubuf_pic_mem / ubuf_sound_mem managers over the
 * simulated allocator: alloc, dup, resize (window moves inside the area, also
 * into the prepend / append margins), map for writing, copy, replace, free,
 * with allocation failures inside operations and pooled structures recycled.
 * Model: per memory area a grid of known octets (unknown where nobody wrote)
 * and an owner count; per handle a window onto its area.
 *   - a write mapping is granted iff the model says the area has one owner
 *     (else UBASE_ERR_BUSY), and what is written through it changes only the
 *     handles that window those octets;
 *   - after every operation every handle reads exactly what the model holds
 *     for its window (size and every known octet, plane by plane);
 *   - an operation that reports an error leaves every handle unchanged.
 */
#include "../sim/sim.h"
#include "../sim/alloc.h"

#include <upipe/ubase.h>
#include <upipe/umem.h>
#include <upipe/ubuf.h>
#include <upipe/ubuf_pic.h>
#include <upipe/ubuf_pic_mem.h>
#include <upipe/ubuf_sound.h>
#include <upipe/ubuf_sound_mem.h>

#include <stdlib.h>
#include <string.h>
#include <inttypes.h>

enum {
    V_WRITE_ON_SHARED = 1,  /* write mapping granted on memory with several owners */
    V_WRITE_REFUSED,        /* write mapping refused on exclusive memory */
    V_CONTENT,              /* a handle reads something the model does not hold */
    V_SIZE,                 /* a handle's size differs from the model */
    V_ERROR_CHANGED,        /* a failed operation changed something */
    V_REFUSED_VALID,        /* a plain shrinking resize / dup / copy refused without fault */
    V_LEAK,
};

static const char *class_name(int cls)
{
    switch (cls) {
    case V_WRITE_ON_SHARED: return "write_granted_on_shared_memory";
    case V_WRITE_REFUSED: return "write_refused_on_exclusive_memory";
    case V_CONTENT: return "content_mismatch";
    case V_SIZE: return "size_mismatch";
    case V_ERROR_CHANGED: return "failed_operation_changed_state";
    case V_REFUSED_VALID: return "refused_valid_operation";
    case V_LEAK: return "leak";
    default: return NULL;
    }
}

enum {
    OP_ALLOC = 1,   /* a0 = width/2 (samples), a1 = height/2 */
    OP_DUP,         /* a0 = handle */
    OP_RESIZE,      /* a0 = handle, a1 = hskip selector, a2 = vskip selector, a3 = new width sel, a4 = new height sel */
    OP_WRITE,       /* a0 = handle, a1 = plane, a2 = rectangle selector, a3 = pattern */
    OP_COPY,        /* a0 = handle, a1.. = window selector */
    OP_REPLACE,     /* a0 = handle */
    OP_FREE,        /* a0 = handle */
    OP__N
};
static const char *op_name(int code)
{
    static const char *const n[] = { "?", "alloc", "dup", "resize", "write", "copy", "replace", "free" };
    return code > 0 && code < OP__N ? n[code] : "?";
}

enum { CFG_PROP = 0, CFG_KIND, CFG_POOL, CFG_FORMAT, CFG_HPRE, CFG_HAPP, CFG_VPRE, CFG_VAPP, CFG_ALIGN, CFG_FAULTS };
enum { K_PIC = 0, K_SOUND };

#define MAXH 6
#define MAXAREA 24
#define GW 64           /* model grid: enough for 32 + margins */
#define GH 40

static const struct sim_plan *plan;
static struct umem_mgr *umem;
static struct ubuf_mgr *mgr;
static int kind, nplanes;
static int hpre, happ, vpre, vapp;
static const char *plane_name[3];
static int plane_hsub[3], plane_vsub[3];
static bool fault_fired_now;

static bool checking(void) { return !sim_violation_class(); }

struct area {
    bool live;
    int owners;
    int w, h;                       /* whole area in pixels (samples x 1 for sound), margins included */
    int16_t cell[3][GH][GW];        /* -1 = unknown */
};
static struct area areas[MAXAREA];
struct handle {
    bool live;
    struct ubuf *ubuf;
    int area;
    int x, y, w, h;                 /* window, in area coordinates (luma pixels / samples) */
};
static struct handle hs[MAXH];

static int area_new(int w, int h)
{
    for (int i = 0; i < MAXAREA; i++)
        if (!areas[i].live) {
            struct area *a = &areas[i];
            a->live = true;
            a->owners = 1;
            a->w = w;
            a->h = h;
            memset(a->cell, 0xff, sizeof(a->cell));    /* -1 */
            return i;
        }
    return -1;
}

static void area_drop(int i)
{
    if (--areas[i].owners == 0)
        areas[i].live = false;
}

static int pick(int64_t sel)
{
    int live[MAXH], n = 0;
    for (int i = 0; i < MAXH; i++)
        if (hs[i].live)
            live[n++] = i;
    return n ? live[(uint64_t)sel % (uint64_t)n] : -1;
}

static int free_slot(void)
{
    for (int i = 0; i < MAXH; i++)
        if (!hs[i].live)
            return i;
    return -1;
}

/* ------------------------------------------------------- real accessors */
static int real_size(struct ubuf *u, int *w, int *h)
{
    if (kind == K_PIC) {
        size_t hs_, vs_;
        uint8_t mp;
        UBASE_RETURN(ubuf_pic_size(u, &hs_, &vs_, &mp))
        *w = (int)hs_;
        *h = (int)vs_;
    } else {
        size_t sz;
        uint8_t ss;
        UBASE_RETURN(ubuf_sound_size(u, &sz, &ss))
        *w = (int)sz;
        *h = 1;
    }
    return UBASE_ERR_NONE;
}

/** maps plane p of the rectangle (in luma pixels relative to the handle's
 * window) for reading or writing; returns the stride in *stride_p */
static int real_map(struct ubuf *u, int p, int x, int y, int w, int h, bool write, uint8_t **buf_p, size_t *stride_p)
{
    if (kind == K_PIC) {
        uint8_t hsub, vsub, mps;
        UBASE_RETURN(ubuf_pic_plane_size(u, plane_name[p], stride_p, &hsub, &vsub, &mps))
        if (write)
            return ubuf_pic_plane_write(u, plane_name[p], x, y, w, h, buf_p);
        return ubuf_pic_plane_read(u, plane_name[p], x, y, w, h, (const uint8_t **)buf_p);
    }
    *stride_p = 0;
    if (write)
        return ubuf_sound_plane_write_uint8_t(u, plane_name[p], x, w, buf_p);
    return ubuf_sound_plane_read_uint8_t(u, plane_name[p], x, w, (const uint8_t **)buf_p);
}

static void real_unmap(struct ubuf *u, int p, int x, int y, int w, int h)
{
    if (kind == K_PIC)
        ubuf_pic_plane_unmap(u, plane_name[p], x, y, w, h);
    else
        ubuf_sound_plane_unmap(u, plane_name[p], x, w);
}

/* octets per luma pixel / sample of plane p horizontally */
static int bytes_per_unit(void) { return kind == K_SOUND ? 2 : 1; }

/* ------------------------------------------------------------ the oracle */
static void verify_all(const char *after)
{
    for (int i = 0; i < MAXH && checking(); i++) {
        struct handle *hd = &hs[i];
        if (!hd->live)
            continue;
        struct area *a = &areas[hd->area];
        int w = 0, h = 0;
        if (!ubase_check(real_size(hd->ubuf, &w, &h)) || w != hd->w || h != hd->h) {
            sim_violation(V_SIZE, "after %s: handle %d is %dx%d, the model says %dx%d", after, i, w, h, hd->w, hd->h);
            return;
        }
        for (int p = 0; p < nplanes && checking(); p++) {
            uint8_t *buf = NULL;
            size_t stride = 0;
            int err = real_map(hd->ubuf, p, 0, 0, -1, -1, false, &buf, &stride);
            if (!ubase_check(err) || buf == NULL) {
                sim_violation(V_CONTENT, "after %s: handle %d plane %s cannot be mapped for reading (%d)", after, i,
                              plane_name[p], err);
                return;
            }
            int pw = hd->w / plane_hsub[p] * bytes_per_unit(), ph = hd->h / plane_vsub[p];
            int ax = hd->x / plane_hsub[p] * bytes_per_unit(), ay = hd->y / plane_vsub[p];
            for (int yy = 0; yy < ph && checking(); yy++)
                for (int xx = 0; xx < pw; xx++) {
                    int16_t want = a->cell[p][ay + yy][ax + xx];
                    uint8_t got = buf[(size_t)yy * stride + (size_t)xx];
                    if (want >= 0 && got != (uint8_t)want) {
                        sim_violation(V_CONTENT, "after %s: handle %d plane %s octet (%d,%d) reads %#x, the model holds %#x "
                                      "(area %d, %d owner(s))", after, i, plane_name[p], xx, yy, got, (unsigned)want,
                                      hd->area, a->owners);
                        break;
                    }
                }
            real_unmap(hd->ubuf, p, 0, 0, -1, -1);
        }
    }
}

static void arm(const struct sim_op *op)
{
    int f = (int)((uint64_t)op->a[5] % 5);
    fault_fired_now = false;
    if (f && ((uint64_t)plan->cfg[CFG_FAULTS] & 1))
        sim_alloc_arm(f);
}
static bool disarm(const struct sim_op *op)
{
    int f = (int)((uint64_t)op->a[5] % 5);
    if (sim_alloc_disarm() == 0 && f && ((uint64_t)plan->cfg[CFG_FAULTS] & 1)) {
        fault_fired_now = true;
        SIM_PROBE("fault_alloc_in_operation");
    }
    return fault_fired_now;
}

/** fills the whole window of a fresh exclusive handle */
static bool fill(struct handle *hd, unsigned pattern)
{
    struct area *a = &areas[hd->area];
    for (int p = 0; p < nplanes; p++) {
        uint8_t *buf = NULL;
        size_t stride = 0;
        if (!ubase_check(real_map(hd->ubuf, p, 0, 0, -1, -1, true, &buf, &stride)) || buf == NULL)
            return false;
        int pw = hd->w / plane_hsub[p] * bytes_per_unit(), ph = hd->h / plane_vsub[p];
        int ax = hd->x / plane_hsub[p] * bytes_per_unit(), ay = hd->y / plane_vsub[p];
        for (int yy = 0; yy < ph; yy++)
            for (int xx = 0; xx < pw; xx++) {
                uint8_t v = (uint8_t)(pattern * 37 + (unsigned)p * 101 + (unsigned)yy * 13 + (unsigned)xx * 7);
                buf[(size_t)yy * stride + (size_t)xx] = v;
                a->cell[p][ay + yy][ax + xx] = v;
            }
        real_unmap(hd->ubuf, p, 0, 0, -1, -1);
    }
    return true;
}

static void do_op(const struct sim_op *op, int opi)
{
    char what[48];
    snprintf(what, sizeof(what), "operation %d (%s)", opi, op_name(op->code));
    sim_ev(op_name(op->code), (uint64_t)op->a[0], (uint64_t)op->a[1]);
    switch (op->code) {
    case OP_ALLOC: {
        int s = free_slot();
        if (s < 0)
            break;
        int w = 2 + 2 * (int)((uint64_t)op->a[0] % 15), h = kind == K_PIC ? 2 + 2 * (int)((uint64_t)op->a[1] % 7) : 1;
        arm(op);
        struct ubuf *u = kind == K_PIC ? ubuf_pic_alloc(mgr, w, h) : ubuf_sound_alloc(mgr, w);
        bool fault = disarm(op);
        if (u == NULL) {
            if (!fault && checking())
                sim_violation(V_REFUSED_VALID, "allocation of a %dx%d buffer failed without any injected fault", w, h);
            break;
        }
        int a = area_new(w + hpre + happ, h + vpre + vapp);
        if (a < 0) {
            ubuf_free(u);
            break;
        }
        hs[s] = (struct handle){ .live = true, .ubuf = u, .area = a, .x = hpre, .y = vpre, .w = w, .h = h };
        if (!fill(&hs[s], (unsigned)opi) && checking())
            sim_violation(V_WRITE_REFUSED, "a freshly allocated buffer cannot be mapped for writing");
        break;
    }
    case OP_DUP: {
        int i = pick(op->a[0]), s = free_slot();
        if (i < 0 || s < 0)
            break;
        arm(op);
        struct ubuf *u = ubuf_dup(hs[i].ubuf);
        bool fault = disarm(op);
        if (u == NULL) {
            if (!fault && checking())
                sim_violation(V_REFUSED_VALID, "ubuf_dup failed without any injected fault");
            break;
        }
        hs[s] = hs[i];
        hs[s].ubuf = u;
        areas[hs[i].area].owners++;
        SIM_PROBE("cow_memory_shared");
        break;
    }
    case OP_RESIZE: {
        int i = pick(op->a[0]);
        if (i < 0)
            break;
        struct handle *hd = &hs[i];
        struct area *a = &areas[hd->area];
        /* mostly shrinking, sometimes growing into the margins, sometimes
         * beyond them */
        static const int deltas[] = { 0, 2, 4, -2, 6, -4, 1, 40 };
        int hskip = deltas[(uint64_t)op->a[1] % 8], vskip = kind == K_PIC ? deltas[(uint64_t)op->a[2] % 8] : 0;
        int nw = ((uint64_t)op->a[3] % 4) == 0 ? -1 : hd->w - hskip - 2 * (int)((uint64_t)op->a[3] % 4) + 2;
        int nh = kind == K_SOUND ? 1 : ((uint64_t)op->a[4] % 4) == 0 ? -1 : hd->h - vskip - 2 * (int)((uint64_t)op->a[4] % 4) + 2;
        if (kind == K_SOUND && hskip < 0)
            hskip = 0;              /* (negative offsets count from the end for sound) */
        /* (ubuf_sound_common_resize accepts an offset beyond the end together
         * with size -1 and ends up with a negative size: window arithmetic is
         * C19's business, such requests are not generated here) */
        if (kind == K_SOUND && hskip >= hd->w)
            hskip = hd->w - 1;      /* (an empty sound buffer is legal and useless here) */
        if (kind == K_SOUND && hskip < 0)
            hskip = 0;
        /* (sizes below -1 are not generated either) */
        if (nw != -1 && nw <= 0)
            nw = 1;
        if (nh != -1 && nh <= 0)
            nh = 1;
        int err = kind == K_PIC ? ubuf_pic_resize(hd->ubuf, hskip, vskip, nw, nh) : ubuf_sound_resize(hd->ubuf, hskip, nw);
        int ew = nw == -1 ? hd->w - hskip : nw, eh = nh == -1 ? hd->h - vskip : nh;
        if (kind == K_SOUND)
            eh = 1;
        bool shrinking = hskip >= 0 && vskip >= 0 && ew > 0 && eh > 0 && hskip + ew <= hd->w && vskip + eh <= hd->h &&
                         (kind == K_SOUND || nplanes == 1 ||
                          (hskip % 2 == 0 && vskip % 2 == 0 && ew % 2 == 0 && eh % 2 == 0));
        if (ubase_check(err)) {
            int nx = hd->x + hskip, ny = hd->y + vskip;
            if (nx < 0 || ny < 0 || ew <= 0 || eh <= 0 || nx + ew > a->w || ny + eh > a->h) {
                if (checking())
                    sim_violation(V_SIZE, "%s: resize(%d,%d,%d,%d) of a %dx%d window at (%d,%d) accepted although it leaves "
                                  "the %dx%d area", what, hskip, vskip, nw, nh, hd->w, hd->h, hd->x, hd->y, a->w, a->h);
                break;
            }
            hd->x = nx; hd->y = ny; hd->w = ew; hd->h = eh;
            if (!shrinking)
                SIM_PROBE("cow_window_grew_into_margin");
        } else if (shrinking && checking())
            sim_violation(V_REFUSED_VALID, "%s: plain shrinking resize(%d,%d,%d,%d) of a %dx%d window refused (%d)", what,
                          hskip, vskip, nw, nh, hd->w, hd->h, err);
        break;
    }
    case OP_WRITE: {
        int i = pick(op->a[0]);
        if (i < 0)
            break;
        struct handle *hd = &hs[i];
        struct area *a = &areas[hd->area];
        int p = (int)((uint64_t)op->a[1] % (uint64_t)nplanes);
        /* rectangle in luma pixels, aligned on the subsampling */
        int st = kind == K_PIC && nplanes == 3 ? 2 : 1;
        int rx = st * (int)((uint64_t)op->a[2] % (uint64_t)(hd->w / st));
        int ry = kind == K_PIC ? st * (int)(((uint64_t)op->a[2] >> 8) % (uint64_t)(hd->h / st)) : 0;
        int rw = ((uint64_t)op->a[2] >> 16) % 3 == 0 ? -1 : st + st * (int)(((uint64_t)op->a[2] >> 20) % (uint64_t)((hd->w - rx) / st));
        int rh = kind == K_SOUND ? -1 : ((uint64_t)op->a[2] >> 24) % 3 == 0 ? -1 :
                 st + st * (int)(((uint64_t)op->a[2] >> 28) % (uint64_t)((hd->h - ry) / st));
        uint8_t *buf = NULL;
        size_t stride = 0;
        int err = real_map(hd->ubuf, p, rx, ry, rw, rh, true, &buf, &stride);
        if (ubase_check(err)) {
            if (a->owners != 1) {
                if (checking())
                    sim_violation(V_WRITE_ON_SHARED, "%s: handle %d was granted a write mapping although its memory has %d owners",
                                  what, i, a->owners);
                real_unmap(hd->ubuf, p, rx, ry, rw, rh);
                break;
            }
            int ew = rw == -1 ? hd->w - rx : rw, eh = rh == -1 ? hd->h - ry : rh;
            if (kind == K_SOUND)
                eh = 1;
            int pw = ew / plane_hsub[p] * bytes_per_unit(), ph = eh / plane_vsub[p];
            int ax = (hd->x + rx) / plane_hsub[p] * bytes_per_unit(), ay = (hd->y + ry) / plane_vsub[p];
            for (int yy = 0; yy < ph; yy++)
                for (int xx = 0; xx < pw; xx++) {
                    uint8_t v = (uint8_t)((uint64_t)op->a[3] * 29 + (uint64_t)yy * 17 + (uint64_t)xx * 3 + (uint64_t)opi);
                    buf[(size_t)yy * stride + (size_t)xx] = v;
                    a->cell[p][ay + yy][ax + xx] = v;
                }
            real_unmap(hd->ubuf, p, rx, ry, rw, rh);
            SIM_PROBE("cow_write_granted");
        } else {
            if (a->owners == 1 && checking())
                sim_violation(V_WRITE_REFUSED, "%s: handle %d is the only owner of its memory and is refused a write mapping (%d)",
                              what, i, err);
            if (a->owners > 1)
                SIM_PROBE("cow_write_refused_on_shared");
        }
        break;
    }
    case OP_COPY:
    case OP_REPLACE: {
        int i = pick(op->a[0]);
        if (i < 0)
            break;
        struct handle *hd = &hs[i];
        struct area *a = &areas[hd->area];
        int s = op->code == OP_COPY ? free_slot() : i;
        if (s < 0)
            break;
        /* a sub-window, or the whole */
        int hskip = 2 * (int)((uint64_t)op->a[1] % 3), vskip = kind == K_PIC ? 2 * (int)((uint64_t)op->a[2] % 3) : 0;
        if (hskip >= hd->w) hskip = 0;
        if (vskip >= hd->h) vskip = 0;
        int nw = ((uint64_t)op->a[3] & 1) ? -1 : hd->w - hskip, nh = kind == K_SOUND ? -1 : ((uint64_t)op->a[3] & 2) ? -1 : hd->h - vskip;
        struct ubuf *u = NULL;
        int err = UBASE_ERR_NONE;
        arm(op);
        if (op->code == OP_COPY) {
            u = kind == K_PIC ? ubuf_pic_copy(mgr, hd->ubuf, hskip, vskip, nw, nh) : ubuf_sound_copy(mgr, hd->ubuf, hskip, nw);
            if (u == NULL)
                err = UBASE_ERR_ALLOC;
        } else
            err = kind == K_PIC ? ubuf_pic_replace(mgr, &hd->ubuf, hskip, vskip, nw, nh)
                                : ubuf_sound_replace(mgr, &hd->ubuf, hskip, nw);
        bool fault = disarm(op);
        if (!ubase_check(err)) {
            if (!fault && checking())
                sim_violation(V_REFUSED_VALID, "%s of a %dx%d window (%d,%d,%d,%d) failed without any injected fault (%d)", what,
                              hd->w, hd->h, hskip, vskip, nw, nh, err);
            break;
        }
        int ew = hd->w - hskip, eh = hd->h - vskip;
        int na = area_new(ew + hpre + happ, eh + vpre + vapp);
        if (na < 0) {
            if (u) ubuf_free(u);
            break;
        }
        /* the new area holds a copy of the window */
        for (int p = 0; p < nplanes; p++) {
            int pw = ew / plane_hsub[p] * bytes_per_unit(), ph = eh / plane_vsub[p];
            int sx = (hd->x + hskip) / plane_hsub[p] * bytes_per_unit(), sy = (hd->y + vskip) / plane_vsub[p];
            int dx = hpre / plane_hsub[p] * bytes_per_unit(), dy = vpre / plane_vsub[p];
            for (int yy = 0; yy < ph; yy++)
                for (int xx = 0; xx < pw; xx++)
                    areas[na].cell[p][dy + yy][dx + xx] = a->cell[p][sy + yy][sx + xx];
        }
        if (op->code == OP_COPY) {
            hs[s] = (struct handle){ .live = true, .ubuf = u, .area = na, .x = hpre, .y = vpre, .w = ew, .h = eh };
            SIM_PROBE("cow_copy");
        } else {
            int old = hd->area;
            hd->area = na; hd->x = hpre; hd->y = vpre; hd->w = ew; hd->h = eh;
            area_drop(old);
            SIM_PROBE("cow_replace");
        }
        break;
    }
    case OP_FREE: {
        int i = pick(op->a[0]);
        if (i < 0)
            break;
        ubuf_free(hs[i].ubuf);
        hs[i].live = false;
        area_drop(hs[i].area);
        break;
    }
    default:
        break;
    }
    verify_all(what);
}

static void run(const char *pr, const struct sim_plan *pl)
{
    static const uint16_t depth[] = { 0, 0, 1, 2, 8 };
    plan = pl;
    kind = (int)((uint64_t)plan->cfg[CFG_KIND] % 2);
    int pool = (int)((uint64_t)plan->cfg[CFG_POOL] % 5);
    sim_alloc_reset();
    static const char *const allow[] = { "ubuf_pic_mem_alloc_inner", "ubuf_sound_mem_alloc_inner",
                                         "ubuf_mem_shared_alloc_inner", NULL };
    sim_alloc_set_allow_list(allow);
    umem = umem_sim_mgr_alloc(1 + (unsigned)((uint64_t)plan->cfg[CFG_ALIGN] % 5));
    memset(areas, 0, sizeof(areas));
    memset(hs, 0, sizeof(hs));
    static const int aligns[] = { 0, 0, 16, 32 };
    if (kind == K_PIC) {
        hpre = 2 * (int)((uint64_t)plan->cfg[CFG_HPRE] % 4);
        happ = 2 * (int)((uint64_t)plan->cfg[CFG_HAPP] % 4);
        vpre = 2 * (int)((uint64_t)plan->cfg[CFG_VPRE] % 3);
        vapp = 2 * (int)((uint64_t)plan->cfg[CFG_VAPP] % 3);
        mgr = ubuf_pic_mem_mgr_alloc(depth[pool], depth[pool], umem, 1, hpre, happ, vpre, vapp,
                                     aligns[(uint64_t)plan->cfg[CFG_ALIGN] % 4], 0);
        if ((uint64_t)plan->cfg[CFG_FORMAT] & 1) {
            nplanes = 1;
            plane_name[0] = "y8"; plane_hsub[0] = plane_vsub[0] = 1;
            ubuf_pic_mem_mgr_add_plane(mgr, "y8", 1, 1, 1);
        } else {
            nplanes = 3;
            plane_name[0] = "y8"; plane_name[1] = "u8"; plane_name[2] = "v8";
            plane_hsub[0] = plane_vsub[0] = 1;
            plane_hsub[1] = plane_vsub[1] = plane_hsub[2] = plane_vsub[2] = 2;
            ubuf_pic_mem_mgr_add_plane(mgr, "y8", 1, 1, 1);
            ubuf_pic_mem_mgr_add_plane(mgr, "u8", 2, 2, 1);
            ubuf_pic_mem_mgr_add_plane(mgr, "v8", 2, 2, 1);
        }
    } else {
        hpre = happ = vpre = vapp = 0;
        mgr = ubuf_sound_mem_mgr_alloc(depth[pool], depth[pool], umem, 2, (uint64_t)aligns[(uint64_t)plan->cfg[CFG_ALIGN] % 4]);
        nplanes = ((uint64_t)plan->cfg[CFG_FORMAT] & 1) ? 1 : 2;
        plane_name[0] = "l"; plane_name[1] = "r";
        plane_hsub[0] = plane_vsub[0] = plane_hsub[1] = plane_vsub[1] = 1;
        ubuf_sound_mem_mgr_add_plane(mgr, "l");
        if (nplanes == 2)
            ubuf_sound_mem_mgr_add_plane(mgr, "r");
    }
    for (int i = 0; i < plan->nops && checking(); i++)
        do_op(&plan->ops[i], i);
    for (int i = 0; i < MAXH; i++)
        if (hs[i].live) {
            ubuf_free(hs[i].ubuf);
            hs[i].live = false;
        }
    ubuf_mgr_vacuum(mgr);
    if (checking() && !urefcount_single(mgr->refcount))
        sim_violation(V_LEAK, "the buffer manager is still referenced after every buffer was freed");
    if (checking() && umem_sim_live() != 0)
        sim_violation(V_LEAK, "%u memory area(s) left after every buffer was freed", umem_sim_live());
    ubuf_mgr_release(mgr);
    umem_mgr_release(umem);
    if (checking() && sim_alloc_live() != 0)
        sim_violation(V_LEAK, "%u allocation(s) left after releasing everything", sim_alloc_live());
    sim_mark_nontrivial();
    sim_sig_add(1, sim_plan_hash(plan));
}

static void gen(const char *pr, struct sim_rng *r, struct sim_plan *p)
{
    p->cfg[CFG_PROP] = atoi(pr + 1);
    p->cfg[CFG_KIND] = sim_rng_chance(r, 2, 3) ? K_PIC : K_SOUND;
    p->cfg[CFG_POOL] = sim_rng_below(r, 5);
    p->cfg[CFG_FORMAT] = sim_rng_below(r, 2);
    p->cfg[CFG_HPRE] = sim_rng_below(r, 4);
    p->cfg[CFG_HAPP] = sim_rng_below(r, 4);
    p->cfg[CFG_VPRE] = sim_rng_below(r, 3);
    p->cfg[CFG_VAPP] = sim_rng_below(r, 3);
    p->cfg[CFG_ALIGN] = sim_rng_below(r, 20);
    p->cfg[CFG_FAULTS] = sim_rng_chance(r, 1, 3);
    int n = 6 + (int)sim_rng_below(r, 40);
    sim_plan_add(p, 0, OP_ALLOC, sim_rng_below(r, 15), sim_rng_below(r, 7), 0, 0, 0, 0);
    for (int i = 0; i < n; i++) {
        uint32_t c = sim_rng_below(r, 100);
        int64_t f = p->cfg[CFG_FAULTS] && sim_rng_chance(r, 1, 4) ? 1 + sim_rng_below(r, 4) : 0;
        int h = (int)sim_rng_below(r, MAXH);
        if (c < 12) sim_plan_add(p, 0, OP_ALLOC, sim_rng_below(r, 15), sim_rng_below(r, 7), 0, 0, 0, f);
        else if (c < 34) sim_plan_add(p, 0, OP_DUP, h, 0, 0, 0, 0, f);
        else if (c < 52) sim_plan_add(p, 0, OP_RESIZE, h, sim_rng_below(r, 8), sim_rng_below(r, 8), sim_rng_below(r, 4), sim_rng_below(r, 4), 0);
        else if (c < 74) sim_plan_add(p, 0, OP_WRITE, h, sim_rng_below(r, 3), (int64_t)(sim_rng_next(r) >> 24), sim_rng_below(r, 250), 0, 0);
        else if (c < 80) sim_plan_add(p, 0, OP_COPY, h, sim_rng_below(r, 3), sim_rng_below(r, 3), sim_rng_below(r, 4), 0, f);
        else if (c < 86) sim_plan_add(p, 0, OP_REPLACE, h, sim_rng_below(r, 3), sim_rng_below(r, 3), sim_rng_below(r, 4), 0, f);
        else sim_plan_add(p, 0, OP_FREE, h, 0, 0, 0, 0, 0);
    }
}

static const char *const props[] = { "C02", NULL };
const struct sim_engine sim_engine = {
    .name = "ebufps", .props = props, .gen = gen, .run = run,
    .class_name = class_name, .op_name = op_name,
};

int main(int argc, char **argv) { return sim_main(argc, argv); }
