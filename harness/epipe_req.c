/*
 * C12 (in-thread part): requests travel downstream, answers travel back,
 * surviving re-plumbing. Included by epipe.c (same translation unit).
 *
 * The application registers requests (sink latency, flow format) on the head
 * pipe of a chain. Providers: the mock sink at the tail (lodges the request,
 * answers when the plan says so, possibly several times) or, when a pipe has
 * no output, the probe of that pipe (answers at once or not at all, like the
 * uprobe_* providers do). Oracle, evaluated after every operation: each
 * registered request is lodged exactly once at the sink the chain currently
 * leads to and nowhere else; an answer given to a lodged proxy reaches the
 * original callback once, with the value given; no callback after unregister.
 */

#define NREQ 4
struct hreq {
    struct urequest ureq;
    bool inited, registered;
    int type;
    int ncb;
    uint64_t last_value;
    bool last_was_uref;
    int action;                 /* what the callback does: 0 nothing, 1 register another
                                 * request again, 2 send a buffer */
};
static struct hreq hreqs[NREQ];
static bool probe_answers;      /* probe providers answer immediately */
static bool probe_unhandled;    /* no probe of the hierarchy provides this kind of request: the event comes back unhandled */
static int req_in_register = -1;

static int hreq_provide(struct urequest *ur, va_list args)
{
    struct hreq *r = container_of(ur, struct hreq, ureq);
    int k = (int)(r - hreqs);
    sim_ev("request_answer", (uint64_t)k, 0);
    if (!r->registered) {
        sim_violation(V_REQ_AFTER_UNREGISTER, "callback of request %d invoked although it is not registered", k);
        if (r->type == UREQUEST_FLOW_FORMAT) {
            struct uref *u = va_arg(args, struct uref *);
            uref_free(u);
        }
        return UBASE_ERR_NONE;
    }
    r->ncb++;
    if (r->type == UREQUEST_SINK_LATENCY) {
        r->last_value = va_arg(args, uint64_t);
        r->last_was_uref = false;
    } else {
        struct uref *u = va_arg(args, struct uref *);
        r->last_value = 0;
        if (u != NULL)
            uref_attr_get_unsigned(u, &r->last_value, UDICT_TYPE_UNSIGNED, "x.ans");
        r->last_was_uref = true;
        uref_free(u);           /* the answer belongs to the requester */
    }
    /* requesters act on answers: they ask again for something else, or start
     * sending (upipe_helper_flow_format / ubuf_mgr do the former) */
    if (r->action && req_actions_left > 0 && usable(0) && !sim_violation_class()) {
        req_actions_left--;
        if (r->action == 1) {
            struct hreq *o = &hreqs[(k + 1) % NREQ];
            if (o->registered && o->type == UREQUEST_SINK_LATENCY) {
                SIM_PROBE("req_reregistered_from_callback");
                o->registered = false;
                upipe_control(pipes[0].upipe, UPIPE_UNREGISTER_REQUEST, &o->ureq);
                o->ureq.registered = false;
                o->registered = true;
                upipe_register_request(pipes[0].upipe, &o->ureq);
            }
        } else if (r->action == 2) {
            struct sim_op in = { 0, OP_INPUT, { 0, 4, 0, 0, 0, 0 } };
            struct mu u;
            struct uref *uref = build_uref(&in, &u);
            if (uref != NULL) {
                SIM_PROBE("req_buffer_sent_from_callback");
                m_input(0, u);
                upipe_input(pipes[0].upipe, uref, NULL);
            }
        }
    }
    return UBASE_ERR_NONE;
}

void req_reset(void)
{
    memset(hreqs, 0, sizeof(hreqs));
    req_in_register = -1;
}

/* follows the chain of proxies up to the application's request */
static int req_root(struct urequest *u)
{
    for (int depth = 0; depth < 12 && u != NULL; depth++) {
        for (int k = 0; k < NREQ; k++)
            if (u == &hreqs[k].ureq)
                return k;
        u = urequest_get_opaque(u, struct urequest *);
    }
    return -1;
}

/* where the chain starting at the head currently ends */
static int req_terminal(void)
{
    int node = 0;
    for (int guard = 0; guard < MAXP + 1; guard++) {
        if (node >= 100 || node < 0)
            return node;
        if (!pipes[node].exists || pipes[node].probe.ndead)
            return -1;
        node = pipes[node].out;
    }
    return -1;
}

static void answer(struct urequest *proxy, int type, uint64_t value)
{
    if (type == UREQUEST_SINK_LATENCY)
        urequest_provide_sink_latency(proxy, value);
    else {
        struct uref *u = uref_alloc(uref_mgr);
        if (u == NULL)
            return;
        uref_flow_set_def(u, "block.ans.");
        uref_attr_set_unsigned(u, value, UDICT_TYPE_UNSIGNED, "x.ans");
        urequest_provide_flow_format(proxy, u);
    }
}

static void req_sink_sync_answer(int sink, struct urequest *proxy)
{
    int k = req_root(proxy);
    if (k < 0)
        return;
    SIM_PROBE("req_answered_inside_register");
    int before = hreqs[k].ncb;
    uint64_t value = 9000 + (uint64_t)sink;
    answer(proxy, hreqs[k].type, value);
    if (hreqs[k].registered && !sim_violation_class() && hreqs[k].ncb < before + 1)
        sim_violation(V_REQ_ANSWER, "answer given by sink %d from inside register_request did not reach request %d",
                      sink, k);
}

int req_probe_provide(struct tprobe *p, struct upipe *upipe, struct urequest *urequest)
{
    (void)upipe;
    int k = req_root(urequest);
    sim_ev("provide_request_at_probe", (uint64_t)p->id, (uint64_t)(int64_t)k);
    if (k < 0)
        return UBASE_ERR_NONE;  /* not one of ours (a pipe's own request) */
    SIM_PROBE("req_reached_probe_of_last_pipe");
    if (!probe_answers) {
        /* (what a real hierarchy without a provider for that type gives: the
         * requester sees "unhandled", the request stays registered and must be
         * re-issued when an output is connected) */
        if (probe_unhandled)
            SIM_PROBE("req_unhandled_by_every_probe");
        return probe_unhandled ? UBASE_ERR_UNHANDLED : UBASE_ERR_NONE;
    }
    int before = hreqs[k].ncb;
    uint64_t value = 7000 + (uint64_t)p->id;
    answer(urequest, hreqs[k].type, value);
    if (hreqs[k].registered && (hreqs[k].ncb != before + 1 || hreqs[k].last_value != value))
        sim_violation(V_REQ_ANSWER, "answer given by the probe of node %d did not reach request %d "
                      "(callbacks %d -> %d, value %" PRIu64 ")", p->id, k, before, hreqs[k].ncb,
                      hreqs[k].last_value);
    return UBASE_ERR_NONE;
}

bool req_check_quiescent(const char *when)
{
    if (stop_checking || !usable(0))
        return true;
    int terminal = req_terminal();
    for (int j = 0; j < nsinks; j++) {
        struct msink *s = &sinks[j];
        int count[NREQ] = { 0 };
        for (int i = 0; i < s->nlodged; i++) {
            int k = req_root(s->lodged[i]);
            if (k < 0) {
                sim_violation(V_REQ_ROUTING, "after %s: sink %d holds a request that does not lead back to the "
                              "application", when, j);
                return false;
            }
            count[k]++;
        }
        for (int k = 0; k < NREQ; k++) {
            int want = hreqs[k].registered && terminal == 100 + j ? 1 : 0;
            if (count[k] != want) {
                sim_violation(V_REQ_ROUTING, "after %s: request %d is lodged %d time(s) at sink %d, expected %d "
                              "(registered=%d, the chain ends at node %d)", when, k, count[k], j, want,
                              hreqs[k].registered, terminal);
                return false;
            }
        }
    }
    return true;
}

void req_do_op(const struct sim_op *op)
{
    if (!usable(0))
        return;
    int k = (int)((uint64_t)op->a[0] % NREQ);
    struct hreq *r = &hreqs[k];
    switch (op->code) {
    case OP_REQ_REGISTER: {
        if (r->registered)
            return;
        r->type = (uint64_t)op->a[1] & 1 ? UREQUEST_FLOW_FORMAT : UREQUEST_SINK_LATENCY;
        struct uref *ff = NULL;
        if (r->type == UREQUEST_FLOW_FORMAT) {
            ff = uref_alloc(uref_mgr);
            if (ff == NULL)
                return;
            uref_flow_set_def(ff, "block.want.");
        }
        urequest_init(&r->ureq, r->type, ff, hreq_provide, NULL);
        r->inited = true;
        r->registered = true;
        r->ncb = 0;
        r->action = (int)((uint64_t)op->a[3] % 3);
        probe_answers = ((uint64_t)op->a[2] & 1) != 0;
        probe_unhandled = ((uint64_t)op->a[2] & 2) != 0;
        int ret = upipe_register_request(pipes[0].upipe, &r->ureq);
        SIM_PROBE("req_registered");
        if (!ubase_check(ret) && ret != UBASE_ERR_UNHANDLED)
            sim_violation(V_CONTROL, "register_request on %s failed (%d)", type_name(pipes[0].type), ret);
        break;
    }
    case OP_REQ_UNREGISTER: {
        if (!r->registered)
            return;
        /* from the moment the application asks, no callback is acceptable */
        r->registered = false;
        /* upipe_unregister_request() wants the flag as the pipes left it */
        int ret = upipe_control(pipes[0].upipe, UPIPE_UNREGISTER_REQUEST, &r->ureq);
        r->ureq.registered = false;
        SIM_PROBE("req_unregistered");
        if (!ubase_check(ret) && ret != UBASE_ERR_UNHANDLED)
            sim_violation(V_CONTROL, "unregister_request on %s failed (%d)", type_name(pipes[0].type), ret);
        uref_free(r->ureq.uref);
        r->ureq.uref = NULL;
        break;
    }
    case OP_REQ_PROVIDE: {
        if (nsinks == 0)
            return;
        struct msink *s = &sinks[(uint64_t)op->a[0] % (uint64_t)nsinks];
        if (s->nlodged == 0)
            return;
        struct urequest *proxy = s->lodged[(uint64_t)op->a[1] % (uint64_t)s->nlodged];
        int root = req_root(proxy);
        if (root < 0)
            return;
        int repeat = 1 + (int)((uint64_t)op->a[3] % 2);
        for (int i = 0; i < repeat && !sim_violation_class(); i++) {
            int before = hreqs[root].ncb;
            uint64_t value = 100 + (uint64_t)op->a[2] % 1000 + (uint64_t)i;
            answer(proxy, hreqs[root].type, value);
            SIM_PROBE("req_answered_by_sink");
            if (hreqs[root].ncb != before + 1 || hreqs[root].last_value != value)
                sim_violation(V_REQ_ANSWER, "answer %" PRIu64 " given at sink %d did not reach request %d "
                              "(callbacks %d -> %d, value seen %" PRIu64 ")", value, s->id, root, before,
                              hreqs[root].ncb, hreqs[root].last_value);
        }
        break;
    }
    }
}

void req_pre_teardown(bool unregister_first)
{
    for (int k = 0; k < NREQ; k++) {
        struct hreq *r = &hreqs[k];
        if (!r->registered)
            continue;
        if (unregister_first && usable(0)) {
            r->registered = false;
            upipe_control(pipes[0].upipe, UPIPE_UNREGISTER_REQUEST, &r->ureq);
            r->ureq.registered = false;
        } else {
            /* the application walks away: the chain is about to be released
             * with the request still registered; nothing may call back */
            r->registered = false;
            SIM_PROBE("req_chain_released_with_request_registered");
        }
    }
}

void req_teardown(void)
{
    for (int k = 0; k < NREQ; k++)
        if (hreqs[k].inited) {
            uref_free(hreqs[k].ureq.uref);
            hreqs[k].ureq.uref = NULL;
        }
}

void gen_req(struct sim_rng *r, struct sim_plan *p)
{
    p->cfg[CFG_PROP] = P_C12;
    p->cfg[CFG_TOPO] = sim_rng_chance(r, 5, 6) ? TOPO_CHAIN : TOPO_DUP;
    p->cfg[CFG_NPIPES] = 1 + sim_rng_below(r, 4);
    for (int i = 0; i < 4; i++)
        p->cfg[CFG_TYPES + i] = sim_rng_below(r, T__CHAIN_N);
    p->cfg[CFG_UREF_POOL] = sim_rng_below(r, 5);
    p->cfg[CFG_UDICT_POOL] = sim_rng_below(r, 5);
    p->cfg[CFG_UBUF_POOL] = sim_rng_below(r, 5);
    p->cfg[CFG_TEARDOWN] = sim_rng_below(r, 4);
    p->cfg[CFG_NSUBS] = sim_rng_below(r, 3);
    p->cfg[CFG_REACT] = sim_rng_chance(r, 1, 4) ? 1 + sim_rng_below(r, 2) : 0;
    int n = 5 + (int)sim_rng_below(r, 26);
    for (int i = 0; i < n; i++) {
        uint32_t c = sim_rng_below(r, 100);
        int pp = (int)sim_rng_below(r, MAXP);
        if (c < 26) sim_plan_add(p, 0, OP_REQ_REGISTER, sim_rng_below(r, NREQ), sim_rng_below(r, 2), sim_rng_below(r, 4), sim_rng_chance(r, 1, 2) ? sim_rng_below(r, 3) : 0, 0, 0);
        else if (c < 40) sim_plan_add(p, 0, OP_REQ_UNREGISTER, sim_rng_below(r, NREQ), 0, 0, 0, 0, 0);
        else if (c < 58) sim_plan_add(p, 0, OP_REQ_PROVIDE, sim_rng_below(r, MAXS), sim_rng_below(r, 8), sim_rng_below(r, 1000), sim_rng_below(r, 2), 0, 0);
        else if (c < 84) sim_plan_add(p, 0, OP_SET_OUTPUT, pp, sim_rng_below(r, 4), 0, sim_rng_below(r, 4), 0, 0);
        else if (c < 89) sim_plan_add(p, 0, OP_RELEASE, pp, 0, 0, 0, 0, 0);
        else if (c < 94) sim_plan_add(p, 0, OP_SET_FLOW_DEF, sim_rng_below(r, 2), sim_rng_below(r, 3), 0, 0, 0, 0);
        else sim_plan_add(p, 0, OP_INPUT, sim_rng_below(r, 3), sim_rng_below(r, 10), 0, 0, 0, 0);
    }
}
