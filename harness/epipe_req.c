/* C12: requests travel downstream, answers travel back (stub, filled below) */
#include "epipe.h"
struct tprobe;
void req_reset(void) {}
void req_teardown(void) {}
bool req_check_quiescent(const char *when) { (void)when; return true; }
void req_do_op(const struct sim_op *op) { (void)op; }
void req_probe_provide(struct tprobe *p, struct upipe *upipe, struct urequest *urequest) { (void)p; (void)upipe; (void)urequest; }
void gen_req(struct sim_rng *r, struct sim_plan *p) { (void)r; (void)p; }
