/*
 * E-loop: C13 — a pump fires only while started and not blocked.
 * Real code: lib/upipe/upump_common.c, include/upipe/{upump,upump_blocker,
 * upump_common}.h. Back end: sim/upump_sim.c (in place of libev).
 * Single simulated thread; the nondeterminism is the order in which ready
 * watchers are dispatched, spurious fd dispatches, timer lateness, allocation
 * failures and what callbacks do to other pumps.
 */
#define _GNU_SOURCE
#include "../sim/sim.h"
#include "../sim/alloc.h"
#include "../sim/upump_sim.h"

#include <upipe/ubase.h>
#include <upipe/upump.h>
#include <upipe/upump_blocker.h>
#include <sys/eventfd.h>

#include <stdlib.h>
#include <string.h>

enum {
    V_ACTIVE_MISMATCH = 1,  /* back end active != started && no blocker */
    V_BACKEND_CALL,         /* unexpected / missing / wrong-status back-end call */
    V_DISPATCH_INACTIVE,    /* callback invoked for a stopped/blocked/freed pump */
    V_TIMER_EARLY,          /* timer fired before its deadline */
    V_NOT_READY,            /* fd watcher dispatched although not readable */
    V_BLOCKER_NOTIFY,       /* blocker callback not exactly once at free */
    V_STATUS,               /* get_status disagrees */
    V_LEAK,                 /* pump / blocker structure left allocated */
    V_ALLOC_FAIL,           /* allocation failure mishandled */
};

static const char *class_name(int cls)
{
    switch (cls) {
    case V_ACTIVE_MISMATCH: return "active_mismatch";
    case V_BACKEND_CALL: return "backend_call";
    case V_DISPATCH_INACTIVE: return "dispatch_inactive";
    case V_TIMER_EARLY: return "timer_early";
    case V_NOT_READY: return "dispatch_not_ready";
    case V_BLOCKER_NOTIFY: return "blocker_notify";
    case V_STATUS: return "status";
    case V_LEAK: return "leak";
    case V_ALLOC_FAIL: return "alloc_failure";
    }
    return NULL;
}

enum {
    OP_ALLOC = 1, OP_START, OP_STOP, OP_RESTART, OP_SET_STATUS, OP_GET_STATUS,
    OP_BLOCK, OP_UNBLOCK, OP_RUN, OP_ADVANCE, OP_FD_WRITE, OP_FD_READ, OP_FREE,
    OP_CB_ACTION,
};

static const char *op_name(int code)
{
    static const char *n[] = { "?", "alloc", "start", "stop", "restart",
        "set_status", "get_status", "blocker_alloc", "blocker_free", "run",
        "advance", "fd_write", "fd_read", "free", "cb_action" };
    return code >= 1 && code <= OP_CB_ACTION ? n[code] : "?";
}

enum { CB_NONE = 0, CB_STOP_SELF, CB_STOP_OTHER, CB_START_OTHER, CB_BLOCK_SELF,
       CB_FREE_OTHER, CB_FREE_SELF, CB_RESTART_SELF, CB_UNBLOCK_OTHER, CB__N };

enum { CFG_PUMP_POOL = 0, CFG_BLOCKER_POOL, CFG_SPURIOUS, CFG_LATE };

#define NP 3
#define NB 3
struct mblocker { struct upump_blocker *b; bool live; int notified; };
struct mpump {
    bool live;
    int type;
    uint64_t after, repeat;
    int fd;
    /* reference automaton */
    bool started, status;
    int nblockers;
    /* mirror of what the back end must be doing */
    bool be_active, spent;
    uint64_t deadline;
    struct upump *upump;
    struct mblocker bl[NB];
    int cb_action, cb_target;
    int id;
};
static struct mpump mp[NP];
static struct upump_mgr *mgr;
static bool in_free;            /* inside upump_free of some pump */

/* expected back-end calls of the operation in progress */
static struct { int ev; bool status; int pump; } expect[8];
static int nexpect, expect_pos;

static void expect_reset(void) { nexpect = expect_pos = 0; }
static void expect_add(int pump, int ev, bool status)
{
    expect[nexpect].pump = pump;
    expect[nexpect].ev = ev;
    expect[nexpect].status = status;
    nexpect++;
}

static const char *ev_name(int ev)
{
    static const char *n[] = { "alloc", "real_start", "real_stop", "real_restart",
                               "dispatch", "dispatch_done", "free" };
    return n[ev];
}

static void expect_done(const char *what, int p)
{
    if (expect_pos != nexpect)
        sim_violation(V_BACKEND_CALL, "%s(pump %d): back end did not receive %s",
                      what, p, ev_name(expect[expect_pos].ev));
    expect_reset();
}

static int pump_index(struct upump *upump)
{
    for (int i = 0; i < NP; i++)
        if (mp[i].live && mp[i].upump == upump)
            return i;
    return -1;
}

static void check_active(const char *what, int p)
{
    if (!mp[p].live || sim_violation_class())
        return;
    bool want = mp[p].started && mp[p].nblockers == 0;
    bool got = upump_sim_active(mp[p].upump);
    if (want != got)
        sim_violation(V_ACTIVE_MISMATCH,
                      "after %s(pump %d): back end %s but started=%d blockers=%d",
                      what, p, got ? "active" : "inactive", mp[p].started,
                      mp[p].nblockers);
}

static void check_all(const char *what)
{
    for (int i = 0; i < NP; i++)
        check_active(what, i);
}

static void m_start(int p);
static void m_stop(int p);
static void m_restart(int p);
static void m_block(int p, int fault);
static void m_unblock(int p, int k);
static void m_free(int p);

static void observer(struct upump_mgr *m, struct upump *upump,
                     enum upump_sim_event ev, bool status)
{
    (void)m;
    if (ev == UPUMP_SIM_ALLOC || ev == UPUMP_SIM_DISPATCH_DONE)
        return;
    int p = pump_index(upump);
    sim_ev(ev_name(ev), (uint64_t)(int64_t)p, status);
    if (p < 0) {
        sim_violation(V_BACKEND_CALL, "back-end %s for an unknown pump", ev_name(ev));
        return;
    }
    struct mpump *q = &mp[p];
    if (ev == UPUMP_SIM_DISPATCH) {
        if (!q->started || q->nblockers > 0 || in_free)
            sim_violation(V_DISPATCH_INACTIVE,
                          "callback of pump %d invoked while started=%d blockers=%d",
                          p, q->started, q->nblockers);
        else if (q->type == UPUMP_TYPE_TIMER && q->spent)
            sim_violation(V_DISPATCH_INACTIVE, "one-shot timer %d fired twice", p);
        else if (q->type == UPUMP_TYPE_TIMER && sim_now() < q->deadline)
            sim_violation(V_TIMER_EARLY, "timer %d fired %llu ticks early", p,
                          (unsigned long long)(q->deadline - sim_now()));
        if (q->type == UPUMP_TYPE_TIMER) {
            if (q->repeat) {
                q->deadline += q->repeat;
                if (q->deadline < sim_now())
                    q->deadline = sim_now();
            } else
                q->spent = true;
        }
        return;
    }
    if (ev == UPUMP_SIM_FREE) {
        if (expect_pos < nexpect && expect[expect_pos].ev == UPUMP_SIM_FREE &&
            expect[expect_pos].pump == p)
            expect_pos++;
        else
            sim_violation(V_BACKEND_CALL, "unexpected free of pump %d", p);
        return;
    }
    /* real_start / real_stop / real_restart */
    if (expect_pos >= nexpect || expect[expect_pos].ev != (int)ev ||
        expect[expect_pos].pump != p) {
        sim_violation(V_BACKEND_CALL, "unexpected %s(pump %d, status %d); expected %s",
                      ev_name(ev), p, status,
                      expect_pos < nexpect ? ev_name(expect[expect_pos].ev) : "nothing");
        return;
    }
    if (expect[expect_pos].status != status) {
        sim_violation(V_BACKEND_CALL, "%s(pump %d) with status %d, %d is in force",
                      ev_name(ev), p, status, expect[expect_pos].status);
        return;
    }
    expect_pos++;
    switch (ev) {
    case UPUMP_SIM_REAL_START:
        if (q->be_active)
            sim_violation(V_BACKEND_CALL, "real_start(pump %d) while already active", p);
        if (q->type == UPUMP_TYPE_TIMER)
            q->deadline = sim_now() + q->after;
        q->be_active = true;
        q->spent = false;
        break;
    case UPUMP_SIM_REAL_STOP:
        if (!q->be_active)
            sim_violation(V_BACKEND_CALL, "real_stop(pump %d) while not active", p);
        q->be_active = false;
        q->spent = false;
        break;
    case UPUMP_SIM_REAL_RESTART:
        if (q->type == UPUMP_TYPE_TIMER) {
            if (q->be_active && !q->spent && q->repeat)
                q->deadline = sim_now() + q->repeat;
            else
                q->deadline = sim_now() + q->after;
            q->be_active = true;
            q->spent = false;
        }
        /* restart of a non-timer does not (re)start anything in upump_ev */
        break;
    default:
        break;
    }
}

static void blocker_cb(struct upump_blocker *blocker)
{
    struct mblocker *mb = blocker->opaque;
    sim_ev("blocker_cb", 0, 0);
    mb->notified++;
    if (!in_free)
        sim_violation(V_BLOCKER_NOTIFY, "blocker callback outside of upump_free");
    if (!mb->live || mb->notified > 1)
        sim_violation(V_BLOCKER_NOTIFY, "blocker notified %d times (live=%d)",
                      mb->notified, mb->live);
    /* like upipe_helper_input: the callback lets go of the blocker */
    mb->live = false;
    mb->b = NULL;
    upump_blocker_free(blocker);
}

static void pump_cb(struct upump *upump)
{
    int p = pump_index(upump);
    if (p < 0)
        return;
    struct mpump *q = &mp[p];
    int other = q->cb_target % NP;
    if (q->type == UPUMP_TYPE_FD_READ && q->cb_action == CB_NONE) {
        /* consume the event like ueventfd users do */
        eventfd_t v;
        if (sim_fd_readable(q->fd))
            eventfd_read(q->fd, &v);
    }
    switch (q->cb_action) {
    case CB_STOP_SELF: m_stop(p); break;
    case CB_STOP_OTHER: m_stop(other); break;
    case CB_START_OTHER: m_start(other); break;
    case CB_BLOCK_SELF: m_block(p, 0); break;
    case CB_FREE_OTHER: if (other != p) m_free(other); break;
    case CB_FREE_SELF: m_free(p); break;
    case CB_RESTART_SELF: m_restart(p); break;
    case CB_UNBLOCK_OTHER: m_unblock(other, 0); break;
    default: break;
    }
    if (mp[p].live && mp[p].type == UPUMP_TYPE_IDLER && mp[p].cb_action == CB_NONE &&
        mp[p].started && mp[p].nblockers == 0) {
        /* an idler would spin for ever: it stops itself after a while */
        static int spins;
        if (++spins % 3 == 0)
            m_stop(p);
    }
}

static void m_alloc(int p, int type, uint64_t after, uint64_t repeat, int fault)
{
    struct mpump *q = &mp[p];
    if (q->live)
        return;
    memset(q, 0, sizeof(*q));
    q->type = type;
    q->after = after;
    q->repeat = repeat;
    q->fd = -1;
    if (type == UPUMP_TYPE_FD_READ)
        q->fd = eventfd(0, EFD_NONBLOCK);
    if (fault)
        sim_alloc_arm(1);
    struct upump *u = NULL;
    switch (type) {
    case UPUMP_TYPE_IDLER: u = upump_alloc_idler(mgr, pump_cb, NULL, NULL); break;
    case UPUMP_TYPE_TIMER: u = upump_alloc_timer(mgr, pump_cb, NULL, NULL, after, repeat); break;
    case UPUMP_TYPE_FD_READ: u = upump_alloc_fd_read(mgr, pump_cb, NULL, NULL, q->fd); break;
    }
    bool fired = fault && sim_alloc_disarm() == 0;
    if (u == NULL) {
        if (!fired)
            sim_violation(V_ALLOC_FAIL, "pump allocation failed without a fault");
        if (q->fd >= 0)
            close(q->fd);
        return;
    }
    if (fired) {
        sim_violation(V_ALLOC_FAIL, "pump allocated although its allocation failed");
        return;
    }
    q->live = true;
    q->upump = u;
    q->status = true;
    q->id = upump_sim_id(u);
    check_active("alloc", p);
}

static void m_start(int p)
{
    struct mpump *q = &mp[p];
    if (!q->live)
        return;
    expect_reset();
    if (!q->started) {
        q->started = true;
        if (q->nblockers == 0)
            expect_add(p, UPUMP_SIM_REAL_START, q->status);
    }
    upump_start(q->upump);
    expect_done("start", p);
    check_active("start", p);
}

static void m_stop(int p)
{
    struct mpump *q = &mp[p];
    if (!q->live)
        return;
    expect_reset();
    if (q->started) {
        q->started = false;
        if (q->nblockers == 0)
            expect_add(p, UPUMP_SIM_REAL_STOP, q->status);
    }
    upump_stop(q->upump);
    expect_done("stop", p);
    check_active("stop", p);
}

static void m_restart(int p)
{
    struct mpump *q = &mp[p];
    if (!q->live || q->type != UPUMP_TYPE_TIMER)
        return;                 /* restart is specified for timers */
    expect_reset();
    q->started = true;
    if (q->nblockers == 0)
        expect_add(p, UPUMP_SIM_REAL_RESTART, q->status);
    upump_restart(q->upump);
    expect_done("restart", p);
    check_active("restart", p);
}

static void m_set_status(int p, bool status)
{
    struct mpump *q = &mp[p];
    if (!q->live)
        return;
    expect_reset();
    if (q->started && q->nblockers == 0) {
        expect_add(p, UPUMP_SIM_REAL_STOP, q->status);
        expect_add(p, UPUMP_SIM_REAL_START, status);
    }
    q->status = status;
    upump_set_status(q->upump, status);
    expect_done("set_status", p);
    check_active("set_status", p);
}

static void m_get_status(int p)
{
    struct mpump *q = &mp[p];
    if (!q->live)
        return;
    bool s = !q->status;
    expect_reset();
    upump_get_status(q->upump, &s);
    expect_done("get_status", p);
    if (s != q->status)
        sim_violation(V_STATUS, "get_status(pump %d) = %d, %d was set", p, s, q->status);
    check_active("get_status", p);
}

static void m_block(int p, int fault)
{
    struct mpump *q = &mp[p];
    if (!q->live)
        return;
    int k;
    for (k = 0; k < NB; k++)
        if (!q->bl[k].live)
            break;
    if (k == NB)
        return;
    expect_reset();
    if (fault)
        sim_alloc_arm(1);
    unsigned failed_before = sim_alloc_failed();
    /* the expectation depends on whether the allocation succeeds */
    bool suspend = q->started && q->nblockers == 0;
    if (suspend)
        expect_add(p, UPUMP_SIM_REAL_STOP, q->status);
    q->bl[k].notified = 0;
    struct upump_blocker *b = upump_blocker_alloc(q->upump, blocker_cb, &q->bl[k]);
    if (fault)
        sim_alloc_disarm();
    bool fired = sim_alloc_failed() != failed_before;
    if (b == NULL) {
        if (!fired)
            sim_violation(V_ALLOC_FAIL, "blocker allocation failed without a fault");
        if (expect_pos != 0)
            sim_violation(V_BACKEND_CALL, "failed blocker allocation suspended pump %d", p);
        expect_reset();
        SIM_PROBE("c13_blocker_alloc_failed");
        check_active("blocker_alloc(failed)", p);
        return;
    }
    q->bl[k].b = b;
    q->bl[k].live = true;
    q->nblockers++;
    expect_done("blocker_alloc", p);
    check_active("blocker_alloc", p);
    if (q->started && q->nblockers == 1)
        SIM_PROBE("c13_suspended_by_blocker");
}

static void m_unblock(int p, int k)
{
    struct mpump *q = &mp[p];
    if (!q->live || q->nblockers == 0)
        return;
    int n = 0, pick = -1;
    for (int i = 0; i < NB; i++)
        if (q->bl[i].live && n++ == k % q->nblockers)
            pick = i;
    if (pick < 0)
        return;
    expect_reset();
    q->nblockers--;
    if (q->started && q->nblockers == 0) {
        expect_add(p, UPUMP_SIM_REAL_START, q->status);
        SIM_PROBE("c13_resumed_by_last_blocker");
    }
    struct upump_blocker *b = q->bl[pick].b;
    q->bl[pick].live = false;
    q->bl[pick].b = NULL;
    upump_blocker_free(b);
    expect_done("blocker_free", p);
    check_active("blocker_free", p);
}

static void m_free(int p)
{
    struct mpump *q = &mp[p];
    if (!q->live || in_free)
        return;
    expect_reset();
    if (q->started && q->nblockers == 0)
        expect_add(p, UPUMP_SIM_REAL_STOP, q->status);
    expect_add(p, UPUMP_SIM_FREE, true);
    q->started = false;
    int outstanding = q->nblockers;
    in_free = true;
    upump_free(q->upump);
    in_free = false;
    expect_done("free", p);
    int notified = 0;
    for (int i = 0; i < NB; i++) {
        notified += q->bl[i].notified;
        if (q->bl[i].live)
            sim_violation(V_BLOCKER_NOTIFY, "blocker %d of pump %d not notified at free", i, p);
        q->bl[i].notified = 0;
    }
    if (notified != outstanding)
        sim_violation(V_BLOCKER_NOTIFY, "free(pump %d): %d blocker(s) outstanding, %d notified",
                      p, outstanding, notified);
    if (outstanding)
        SIM_PROBE("c13_free_with_blockers");
    q->live = false;
    q->nblockers = 0;
    if (q->fd >= 0)
        close(q->fd);
    q->fd = -1;
}

static uint64_t state_hash(void)
{
    uint64_t h = 7;
    for (int i = 0; i < NP; i++) {
        struct mpump *q = &mp[i];
        h = sim_mix(h, (uint64_t)q->live | (uint64_t)q->type << 1 | (uint64_t)q->started << 4 |
                    (uint64_t)q->status << 5 | (uint64_t)q->nblockers << 6 |
                    (uint64_t)q->spent << 9 | (uint64_t)q->cb_action << 10 |
                    (uint64_t)(q->fd >= 0 && sim_fd_readable(q->fd)) << 14 |
                    (uint64_t)(q->repeat != 0) << 15);
    }
    return h;
}

static void gen(const char *prop, struct sim_rng *r, struct sim_plan *p)
{
    (void)prop;
    static const int depths[] = { 0, 0, 2, 8 };
    p->cfg[CFG_PUMP_POOL] = depths[sim_rng_below(r, 4)];
    p->cfg[CFG_BLOCKER_POOL] = depths[sim_rng_below(r, 4)];
    p->cfg[CFG_SPURIOUS] = sim_rng_chance(r, 1, 4) ? 100 : 0;
    p->cfg[CFG_LATE] = sim_rng_chance(r, 1, 4) ? 200 : 0;
    int npumps = 1 + (int)sim_rng_below(r, 2) + (sim_rng_chance(r, 1, 6) ? 1 : 0);
    for (int i = 0; i < npumps; i++) {
        int type = (int)sim_rng_below(r, 4);
        sim_plan_add(p, 0, OP_ALLOC, i, type, 1 + sim_rng_below(r, 5), /* after */
                     sim_rng_below(r, 4), 0, sim_rng_chance(r, 1, 40));
    }
    int n = 5 + (int)sim_rng_below(r, 21);
    for (int i = 0; i < n; i++) {
        int pp = (int)sim_rng_below(r, (uint32_t)npumps);
        uint32_t k = sim_rng_below(r, 100);
        if (k < 14) sim_plan_add(p, 0, OP_START, pp, 0, 0, 0, 0, 0);
        else if (k < 24) sim_plan_add(p, 0, OP_STOP, pp, 0, 0, 0, 0, 0);
        else if (k < 30) sim_plan_add(p, 0, OP_RESTART, pp, 0, 0, 0, 0, 0);
        else if (k < 37) sim_plan_add(p, 0, OP_SET_STATUS, pp, sim_rng_below(r, 2), 0, 0, 0, 0);
        else if (k < 40) sim_plan_add(p, 0, OP_GET_STATUS, pp, 0, 0, 0, 0, 0);
        else if (k < 54) sim_plan_add(p, 0, OP_BLOCK, pp, 0, 0, 0, 0, sim_rng_chance(r, 1, 10));
        else if (k < 66) sim_plan_add(p, 0, OP_UNBLOCK, pp, sim_rng_below(r, 3), 0, 0, 0, 0);
        else if (k < 78) sim_plan_add(p, 0, OP_RUN, 1 + sim_rng_below(r, 4), 0, 0, 0, 0, 0);
        else if (k < 82) sim_plan_add(p, 0, OP_ADVANCE, 1 + sim_rng_below(r, 6), 0, 0, 0, 0, 0);
        else if (k < 87) sim_plan_add(p, 0, OP_FD_WRITE, pp, 0, 0, 0, 0, 0);
        else if (k < 89) sim_plan_add(p, 0, OP_FD_READ, pp, 0, 0, 0, 0, 0);
        else if (k < 93) sim_plan_add(p, 0, OP_FREE, pp, 0, 0, 0, 0, 0);
        else if (k < 96) sim_plan_add(p, 0, OP_ALLOC, pp, sim_rng_below(r, 4), 1 + sim_rng_below(r, 5),
                                      sim_rng_below(r, 4), 0, sim_rng_chance(r, 1, 20));
        else sim_plan_add(p, 0, OP_CB_ACTION, pp, sim_rng_below(r, CB__N),
                          sim_rng_below(r, (uint32_t)npumps), 0, 0, 0);
    }
}

#define TICK 27000ULL           /* plan time unit: 1 ms */

static void run(const char *prop, const struct sim_plan *plan)
{
    (void)prop;
    memset(mp, 0, sizeof(mp));
    in_free = false;
    expect_reset();
    sim_alloc_reset();
    sim_alloc_set_allow_list(NULL);
    upump_sim_observer = observer;
    static const int ok_depth[] = { 0, 1, 2, 8 };
    mgr = upump_sim_mgr_alloc((uint16_t)ok_depth[(uint64_t)plan->cfg[CFG_PUMP_POOL] % 4 == 0 ? 0 :
                                                  (plan->cfg[CFG_PUMP_POOL] == 2 ? 2 : 3)],
                              (uint16_t)ok_depth[(uint64_t)plan->cfg[CFG_BLOCKER_POOL] % 4 == 0 ? 0 :
                                                  (plan->cfg[CFG_BLOCKER_POOL] == 2 ? 2 : 3)]);
    upump_sim_mgr_set_faults(mgr, (uint32_t)((uint64_t)plan->cfg[CFG_SPURIOUS] % 512),
                             (uint32_t)((uint64_t)plan->cfg[CFG_LATE] % 512));
    for (int i = 0; i < plan->nops && !sim_violation_class(); i++) {
        const struct sim_op *op = &plan->ops[i];
        int p = (int)((uint64_t)op->a[0] % NP);
        sim_ev(op_name(op->code), (uint64_t)op->a[0], (uint64_t)op->a[1]);
        switch (op->code) {
        case OP_ALLOC: {
            static const int types[] = { UPUMP_TYPE_IDLER, UPUMP_TYPE_TIMER,
                                         UPUMP_TYPE_TIMER, UPUMP_TYPE_FD_READ };
            int t = (int)((uint64_t)op->a[1] % 4);
            uint64_t after = ((uint64_t)op->a[2] % 8) * TICK;
            uint64_t repeat = t == 2 ? (1 + (uint64_t)op->a[3] % 4) * TICK : 0;
            m_alloc(p, types[t], after, repeat, op->a[5] != 0);
            break;
        }
        case OP_START: m_start(p); break;
        case OP_STOP: m_stop(p); break;
        case OP_RESTART: m_restart(p); break;
        case OP_SET_STATUS: m_set_status(p, op->a[1] & 1); break;
        case OP_GET_STATUS: m_get_status(p); break;
        case OP_BLOCK: m_block(p, op->a[5] != 0); break;
        case OP_UNBLOCK: m_unblock(p, (int)((uint64_t)op->a[1] % NB)); break;
        case OP_RUN: {
            upump_sim_mgr_set_budget(mgr, 1 + (uint64_t)op->a[0] % 6);
            expect_reset();
            upump_mgr_run(mgr, NULL);
            sim_mark_nontrivial();
            break;
        }
        case OP_ADVANCE:
            sim_advance((1 + (uint64_t)op->a[0] % 8) * TICK);
            break;
        case OP_FD_WRITE:
            if (mp[p].live && mp[p].fd >= 0)
                eventfd_write(mp[p].fd, 1);
            break;
        case OP_FD_READ:
            if (mp[p].live && mp[p].fd >= 0) {
                eventfd_t v;
                eventfd_read(mp[p].fd, &v);
            }
            break;
        case OP_FREE: m_free(p); break;
        case OP_CB_ACTION:
            mp[p].cb_action = (int)((uint64_t)op->a[1] % CB__N);
            mp[p].cb_target = (int)((uint64_t)op->a[2] % NP);
            break;
        }
        if (!sim_violation_class())
            check_all(op_name(op->code));
        sim_sig_add(1, state_hash());
    }
    /* teardown: everything goes away, nothing may be left */
    if (!sim_violation_class()) {
        for (int i = 0; i < NP; i++)
            m_free(i);
        if (upump_sim_mgr_live_pumps(mgr) != 0)
            sim_violation(V_LEAK, "%u pump(s) still known to the back end",
                          upump_sim_mgr_live_pumps(mgr));
    }
    upump_sim_observer = NULL;
    bool clean = !sim_violation_class();
    upump_mgr_release(mgr);
    if (clean && sim_alloc_live() != 0) {
        char buf[200];
        sim_alloc_describe_live(buf, sizeof(buf));
        sim_violation(V_LEAK, "%u allocation(s) left after releasing the manager: %s",
                      sim_alloc_live(), buf);
    }
    if (clean && !sim_violation_class() && sim_fd_open_count() != 0)
        sim_violation(V_LEAK, "descriptor leak (harness)");
}

static const char *const props[] = { "C13", NULL };
const struct sim_engine sim_engine = {
    .name = "eloop", .props = props, .gen = gen, .run = run,
    .class_name = class_name, .op_name = op_name,
};

int main(int argc, char **argv) { return sim_main(argc, argv); }
