#ifndef EBUF_H
#define EBUF_H
#include "../sim/sim.h"
enum {
    V_SIZE = 1, V_CONTENT, V_ERROR_EXPECTED, V_UNEXPECTED_ERROR, V_ERROR_CHANGED,
    V_NOT_CONTIGUOUS, V_ACCESSOR, V_WRITE_SHARED, V_WRITE_REFUSED, V_ISOLATION,
    V_LEAK, V_DICT_LOOKUP, V_DICT_ITER, V_DICT_CMP, V_DICT_ERROR, V_FAULT_CHANGED,
};
enum { CFG_UBUF_POOL = 0, CFG_SHARED_POOL, CFG_PREPEND, CFG_APPEND, CFG_ALIGN,
       CFG_ALIGN_OFFSET, CFG_SUBOFFSET, CFG_FAULTS, CFG_DICT_POOL, CFG_DICT_MIN,
       CFG_DICT_EXTRA };
const char *dict_op_name(int code);
void gen_dict(struct sim_rng *r, struct sim_plan *p);
void run_dict(const struct sim_plan *plan);
#endif
