/* E-thread, second topology: plain queue sink(s) -> queue source between
 * application-made threads. Included by ethread.c.
 *
 * Thread 0 (the application) owns the queue source, its output (an
 * application sink) and an event loop; one or two producer threads own one
 * queue sink each and, unless the run is a "no event loop" run, an event loop
 * of their own. Each producer runs its part of the plan from a driver pump. */

#define MAX_PROD 2
int __wrap_pthread_create(pthread_t *, const pthread_attr_t *, void *(*)(void *), void *);
int __wrap_pthread_join(pthread_t, void **);

static struct prod {
    int id, task;
    pthread_t thread;
    struct upipe *qsink;
    struct upump_mgr *mgr;
    struct upump *driver, *timer;
    int next_op;
    bool noloop;
    uint32_t gen;               /* flow definition last set on the sink */
    uint64_t last_arrived;
    bool any_arrived;
    unsigned stalled;
    struct tagprobe probe;
} prods[MAX_PROD];
static int nprod;
static struct upipe *qsrc;
static unsigned source_ends;
static struct tagprobe probe_qsrc;
static struct upump *cons_driver, *cons_timer;
static int cons_next_op;
static bool qsrc_attached;

/* which producer sent it is kept in the high bits of the sequence number */
#define SEQ_PROD(seq) ((int)((seq) >> 32))

static int qsrc_catch(struct uprobe *uprobe, struct upipe *upipe, int event, va_list args)
{
    if (event != UPROBE_SOURCE_END)
        return uprobe_throw_next(uprobe, upipe, event, args);
    source_ends++;
    sim_ev("source_end", source_ends, 0);
    SIM_PROBE("thr_queue_source_end");
    if (!checking())
        return UBASE_ERR_NONE;
    if (sim_self() != APP)
        sim_violation(V_EVENT_THREAD, "end of source thrown on thread %d, the queue source lives on thread %d",
                      sim_self(), APP);
    if ((int)source_ends > nprod) {
        sim_violation(V_SOURCE_END, "end of source signalled %u times for %d sink(s)", source_ends, nprod);
        return UBASE_ERR_NONE;
    }
    if ((int)source_ends == nprod) {
        /* every sink is gone: whatever they managed to queue must be here */
        for (int i = 0; i < nsent; i++)
            if (!sent[i].arrived && !sent[i].may_lose) {
                sim_violation(V_SOURCE_END, "end of source signalled before buffer %u of producer %d arrived "
                              "(%u of %d arrived)", (unsigned)sent[i].seq, SEQ_PROD(sent[i].seq), cons.inputs, nsent);
                return UBASE_ERR_NONE;
            }
        cons.source_end = true;
    }
    return UBASE_ERR_NONE;
}

static int prod_catch(struct uprobe *uprobe, struct upipe *upipe, int event, va_list args)
{
    struct tagprobe *tp = container_of(uprobe, struct tagprobe, uprobe);
    struct prod *p = container_of(tp, struct prod, probe);
    if (event == UPROBE_LOG || upipe == NULL)
        return uprobe_throw_next(uprobe, upipe, event, args);
    if (event == UPROBE_STALLED) {
        p->stalled++;
        SIM_PROBE("thr_queue_sink_stalled");
    }
    if (event == UPROBE_DEAD)
        tp->dead++;
    if (event != UPROBE_READY && sim_self() != p->task && p->task >= 0 && checking())
        sim_violation(V_EVENT_THREAD, "event %d of the queue sink of producer %d thrown on thread %d "
                      "(its owner is thread %d)", event, p->id, sim_self(), p->task);
    return uprobe_throw_next(uprobe, upipe, event, args);
}

/* consumer side: per-producer order */
static void queue_arrival_order(uint64_t seq)
{
    int k = SEQ_PROD(seq);
    if (k < 0 || k >= nprod)
        return;
    struct prod *p = &prods[k];
    if (p->any_arrived && seq <= p->last_arrived && checking())
        sim_violation(V_REORDER, "buffer %u of producer %d arrived after its buffer %u", (unsigned)seq, k,
                      (unsigned)p->last_arrived);
    p->any_arrived = true;
    p->last_arrived = seq;
}

static void prod_do_op(struct prod *p, const struct sim_op *op)
{
    sim_ev(op_name(op->code), (uint64_t)p->id, (uint64_t)op->a[0]);
    switch (op->code) {
    case OP_INPUT: {
        if (p->qsink == NULL)
            break;
        unsigned burst = 1 + (unsigned)((uint64_t)op->a[0] % 6);
        for (unsigned k = 0; k < burst && nsent < MAXSENT && p->qsink != NULL; k++) {
            unsigned size = 8 + (unsigned)((uint64_t)(op->a[1] + k) % 56);
            uint64_t seq = ((uint64_t)p->id << 32) | (++next_seq);
            struct uref *uref = make_uref(seq, size);
            if (uref == NULL)
                break;
            /* two sinks feeding one source share one flow definition, so
             * whichever was queued last is the right one */
            sent[nsent++] = (struct sent){ .seq = seq, .gen = nprod > 1 ? 1 : p->gen, .size = (uint16_t)size,
                                           .may_lose = p->gen == 0 || p->noloop };
            sim_ev("send", seq, p->gen);
            upipe_input(p->qsink, uref, p->noloop ? NULL : &p->driver);
        }
        break;
    }
    case OP_FLOW_DEF: {
        if (p->qsink == NULL || (nprod > 1 && p->gen != 0))
            break;
        uint32_t g = nprod > 1 ? 1 : p->gen + 1;
        struct uref *fd = make_flow_def(g);
        if (fd == NULL)
            break;
        int err = upipe_set_flow_def(p->qsink, fd);
        uref_free(fd);
        if (!ubase_check(err)) {
            if (checking())
                sim_violation(V_CONTROL, "set_flow_def on a queue sink failed (%d)", err);
            break;
        }
        p->gen = g;
        break;
    }
    case OP_FLUSH: {
        if (p->qsink == NULL)
            break;
        /* whatever this producer sent and is not across yet may be among the
         * spooled buffers the flush throws away */
        for (int i = 0; i < nsent; i++)
            if (SEQ_PROD(sent[i].seq) == p->id && !sent[i].arrived)
                sent[i].may_lose = true;
        int err = upipe_flush(p->qsink);
        if (!ubase_check(err) && checking())
            sim_violation(V_CONTROL, "flush on a queue sink failed (%d)", err);
        SIM_PROBE("thr_queue_flush");
        break;
    }
    case OP_MAX_LENGTH: {
        if (p->qsink == NULL)
            break;
        unsigned want = (unsigned)((uint64_t)op->a[0] % 5), got = ~0u;
        int err = upipe_set_max_length(p->qsink, want);
        if (ubase_check(err))
            err = upipe_get_max_length(p->qsink, &got);
        if ((!ubase_check(err) || got != want) && checking())
            sim_violation(V_CONTROL, "set_max_length(%u) on a queue sink: error %d, then reads %u", want, err, got);
        break;
    }
    case OP_RELEASE: {
        if (p->qsink == NULL)
            break;
        struct upipe *q = p->qsink;
        p->qsink = NULL;
        sim_ev("release_qsink", (uint64_t)p->id, 0);
        upipe_release(q);
        break;
    }
    default:
        break;
    }
}

static const struct sim_op *prod_next(struct prod *p)
{
    while (p->next_op < plan->nops) {
        const struct sim_op *op = &plan->ops[p->next_op++];
        if (op->task == 1 + p->id)
            return op;
    }
    return NULL;
}

static void prod_resume(struct upump *timer)
{
    struct prod *p = upump_get_opaque(timer, struct prod *);
    upump_stop(timer);
    upump_free(timer);
    p->timer = NULL;
    if (p->driver != NULL)
        upump_start(p->driver);
}

static void prod_finish(struct prod *p)
{
    if (p->qsink != NULL) {
        struct upipe *q = p->qsink;
        p->qsink = NULL;
        sim_ev("release_qsink", (uint64_t)p->id, 0);
        upipe_release(q);
    }
    if (p->driver != NULL) {
        struct upump *d = p->driver;
        p->driver = NULL;
        upump_stop(d);
        upump_free(d);
    }
}

static void prod_driver_cb(struct upump *upump)
{
    struct prod *p = upump_get_opaque(upump, struct prod *);
    const struct sim_op *op = checking() ? prod_next(p) : NULL;
    if (op == NULL) {
        prod_finish(p);
        return;
    }
    if (op->code == OP_WAIT) {
        upump_stop(p->driver);
        p->timer = upump_alloc_timer(p->mgr, prod_resume, p, NULL, 1 + (uint64_t)op->a[0] % 5000, 0);
        upump_start(p->timer);
        return;
    }
    prod_do_op(p, op);
}

static void *prod_thread(void *arg)
{
    struct prod *p = arg;
    p->task = sim_self();
    if (p->noloop) {
        /* a thread that only pushes: nothing can spool, a full queue drops */
        const struct sim_op *op;
        while (checking() && (op = prod_next(p)) != NULL) {
            if (op->code == OP_WAIT) {
                sim_point(SIM_PT_USER, NULL);
                continue;
            }
            prod_do_op(p, op);
        }
        prod_finish(p);
        return NULL;
    }
    p->mgr = upump_sim_mgr_alloc(pool_depth[(uint64_t)plan->cfg[CFG_PUMP_POOL] % 5],
                                 pool_depth[(uint64_t)plan->cfg[CFG_PUMP_POOL] % 5]);
    upump_sim_mgr_set_faults(p->mgr, (uint32_t)((uint64_t)plan->cfg[CFG_SPURIOUS] % 256), 0);
    upump_sim_mgr_set_spurious_shared_only(p->mgr, true);
    uprobe_pthread_upump_mgr_set(logger, p->mgr);
    p->driver = upump_alloc_idler(p->mgr, prod_driver_cb, p, NULL);
    upump_start(p->driver);
    upump_mgr_run(p->mgr, NULL);
    if (p->driver != NULL && checking())
        sim_violation(V_DEADLOCK, "the event loop of producer %d returned with its plan unfinished", p->id);
    upump_mgr_vacuum(p->mgr);
    if (checking() && upump_sim_mgr_live_pumps(p->mgr) != 0)
        sim_violation(V_LEAK, "%u pump(s) left in the event loop of producer %d",
                      upump_sim_mgr_live_pumps(p->mgr), p->id);
    upump_mgr_release(p->mgr);
    return NULL;
}

static void cons_resume(struct upump *timer)
{
    upump_stop(timer);
    upump_free(timer);
    cons_timer = NULL;
    if (cons_driver != NULL)
        upump_start(cons_driver);
}

static void cons_attach(void)
{
    if (qsrc_attached || qsrc == NULL)
        return;
    qsrc_attached = true;
    if (!ubase_check(upipe_attach_upump_mgr(qsrc)) && checking())
        sim_violation(V_CONTROL, "attach_upump_mgr on the queue source failed");
}

static unsigned cons_polls;
static void cons_driver_cb(struct upump *upump)
{
    /* the application's own part of the plan (task 0), then wait for the end
     * of every source and let go of the queue source */
    while (checking() && cons_next_op < plan->nops) {
        const struct sim_op *op = &plan->ops[cons_next_op++];
        if (op->task != 0)
            continue;
        if (op->code == OP_WAIT) {
            upump_stop(cons_driver);
            cons_timer = upump_alloc_timer(main_mgr, cons_resume, NULL, NULL, 1 + (uint64_t)op->a[0] % 5000, 0);
            upump_start(cons_timer);
            return;
        }
        if (op->code == OP_ATTACH)
            cons_attach();
        else if (op->code == OP_MAX_LENGTH && qsrc != NULL) {
            /* (the current length is advisory: uqueue's counter lags behind
             * the ring while a push or a pop is in progress and may even read
             * 0xffffffff for an instant; no property speaks about it) */
            unsigned len = 0, cur = 0;
            if ((!ubase_check(upipe_qsrc_get_max_length(qsrc, &len)) ||
                 len != 1 + (unsigned)((uint64_t)plan->cfg[CFG_INQ] % 4) ||
                 !ubase_check(upipe_qsrc_get_length(qsrc, &cur))) && checking())
                sim_violation(V_CONTROL, "queue source reports max length %u (error or wrong value)", len);
        }
        return;
    }
    cons_attach();
    if (checking() && (int)source_ends < nprod && cons_polls < 400) {
        cons_polls++;
        upump_stop(cons_driver);
        cons_timer = upump_alloc_timer(main_mgr, cons_resume, NULL, NULL, 3000, 0);
        upump_start(cons_timer);
        return;
    }
    if (checking() && (int)source_ends < nprod)
        sim_violation(V_SOURCE_END, "only %u of %d queue sinks signalled their end although all threads are idle",
                      source_ends, nprod);
    struct upipe *q = qsrc;
    qsrc = NULL;
    upipe_release(q);
    if (asinks[0].live) {
        asinks[0].live = false;
        upipe_release(&asinks[0].upipe);
    }
    struct upump *d = cons_driver;
    cons_driver = NULL;
    upump_stop(d);
    upump_free(d);
}

static void queue_topology_run(void)
{
    memset(prods, 0, sizeof(prods));
    nprod = 1 + (int)((uint64_t)plan->cfg[CFG_NPROD] % MAX_PROD);
    source_ends = 0;
    cons_driver = cons_timer = NULL;
    cons_next_op = 0;
    cons_polls = 0;
    qsrc_attached = false;
    unsigned qlen = 1 + (unsigned)((uint64_t)plan->cfg[CFG_INQ] % 4);
    bool noloop = ((uint64_t)plan->cfg[CFG_NOLOOP] & 1) != 0;

    tagprobe_init(&probe_qsrc, 0, qsrc_catch, uprobe_use(&probe_app.uprobe));
    struct upipe_mgr *qsrc_mgr = upipe_qsrc_mgr_alloc();
    qsrc = upipe_qsrc_alloc(qsrc_mgr, uprobe_use(&probe_qsrc.uprobe), qlen);
    upipe_mgr_release(qsrc_mgr);
    if (qsrc == NULL) {
        sim_violation(V_CONTROL, "queue source allocation failed");
        return;
    }
    struct upipe *s0 = asink_new(0);
    upipe_set_output(qsrc, s0);
    if (((uint64_t)plan->cfg[CFG_ATTACH] % 3) != 2)
        cons_attach();

    struct upipe_mgr *qsink_mgr = upipe_qsink_mgr_alloc();
    for (int k = 0; k < nprod; k++) {
        struct prod *p = &prods[k];
        p->id = k;
        p->task = -1;
        p->noloop = noloop;
        tagprobe_init(&p->probe, 0, prod_catch, uprobe_use(logger));
        /* the sink must not find the application's loop: it will live on
         * another thread */
        uprobe_throw(logger, NULL, UPROBE_FREEZE_UPUMP_MGR);
        p->qsink = upipe_qsink_alloc(qsink_mgr, uprobe_use(&p->probe.uprobe), qsrc);
        uprobe_throw(logger, NULL, UPROBE_THAW_UPUMP_MGR);
        if (p->qsink == NULL) {
            sim_violation(V_CONTROL, "queue sink allocation failed");
            return;
        }
    }
    upipe_mgr_release(qsink_mgr);
    for (int k = 0; k < nprod; k++)
        __wrap_pthread_create(&prods[k].thread, NULL, prod_thread, &prods[k]);

    cons_driver = upump_alloc_idler(main_mgr, cons_driver_cb, NULL, NULL);
    upump_start(cons_driver);
    upump_mgr_run(main_mgr, NULL);
    if (cons_driver != NULL && checking())
        sim_violation(V_DEADLOCK, "the application's event loop returned before the end of the sources");
    for (int k = 0; k < nprod; k++)
        __wrap_pthread_join(prods[k].thread, NULL);
    if (checking())
        for (int k = 0; k < nprod; k++) {
            if (prods[k].probe.dead != 1)
                sim_violation(V_LEAK, "the queue sink of producer %d died %u times", k, prods[k].probe.dead);
            else if (!urefcount_single(&prods[k].probe.refcount))
                sim_violation(V_REFCOUNT, "the probe of the queue sink of producer %d is still referenced", k);
        }
    if (checking() && !urefcount_single(&probe_qsrc.refcount))
        sim_violation(V_REFCOUNT, "the probe of the queue source is still referenced");
    for (int k = 0; k < nprod; k++)
        uprobe_clean(&prods[k].probe.uprobe);
    uprobe_clean(&probe_qsrc.uprobe);
}

static void gen_queue(struct sim_rng *r, struct sim_plan *p, int which)
{
    int np = 1 + (int)((uint64_t)p->cfg[CFG_NPROD] % MAX_PROD);
    for (int k = 0; k < np; k++)
        if (sim_rng_chance(r, 9, 10))
            sim_plan_add(p, 1 + k, OP_FLOW_DEF, 0, 0, 0, 0, 0, 0);
    int n = 4 + (int)sim_rng_below(r, 24);
    for (int i = 0; i < n; i++) {
        uint32_t c = sim_rng_below(r, 100);
        int t = 1 + (int)sim_rng_below(r, (uint32_t)np);
        if (c < 50) sim_plan_add(p, t, OP_INPUT, sim_rng_below(r, 6), sim_rng_below(r, 56), 0, 0, 0, 0);
        else if (c < 58) sim_plan_add(p, t, OP_FLOW_DEF, 0, 0, 0, 0, 0, 0);
        else if (c < 68) sim_plan_add(p, t, OP_WAIT, sim_rng_below(r, 5000), 0, 0, 0, 0, 0);
        else if (c < 76) sim_plan_add(p, t, OP_FLUSH, 0, 0, 0, 0, 0, 0);
        else if (c < 82) sim_plan_add(p, t, OP_MAX_LENGTH, sim_rng_below(r, 5), 0, 0, 0, 0, 0);
        else if (c < 85) sim_plan_add(p, t, OP_RELEASE, 0, 0, 0, 0, 0, 0);
        else if (c < 93) sim_plan_add(p, 0, OP_WAIT, sim_rng_below(r, 5000), 0, 0, 0, 0, 0);
        else if (c < 97) sim_plan_add(p, 0, OP_MAX_LENGTH, 0, 0, 0, 0, 0, 0);
        else sim_plan_add(p, 0, OP_ATTACH, 0, 0, 0, 0, 0, 0);
    }
}
