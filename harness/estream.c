/*
 * E-stream: C14 — stream re-chunking pipes conserve bytes and ignore chunk
 * boundaries. Real code: lib/upipe-modules/upipe_aggregate.c,
 * upipe_chunk_stream.c, lib/upipe-ts/upipe_ts_sync.c, upipe_ts_check.c,
 * include/upipe/upipe_helper_uref_stream.h, upipe_helper_output_size.h.
 * Simulated: the transport that cuts the byte stream into buffers (seeded
 * fragmentation schedule: empty, one-octet, boundary-aligned, larger than a
 * unit, internally segmented buffers, discontinuity flags), option changes
 * and release at an arbitrary point of the stream, allocation failures.
 * The same stream is replayed under three further fragmentation schedules and
 * the unit sequences must be identical (stream parsers).
 */
#include "../sim/sim.h"
#include "../sim/alloc.h"

#include <upipe/ubase.h>
#include <upipe/umem.h>
#include <upipe/udict.h>
#include <upipe/udict_inline.h>
#include <upipe/uref.h>
#include <upipe/uref_std.h>
#include <upipe/uref_flow.h>
#include <upipe/uref_block.h>
#include <upipe/uref_block_flow.h>
#include <upipe/ubuf.h>
#include <upipe/ubuf_block_mem.h>
#include <upipe/uprobe.h>
#include <upipe/upipe.h>
#include <upipe-modules/upipe_aggregate.h>
#include <upipe-modules/upipe_chunk_stream.h>
#include <upipe-ts/upipe_ts_sync.h>
#include <upipe-ts/upipe_ts_check.h>

#include <stdlib.h>
#include <string.h>
#include <inttypes.h>

enum {
    V_NOT_FROM_INPUT = 1,   /* output octets that are not the next input octets */
    V_LOST_BYTES,           /* accepted octets never output */
    V_UNIT_SIZE,            /* a unit does not respect the configured size */
    V_UNIT_SYNC,            /* a TS unit does not start with the sync octet */
    V_UNIT_SEQUENCE,        /* unit sequence differs from the reference parser */
    V_CUT_DEPENDENT,        /* unit sequence depends on how the stream was cut */
    V_LEAK,
    V_LIFECYCLE,
    V_FATAL_UNEXPECTED,
    V_GETTER,
};

static const char *class_name(int cls)
{
    switch (cls) {
    case V_NOT_FROM_INPUT: return "output_not_from_input";
    case V_LOST_BYTES: return "bytes_lost";
    case V_UNIT_SIZE: return "unit_size";
    case V_UNIT_SYNC: return "unit_without_sync";
    case V_UNIT_SEQUENCE: return "unit_sequence";
    case V_CUT_DEPENDENT: return "depends_on_buffer_cut";
    case V_LEAK: return "leak";
    case V_LIFECYCLE: return "lifecycle";
    case V_FATAL_UNEXPECTED: return "unexpected_fatal";
    case V_GETTER: return "getter_value";
    }
    return NULL;
}

enum { OP_FEED = 1, OP_SET_SIZE, OP_DISCONTINUITY, OP_GETTER, OP__LAST };
static const char *op_name(int code)
{
    static const char *n[] = { "?", "feed", "set_size", "feed_with_discontinuity", "getter" };
    return code >= 1 && code < OP__LAST ? n[code] : "?";
}

enum { CFG_KIND = 0, CFG_POOL, CFG_SIZE, CFG_ALIGN, CFG_SYNC, CFG_FAULTS, CFG_OPEN_FAULT };
enum { K_AGG = 0, K_CHUNK, K_TS_SYNC, K_TS_CHECK, K__N };
static const char *kind_name[] = { "aggregate", "chunk_stream", "ts_sync", "ts_check" };

/* ---------------------------------------------------------------- state */
#define MAXSTREAM 8192
#define MAXUNITS 4200
#define MAXBUF 64
static struct umem_mgr *umem;
static struct udict_mgr *udict_mgr;
static struct uref_mgr *uref_mgr;
static struct ubuf_mgr *ubuf_mgr;

struct unit { int off_in_out; int len; };
struct capture {
    uint8_t out[MAXSTREAM];
    int nout;
    struct unit units[MAXUNITS];
    int nunits;
    bool overflow;
    int ready, dead, fatal;
    bool after_dead;
};
static struct capture cap;
static int nstream;

struct tsink { struct upipe upipe; struct urefcount refcount; };
static struct tsink tsink;
static struct uprobe probe;
static struct urefcount probe_refcount;
static struct upipe *upipe_ut;
static int kind;
static unsigned cur_size, cur_align, cur_sync;

static void probe_free(struct urefcount *r) { (void)r; }

static int catch(struct uprobe *uprobe, struct upipe *upipe, int event, va_list args)
{
    (void)uprobe; (void)args;
    if (event == UPROBE_LOG) {
        if (sim_verbose) {
            va_list copy;
            va_copy(copy, args);
            struct ulog *ulog = va_arg(copy, struct ulog *);
            char msg[200];
            ulog_msg_print(ulog, msg, sizeof(msg));
            if (ulog->level >= UPROBE_LOG_DEBUG)
                printf("        log: %s\n", msg);
            va_end(copy);
        }
        return UBASE_ERR_NONE;
    }
    if (upipe == &tsink.upipe)
        return UBASE_ERR_NONE;
    if (cap.dead)
        cap.after_dead = true;
    switch (event) {
    case UPROBE_READY: cap.ready++; break;
    case UPROBE_DEAD: cap.dead++; break;
    case UPROBE_FATAL:
        cap.fatal++;
        if (!sim_alloc_failed())
            sim_violation(V_FATAL_UNEXPECTED, "%s throws fatal although no fault was injected", kind_name[kind]);
        break;
    default: break;
    }
    return UBASE_ERR_NONE;
}

static void sink_input(struct upipe *upipe, struct uref *uref, struct upump **upump_p)
{
    (void)upipe; (void)upump_p;
    size_t size = 0;
    uref_block_size(uref, &size);
    if (cap.dead)
        cap.after_dead = true;
    if (cap.nunits >= MAXUNITS || cap.nout + (int)size > MAXSTREAM) {
        cap.overflow = true;    /* a upipe_ut that never stops producing */
        uref_free(uref);
        return;
    }
    cap.units[cap.nunits].off_in_out = cap.nout;
    cap.units[cap.nunits].len = (int)size;
    cap.nunits++;
    if (size)
        uref_block_extract(uref, 0, (int)size, cap.out + cap.nout);
    cap.nout += (int)size;
    uref_free(uref);
}

static int sink_control(struct upipe *upipe, int command, va_list args)
{
    (void)upipe; (void)args;
    switch (command) {
    case UPIPE_SET_FLOW_DEF:
    case UPIPE_REGISTER_REQUEST:
    case UPIPE_UNREGISTER_REQUEST:
        return UBASE_ERR_NONE;
    default:
        return UBASE_ERR_UNHANDLED;
    }
}

static void tsink_free(struct urefcount *r) { (void)r; }

static struct upipe_mgr sink_mgr = {
    .refcount = NULL, .signature = 0, .upipe_alloc = NULL,
    .upipe_input = sink_input, .upipe_control = sink_control,
};

static void env_setup(int pool)
{
    static const uint16_t depth[] = { 0, 0, 2, 8 };
    sim_alloc_reset();
    /* upipe_helper_uref_stream's consume step does not test the result of
     * ubuf_block_splice (no error path: DESIGN.md 2.3): buffer structures
     * never fail here, urefs and dictionary storage do */
    static const char *const allow[] = { "uref_std_alloc_inner", NULL };
    sim_alloc_set_allow_list(allow);
    umem = umem_sim_mgr_alloc(5);
    udict_mgr = udict_inline_mgr_alloc(depth[pool % 4], umem, 1, 1);   /* every attribute grows the storage */
    uref_mgr = uref_std_mgr_alloc(depth[pool % 4], udict_mgr, 0);
    ubuf_mgr = ubuf_block_mem_mgr_alloc(depth[pool % 4], depth[pool % 4], umem, 0, 0, 0, 0);
}

static void env_teardown(bool audit)
{
    uref_mgr_vacuum(uref_mgr);
    udict_mgr_vacuum(udict_mgr);
    ubuf_mgr_vacuum(ubuf_mgr);
    if (audit && !sim_violation_class()) {
        if (!urefcount_single(uref_mgr->refcount))
            sim_violation(V_LEAK, "%s: a uref is still alive after the upipe_ut was released", kind_name[kind]);
        else if (!urefcount_single(ubuf_mgr->refcount))
            sim_violation(V_LEAK, "%s: a buffer is still alive after the upipe_ut was released", kind_name[kind]);
        else if (umem_sim_live() != 0)
            sim_violation(V_LEAK, "%s: %u memory area(s) left", kind_name[kind], umem_sim_live());
    }
    uref_mgr_release(uref_mgr);
    ubuf_mgr_release(ubuf_mgr);
    udict_mgr_release(udict_mgr);
    umem_mgr_release(umem);
    if (audit && !sim_violation_class() && sim_alloc_live() != 0)
        sim_violation(V_LEAK, "%s: %u allocation(s) left after releasing everything", kind_name[kind], sim_alloc_live());
}

static int open_fault;         /* fail the k-th allocation of set_flow_def */

static bool pipe_open(void)
{
    memset(&cap, 0, sizeof(cap));
    uprobe_init(&probe, catch, NULL);
    urefcount_init(&probe_refcount, probe_free);
    probe.refcount = &probe_refcount;
    upipe_init(&tsink.upipe, &sink_mgr, uprobe_use(&probe));
    urefcount_init(&tsink.refcount, tsink_free);
    tsink.upipe.refcount = &tsink.refcount;
    struct upipe_mgr *mgr = kind == K_AGG ? upipe_agg_mgr_alloc() :
                            kind == K_CHUNK ? upipe_chunk_stream_mgr_alloc() :
                            kind == K_TS_SYNC ? upipe_ts_sync_mgr_alloc() : upipe_ts_check_mgr_alloc();
    upipe_ut = upipe_void_alloc(mgr, uprobe_use(&probe));
    upipe_mgr_release(mgr);
    if (upipe_ut == NULL)
        return false;
    struct uref *fd = uref_block_flow_alloc_def(uref_mgr, "foo.");
    if (fd == NULL)
        return false;
    if (open_fault)
        sim_alloc_arm(open_fault);
    int ret = upipe_set_flow_def(upipe_ut, fd);
    sim_alloc_disarm();
    uref_free(fd);
    if (!ubase_check(ret)) {
        if (!sim_alloc_failed())
            sim_violation(V_LIFECYCLE, "%s refuses flow definition block.foo. (%d)", kind_name[kind], ret);
        else
            SIM_PROBE("stream_set_flow_def_failed_by_fault");
        return false;
    }
    return ubase_check(upipe_set_output(upipe_ut, &tsink.upipe));
}

static void apply_sizes(void)
{
    switch (kind) {
    case K_AGG: upipe_set_output_size(upipe_ut, cur_size); break;
    case K_CHUNK:
        if (!ubase_check(upipe_chunk_stream_set_mtu(upipe_ut, cur_size, cur_align)))
            sim_violation(V_GETTER, "chunk_stream refused mtu %u align %u", cur_size, cur_align);
        break;
    case K_TS_SYNC:
        upipe_set_output_size(upipe_ut, cur_size);
        upipe_ts_sync_set_sync(upipe_ut, (int)cur_sync);
        break;
    case K_TS_CHECK: upipe_set_output_size(upipe_ut, cur_size); break;
    }
}

static void pipe_close(void)
{
    struct upipe *p = upipe_ut;
    upipe_ut = NULL;
    upipe_release(p);
    if (!sim_violation_class()) {
        if (cap.ready != 1 || cap.dead != 1 || cap.after_dead)
            sim_violation(V_LIFECYCLE, "%s: ready %d, dead %d, activity after dead %d", kind_name[kind],
                          cap.ready, cap.dead, cap.after_dead);
        else if (cap.overflow)
            sim_violation(V_NOT_FROM_INPUT, "%s produced more output than it received input", kind_name[kind]);
    }
    upipe_clean(&tsink.upipe);
}

static struct uref *make_buffer(const uint8_t *data, int len, uint64_t cutsel)
{
    /* possibly segmented: up to three segments */
    int nseg = len >= 2 ? 1 + (int)(cutsel % 3) : 1;
    if (nseg > len) nseg = len ? len : 1;
    struct uref *uref = NULL;
    int pos = 0;
    for (int s = 0; s < nseg; s++) {
        int seglen = s == nseg - 1 ? len - pos : 1 + (int)((cutsel >> (4 * s + 2)) % (uint64_t)(len - pos - (nseg - 1 - s)));
        struct ubuf *ubuf = ubuf_block_alloc(ubuf_mgr, seglen);
        if (ubuf == NULL) { if (uref) uref_free(uref); return NULL; }
        if (seglen) {
            int sz = -1;
            uint8_t *w;
            if (!ubase_check(ubuf_block_write(ubuf, 0, &sz, &w))) { ubuf_free(ubuf); if (uref) uref_free(uref); return NULL; }
            memcpy(w, data + pos, (size_t)seglen);
            ubuf_block_unmap(ubuf, 0);
        }
        if (uref == NULL) {
            uref = uref_alloc(uref_mgr);
            if (uref == NULL) { ubuf_free(ubuf); return NULL; }
            uref_attach_ubuf(uref, ubuf);
        } else
            uref_block_append(uref, ubuf);
        pos += seglen;
    }
    if (nseg > 1)
        SIM_PROBE("stream_segmented_buffer");
    return uref;
}

/* -------------------------------------------------------- reference models */
static uint8_t stream[MAXSTREAM];
/* per buffer of the primary run: start offset, length, discontinuity,
 * settings in force */
struct feedrec { int off, len; bool disc; unsigned size, align, sync; };
static struct feedrec feeds[256];
static int nfeeds;
static uint8_t ref_out[MAXSTREAM];
static int ref_nout;
static struct unit ref_units[MAXUNITS];
static int ref_nunits;

static void ref_emit(const uint8_t *p, int len)
{
    if (ref_nunits >= MAXUNITS || ref_nout + len > MAXSTREAM)
        return;
    ref_units[ref_nunits].off_in_out = ref_nout;
    ref_units[ref_nunits].len = len;
    ref_nunits++;
    memcpy(ref_out + ref_nout, p, (size_t)len);
    ref_nout += len;
}

/* ts_sync: units are decided with `sync` sync octets in sight; what is left
 * when the stream is flushed (discontinuity / release) goes out as long as it
 * starts with a sync octet. Segments between discontinuities are independent. */
static void ref_ts_sync_segment(const uint8_t *s, int n, unsigned size, unsigned sync, bool *acquired)
{
    int pos = 0;
    for ( ; ; ) {
        /* find a candidate */
        int p = pos;
        bool decided = false, ok = false;
        while (p < n) {
            if (s[p] != 0x47) { p++; continue; }
            ok = true;
            decided = true;
            for (unsigned k = 1; k < sync; k++) {
                int q = p + (int)(k * size);
                if (q >= n) { decided = false; break; }
                if (s[q] != 0x47) { ok = false; break; }
            }
            if (!decided || ok)
                break;
            p++;
        }
        if (p > pos)
            *acquired = false;  /* octets skipped: synchronisation lost */
        if (p >= n || !decided) {
            pos = p < n ? p : n;
            break;
        }
        ref_emit(s + p, (int)size);
        *acquired = true;
        pos = p + (int)size;
    }
    /* flush */
    if (*acquired)
        while (n - pos >= (int)size && s[pos] == 0x47) {
            ref_emit(s + pos, (int)size);
            pos += (int)size;
        }
}

static void reference_model(void)
{
    ref_nout = ref_nunits = 0;
    if (kind == K_TS_SYNC) {
        bool acquired = false;
        int seg_start = 0;
        unsigned size = feeds[0].size, sync = feeds[0].sync;
        for (int f = 1; f <= nfeeds; f++)
            if (f == nfeeds || feeds[f].disc) {
                int end = f == nfeeds ? nstream : feeds[f].off;
                ref_ts_sync_segment(stream + seg_start, end - seg_start, size, sync, &acquired);
                seg_start = end;
            }
    } else if (kind == K_TS_CHECK) {
        for (int f = 0; f < nfeeds; f++) {
            int pos = feeds[f].off, left = feeds[f].len;
            while (left >= (int)feeds[f].size) {
                if (stream[pos] != 0x47)
                    break;
                ref_emit(stream + pos, (int)feeds[f].size);
                pos += (int)feeds[f].size;
                left -= (int)feeds[f].size;
            }
        }
    }
}

/* ----------------------------------------------------------------- oracles */
static void check_against_reference(const char *what)
{
    if (sim_violation_class())
        return;
    for (int u = 0; u < cap.nunits && u < ref_nunits; u++) {
        const struct unit *a = &cap.units[u], *r = &ref_units[u];
        if (a->len != r->len || memcmp(cap.out + a->off_in_out, ref_out + r->off_in_out, (size_t)a->len)) {
            sim_violation(V_UNIT_SEQUENCE, "%s (%s): unit %d (%d octets) is not the unit the reference parser "
                          "cuts from this stream (%d octets)", kind_name[kind], what, u, a->len, r->len);
            return;
        }
    }
    if (cap.nunits != ref_nunits)
        sim_violation(V_UNIT_SEQUENCE, "%s (%s): %d unit(s) output, the reference parser cuts %d from this stream",
                      kind_name[kind], what, cap.nunits, ref_nunits);
}

static void check_conservation(void)
{
    if (sim_violation_class())
        return;
    if (kind == K_AGG) {
        /* accepted = buffers of 1..size octets; output = exactly those
         * octets, in order; units no larger than the size in force and made
         * of whole input buffers */
        static uint8_t accepted[MAXSTREAM];
        static int bound[MAXUNITS];
        int nacc = 0, nbound = 0;
        unsigned max_size = 0;
        for (int f = 0; f < nfeeds; f++) {
            if (feeds[f].size > max_size) max_size = feeds[f].size;
            if (feeds[f].len == 0 || feeds[f].len > (int)feeds[f].size)
                continue;
            memcpy(accepted + nacc, stream + feeds[f].off, (size_t)feeds[f].len);
            nacc += feeds[f].len;
            if (nbound < MAXUNITS) bound[nbound++] = nacc;
        }
        if (cap.nout > nacc || memcmp(cap.out, accepted, (size_t)cap.nout))
            sim_violation(V_NOT_FROM_INPUT, "aggregate output differs from the accepted input octets (%d out, %d accepted)",
                          cap.nout, nacc);
        else if (cap.nout < nacc)
            sim_violation(V_LOST_BYTES, "aggregate output %d of %d accepted octets", cap.nout, nacc);
        for (int u = 0; u < cap.nunits && !sim_violation_class(); u++) {
            int end = cap.units[u].off_in_out + cap.units[u].len;
            bool on_boundary = false;
            for (int b = 0; b < nbound; b++)
                if (bound[b] == end) on_boundary = true;
            if (cap.units[u].len == 0 || cap.units[u].len > (int)max_size)
                sim_violation(V_UNIT_SIZE, "aggregate unit %d has %d octets, the largest size configured is %u",
                              u, cap.units[u].len, max_size);
            else if (!on_boundary)
                sim_violation(V_UNIT_SIZE, "aggregate unit %d ends inside an input buffer", u);
        }
        return;
    }
    if (kind == K_CHUNK) {
        if (cap.nout > nstream || memcmp(cap.out, stream, (size_t)cap.nout))
            sim_violation(V_NOT_FROM_INPUT, "chunk_stream output differs from the input octets (%d out, %d in)", cap.nout, nstream);
        /* only settings of the last feed are known to be in force at the end */
        unsigned align = cur_align;     /* in force when the pipe was released */
        if (!sim_violation_class() && nstream - cap.nout >= (int)align)
            sim_violation(V_LOST_BYTES, "chunk_stream output %d of %d octets, more than the unaligned tail (align %u) is missing",
                          cap.nout, nstream, align);
        bool uniform = nfeeds && feeds[0].size == cur_size && feeds[0].align == cur_align;
        for (int f = 1; f < nfeeds; f++)
            if (feeds[f].size != feeds[0].size || feeds[f].align != feeds[0].align)
                uniform = false;
        if (uniform && nfeeds) {
            unsigned chunk = feeds[0].size / feeds[0].align * feeds[0].align;
            for (int u = 0; u < cap.nunits && !sim_violation_class(); u++) {
                bool last = u == cap.nunits - 1;
                if (cap.units[u].len != (int)chunk &&
                    !(last && cap.units[u].len < (int)chunk && cap.units[u].len % (int)feeds[0].align == 0 &&
                      cap.units[u].len > 0))
                    sim_violation(V_UNIT_SIZE, "chunk_stream unit %d has %d octets (chunk %u, align %u)", u,
                                  cap.units[u].len, chunk, feeds[0].align);
            }
        }
        return;
    }
    /* TS */
    for (int u = 0; u < cap.nunits && !sim_violation_class(); u++) {
        if (cap.units[u].len != (int)feeds[0].size)
            sim_violation(V_UNIT_SIZE, "%s unit %d has %d octets, packet size is %u", kind_name[kind], u,
                          cap.units[u].len, feeds[0].size);
        else if (cap.out[cap.units[u].off_in_out] != 0x47)
            sim_violation(V_UNIT_SYNC, "%s unit %d does not start with the sync octet", kind_name[kind], u);
    }
}

/* ------------------------------------------------------------------- runs */
static void feed(int off, int len, bool disc, uint64_t cutsel, int fault)
{
    struct uref *uref = make_buffer(stream + off, len, cutsel);
    if (uref == NULL)
        return;
    if (disc)
        uref_flow_set_discontinuity(uref);
    if (fault > 0)
        sim_alloc_arm(fault);
    upipe_input(upipe_ut, uref, NULL);
    sim_alloc_disarm();
}

static void gen_content(struct sim_rng *r, uint8_t *dst, int len, unsigned size, int style)
{
    /* style 0: aligned valid packets; 1: garbage; 2: packets with sync octets
     * inside the payload at packet distance (false locks) */
    for (int i = 0; i < len; i++) {
        uint8_t b = (uint8_t)sim_rng_next(r);
        if (style == 1) {
            dst[i] = sim_rng_chance(r, 1, 9) ? 0x47 : (b == 0x47 ? 0x48 : b);
        } else {
            bool at_sync = i % (int)size == 0;
            dst[i] = at_sync ? 0x47 : (style == 2 && sim_rng_chance(r, 1, 6) ? 0x47 : (b == 0x47 ? 0x46 : b));
        }
    }
}

static void gen(const char *prop, struct sim_rng *r, struct sim_plan *p)
{
    bool c20 = !strcmp(prop, "C20");
    int k = (int)sim_rng_below(r, K__N);
    p->cfg[CFG_KIND] = k;
    p->cfg[CFG_POOL] = sim_rng_below(r, 4);
    bool ts = k >= K_TS_SYNC;
    static const int tssizes[] = { 188, 188, 188, 8, 12, 204 };
    static const int sizes[] = { 2, 3, 4, 7, 16, 50, 188, 400 };
    p->cfg[CFG_SIZE] = ts ? tssizes[sim_rng_below(r, 6)] : sizes[sim_rng_below(r, 8)];
    p->cfg[CFG_ALIGN] = 1 + sim_rng_below(r, 5);
    if (k == K_CHUNK && p->cfg[CFG_ALIGN] >= p->cfg[CFG_SIZE])
        p->cfg[CFG_ALIGN] = 1;
    p->cfg[CFG_SYNC] = 2 + sim_rng_below(r, 3);
    bool faults = sim_rng_chance(r, c20 ? 2 : 1, 4);
    p->cfg[CFG_FAULTS] = faults;
    p->cfg[CFG_OPEN_FAULT] = faults && sim_rng_chance(r, 1, 3) ? 1 + sim_rng_below(r, 5) : 0;
    int n = 3 + (int)sim_rng_below(r, 22);
    int unit = (int)p->cfg[CFG_SIZE];
    for (int i = 0; i < n; i++) {
        uint32_t c = sim_rng_below(r, 100);
        int64_t f = faults && sim_rng_chance(r, 1, 5) ? 1 + sim_rng_below(r, 4) : 0;
        if (c20 && c >= 10 && c < 45) {
            /* C20: options and getters dominate */
            if (c < 28)
                sim_plan_add(p, 0, OP_SET_SIZE, sizes[sim_rng_below(r, 8)], 1 + sim_rng_below(r, 5), 0, 0, 0, f);
            else
                sim_plan_add(p, 0, OP_GETTER, 0, 0, 0, 0, 0, 0);
            continue;
        }
        if (c < 6 && !ts) {
            sim_plan_add(p, 0, OP_SET_SIZE, sizes[sim_rng_below(r, 8)], 1 + sim_rng_below(r, 5), 0, 0, 0, f);
            continue;
        }
        if (c < 10) {
            sim_plan_add(p, 0, OP_GETTER, 0, 0, 0, 0, 0, 0);
            continue;
        }
        /* buffer length: empty, 1, around the unit size, multiples, random */
        int len;
        switch (sim_rng_below(r, 9)) {
        case 0: len = 0; break;
        case 1: len = 1; break;
        case 2: len = unit; break;
        case 3: len = unit - 1; break;
        case 4: len = unit + 1; break;
        case 5: len = unit * (2 + (int)sim_rng_below(r, 3)); break;
        case 6: len = unit * 2 + (int)sim_rng_below(r, 7); break;
        default: len = (int)sim_rng_below(r, (uint32_t)(unit * 3 + 2)); break;
        }
        if (len > 700) len = 700;
        int style = ts ? (int)sim_rng_below(r, 8) : 0;
        style = style < 5 ? 0 : style < 6 ? 1 : 2;
        sim_plan_add(p, 0, ts && sim_rng_chance(r, 1, 12) ? OP_DISCONTINUITY : OP_FEED, len,
                     sim_rng_next(r) & 0xffffff, style, sim_rng_next(r) & 0xffffff, 0, f);
    }
}

static void run(const char *prop, const struct sim_plan *plan)
{
    (void)prop;
    kind = (int)((uint64_t)plan->cfg[CFG_KIND] % K__N);
    bool ts = kind >= K_TS_SYNC;
    cur_size = 2 + (unsigned)((uint64_t)(plan->cfg[CFG_SIZE] - 2) % 500);
    cur_align = 1 + (unsigned)((uint64_t)(plan->cfg[CFG_ALIGN] - 1) % 8);
    if (kind == K_CHUNK && cur_align >= cur_size)
        cur_align = 1;
    cur_sync = 2 + (unsigned)((uint64_t)(plan->cfg[CFG_SYNC] - 2) % 3);
    env_setup((int)((uint64_t)plan->cfg[CFG_POOL] % 4));
    nstream = nfeeds = 0;
    open_fault = (int)((uint64_t)plan->cfg[CFG_OPEN_FAULT] % 6);
    bool opened = pipe_open();
    open_fault = 0;
    if (!opened) {
        /* the flow definition was refused because an allocation failed (or a
         * violation was recorded): the pipe must still go away cleanly */
        if (upipe_ut != NULL)
            pipe_close();
        env_teardown(true);
        sim_mark_nontrivial();
        return;
    }
    apply_sizes();
    bool settings_changed = false;
    /* the stream content is a pure function of the plan */
    struct sim_rng content;
    sim_rng_seed(&content, sim_mix(plan->seed, 0xc0de));
    for (int i = 0; i < plan->nops && !sim_violation_class(); i++) {
        const struct sim_op *op = &plan->ops[i];
        sim_ev(op_name(op->code), (uint64_t)op->a[0], 0);
        switch (op->code) {
        case OP_SET_SIZE: {
            if (ts) break;
            unsigned new_size = 2 + (unsigned)((uint64_t)(op->a[0] - 2) % 500);
            unsigned new_align = 1 + (unsigned)((uint64_t)(op->a[1] - 1) % 8);
            if (kind == K_CHUNK && new_align >= new_size)
                new_align = 1;
            /* a setter that reports an error (here: an allocation failed
             * while it republished the flow definition) leaves the previous
             * value in force */
            unsigned failed0 = sim_alloc_failed();
            if (op->a[5] > 0)
                sim_alloc_arm((int)op->a[5]);
            int ret = kind == K_AGG ? upipe_set_output_size(upipe_ut, new_size)
                                    : upipe_chunk_stream_set_mtu(upipe_ut, new_size, new_align);
            sim_alloc_disarm();
            if (ubase_check(ret)) {
                cur_size = new_size;
                cur_align = new_align;
            } else if (sim_alloc_failed() == failed0)
                sim_violation(V_GETTER, "%s refused size %u align %u (%d)", kind_name[kind], new_size, new_align, ret);
            else
                SIM_PROBE("stream_setter_failed_by_fault");
            if (nfeeds)
                settings_changed = true;
            SIM_PROBE("stream_size_changed_mid_stream");
            break;
        }
        case OP_GETTER: {
            if (kind == K_CHUNK) {
                unsigned m = 0, a = 0;
                if (!ubase_check(upipe_chunk_stream_get_mtu(upipe_ut, &m, &a)) || m != cur_size || a != cur_align)
                    sim_violation(V_GETTER, "chunk_stream get_mtu returns %u/%u, %u/%u was set", m, a, cur_size, cur_align);
            } else {
                unsigned s = 0;
                if (!ubase_check(upipe_get_output_size(upipe_ut, &s)) || s != cur_size)
                    sim_violation(V_GETTER, "%s get_output_size returns %u, %u was set", kind_name[kind], s, cur_size);
                if (kind == K_TS_SYNC) {
                    int sy = 0;
                    if (!ubase_check(upipe_ts_sync_get_sync(upipe_ut, &sy)) || sy != (int)cur_sync)
                        sim_violation(V_GETTER, "ts_sync get_sync returns %d, %u was set", sy, cur_sync);
                }
            }
            break;
        }
        case OP_FEED:
        case OP_DISCONTINUITY: {
            int len = (int)((uint64_t)op->a[0] % 701);
            if (nstream + len > MAXSTREAM - 1024 || nfeeds >= 255)
                break;
            gen_content(&content, stream + nstream, len, cur_size, (int)((uint64_t)op->a[2] % 3));
            bool disc = op->code == OP_DISCONTINUITY && kind == K_TS_SYNC;
            feeds[nfeeds].off = nstream;
            feeds[nfeeds].len = len;
            feeds[nfeeds].disc = disc;
            feeds[nfeeds].size = cur_size;
            feeds[nfeeds].align = cur_align;
            feeds[nfeeds].sync = cur_sync;
            nfeeds++;
            if (len == 0) SIM_PROBE("stream_empty_buffer");
            if (disc) SIM_PROBE("stream_discontinuity");
            feed(nstream, len, disc, (uint64_t)op->a[1], (int)op->a[5]);
            nstream += len;
            break;
        }
        }
    }
    /* release at this point of the stream: it must terminate (a hang is
     * caught by the driver's watchdog and reported as class hang) */
    bool fault_fired = sim_alloc_failed() != 0;
    pipe_close();
    static struct capture primary;
    primary = cap;
    if (sim_verbose) {
        printf("    stream (%d octets):", nstream);
        for (int i = 0; i < nstream && i < 120; i++) printf(" %02x", stream[i]);
        printf("\n    buffers:");
        for (int f = 0; f < nfeeds; f++) printf(" %d%s", feeds[f].len, feeds[f].disc ? "D" : "");
        printf("\n    units:");
        for (int u = 0; u < cap.nunits && u < 40; u++) printf(" [%d:%02x..]", cap.units[u].len, cap.out[cap.units[u].off_in_out]);
        printf("\n");
    }
    if (!fault_fired && nfeeds > 0 && !sim_violation_class()) {
        check_conservation();
        if (ts && !settings_changed) {
            reference_model();
            check_against_reference("primary cut");
        }
    }
    if (fault_fired)
        SIM_PROBE("stream_fault_fired");
    env_teardown(true);

    /* cut independence: the same octets, other buffer boundaries */
    bool stream_parser = kind == K_TS_SYNC || kind == K_CHUNK;
    if (stream_parser && !fault_fired && !settings_changed && nfeeds > 0 && !sim_violation_class()) {
        struct sim_rng cut;
        sim_rng_seed(&cut, sim_mix(plan->seed, 0xc07));
        for (int round = 0; round < 3 && !sim_violation_class(); round++) {
            env_setup((int)((uint64_t)plan->cfg[CFG_POOL] % 4));
            cur_size = feeds[0].size; cur_align = feeds[0].align; cur_sync = feeds[0].sync;
            if (!pipe_open())
                break;
            apply_sizes();
            int pos = 0, f = 1;
            int next_disc = nstream;        /* discontinuities stay where they are */
            for (int k = 1; k < nfeeds; k++)
                if (feeds[k].disc) { next_disc = feeds[k].off; f = k; break; }
            bool pending_disc = false;
            while (pos < nstream || pending_disc) {
                int maxlen = round == 0 ? 1 : round == 1 ? (int)cur_size * 3 : 97;
                int len = round == 0 ? (int)sim_rng_below(&cut, 3) : (int)sim_rng_below(&cut, (uint32_t)maxlen + 1);
                if (pos + len > next_disc)
                    len = next_disc - pos;
                if (len == 0 && pos >= nstream && !pending_disc)
                    break;
                feed(pos, len, pending_disc, sim_rng_next(&cut), 0);
                pending_disc = false;
                pos += len;
                if (pos == next_disc && pos < nstream) {
                    pending_disc = true;
                    next_disc = nstream;
                    for (int k = f + 1; k < nfeeds; k++)
                        if (feeds[k].disc) { next_disc = feeds[k].off; f = k; break; }
                    if (next_disc == nstream) f = nfeeds;
                }
            }
            pipe_close();
            SIM_PROBE("stream_recut_replays");
            if (!sim_violation_class()) {
                bool same = cap.nunits == primary.nunits && cap.nout == primary.nout &&
                            !memcmp(cap.out, primary.out, (size_t)cap.nout);
                for (int u = 0; same && u < cap.nunits; u++)
                    same = cap.units[u].len == primary.units[u].len;
                if (!same)
                    sim_violation(V_CUT_DEPENDENT, "%s: %d unit(s) / %d octets with the original buffer boundaries, "
                                  "%d unit(s) / %d octets when the same stream is cut differently (schedule %d)",
                                  kind_name[kind], primary.nunits, primary.nout, cap.nunits, cap.nout, round);
            }
            env_teardown(true);
        }
    }
    sim_mark_nontrivial();
}

static const char *const props[] = { "C14", "C20", NULL };
const struct sim_engine sim_engine = {
    .name = "estream", .props = props, .gen = gen, .run = run,
    .class_name = class_name, .op_name = op_name,
};

int main(int argc, char **argv) { return sim_main(argc, argv); }
