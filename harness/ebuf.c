/*
 * E-buf: buffer and dictionary histories with allocator faults.
 *   C03  segmented blocks behave like byte strings
 *   C02  shared memory is copy-on-write
 *   C10  dictionaries are typed maps          (ebuf_dict.c)
 * Real code: include/upipe/ubuf_block*.h, lib/upipe/ubuf_block_mem.c,
 * ubuf_mem_common.c, ubuf_pic_mem.c, ubuf_sound_mem.c, udict_inline.c ...
 * Simulated: the allocator (umem_sim + malloc layer), i.e. which allocation
 * fails and whether a pooled structure is recycled; manager configuration.
 */
#define _GNU_SOURCE
#include "../sim/sim.h"
#include "../sim/alloc.h"
#include "ebuf.h"

#include <upipe/ubase.h>
#include <upipe/umem.h>
#include <upipe/ubuf.h>
#include <upipe/ubuf_block.h>
#include <upipe/ubuf_block_mem.h>

#include <stdlib.h>
#include <string.h>
#include <sys/uio.h>

static const char *class_name(int cls)
{
    switch (cls) {
    case V_SIZE: return "size_mismatch";
    case V_CONTENT: return "content_mismatch";
    case V_ERROR_EXPECTED: return "accepted_out_of_range";
    case V_UNEXPECTED_ERROR: return "refused_valid_operation";
    case V_ERROR_CHANGED: return "error_changed_buffer";
    case V_NOT_CONTIGUOUS: return "fresh_block_segmented";
    case V_ACCESSOR: return "accessor_mismatch";
    case V_WRITE_SHARED: return "write_granted_on_shared_memory";
    case V_WRITE_REFUSED: return "write_refused_on_exclusive_memory";
    case V_ISOLATION: return "other_handle_changed";
    case V_LEAK: return "leak";
    case V_DICT_LOOKUP: return "dict_lookup";
    case V_DICT_ITER: return "dict_iteration";
    case V_DICT_CMP: return "dict_compare";
    case V_DICT_ERROR: return "dict_error";
    case V_FAULT_CHANGED: return "failed_allocation_changed_state";
    }
    return NULL;
}

enum {
    B_ALLOC = 1, B_APPEND, B_INSERT, B_DELETE, B_TRUNCATE, B_RESIZE, B_PREPEND,
    B_SPLICE, B_SPLIT, B_MERGE, B_COPY, B_DUP, B_FREE, B_WRITE, B_ACCESS,
    B__LAST
};
enum { A_SIZE = 0, A_READ, A_PEEK, A_EXTRACT, A_IOVEC, A_SCAN, A_FIND, A_COMPARE,
       A_EQUAL, A_MATCH, A_LINEAR, A__N };

static const char *op_name(int code)
{
    static const char *n[] = { "?", "alloc", "append", "insert", "delete", "truncate",
        "resize", "prepend", "splice", "split", "merge", "copy", "dup", "free",
        "write", "access" };
    if (code >= 1 && code < B__LAST)
        return n[code];
    return dict_op_name(code);
}

/* ------------------------------------------------------------ the model */
#define NH 6
#define MAXB 2048
struct mblk {
    bool live;
    struct ubuf *u;
    int n;
    uint8_t v[MAXB];
    int group;                  /* handles that may share memory */
};
static struct mblk hb[NH];
static int gcount[64];          /* live handles per share group */
static bool gsliced[64];        /* some segment of the group was sliced */
static int ngroups;
static struct ubuf_mgr *bmgr;
static struct umem_mgr *umem;
static uint8_t pat;
static bool check_c02;
static uint64_t probe_ctr;

static int group_new(void)
{
    int g = ngroups < 63 ? ngroups++ : 63;
    gcount[g] = 0;
    gsliced[g] = g == 63;
    return g;
}

static void group_merge(int into, int from)
{
    if (into == from)
        return;
    gcount[into] += gcount[from];
    gcount[from] = 0;
    gsliced[into] = gsliced[into] || gsliced[from];
    for (int i = 0; i < NH; i++)
        if (hb[i].live && hb[i].group == from)
            hb[i].group = into;
}

/* reads the whole block through ubuf_block_read, segment by segment */
static bool read_all(struct ubuf *u, uint8_t *dst, int cap, int *n_p, const char **why)
{
    size_t size;
    if (!ubase_check(ubuf_block_size(u, &size))) {
        *why = "ubuf_block_size failed";
        return false;
    }
    if ((int)size > cap) {
        *why = "size larger than anything stored";
        *n_p = (int)size;
        return false;
    }
    int off = 0;
    while (off < (int)size) {
        int chunk = -1;
        const uint8_t *p;
        if (!ubase_check(ubuf_block_read(u, off, &chunk, &p))) {
            *why = "ubuf_block_read failed inside the block";
            return false;
        }
        if (chunk <= 0 || off + chunk > (int)size) {
            *why = "ubuf_block_read returned a chunk outside the block";
            return false;
        }
        memcpy(dst + off, p, (size_t)chunk);
        ubuf_block_unmap(u, off);
        off += chunk;
    }
    *n_p = (int)size;
    return true;
}

static bool verify_handle(int h, int cls, const char *after)
{
    static uint8_t tmp[MAXB];
    struct mblk *m = &hb[h];
    if (!m->live || sim_violation_class())
        return true;
    /* first a read at an arbitrary offset, with the segment cache in the
     * state the operation left it in */
    if (m->n > 0) {
        probe_ctr = sim_mix(probe_ctr, (uint64_t)h);
        int po = (int)(probe_ctr % (uint64_t)m->n);
        if (probe_ctr & (1u << 20))
            po = po - m->n;     /* the same octet, counted from the end */
        int ps = 1;
        const uint8_t *pp;
        if (!ubase_check(ubuf_block_read(m->u, po, &ps, &pp))) {
            sim_violation(cls == V_ISOLATION ? V_ISOLATION : V_ACCESSOR,
                          "handle %d after %s: read at %d refused in a block of %d octets", h, after, po, m->n);
            return false;
        }
        uint8_t got = *pp;
        ubuf_block_unmap(m->u, po);
        int pn = po < 0 ? po + m->n : po;
        if (ps != 1 || got != m->v[pn]) {
            sim_violation(cls, "handle %d after %s: read at %d returns %02x, byte string has %02x (size %d)",
                          h, after, po, got, m->v[pn], m->n);
            return false;
        }
    }
    int n = -1;
    const char *why = "";
    if (!read_all(m->u, tmp, MAXB, &n, &why)) {
        sim_violation(cls == V_ISOLATION ? V_ISOLATION : V_SIZE,
                      "handle %d after %s: %s (model size %d, reported %d)", h, after, why, m->n, n);
        return false;
    }
    if (n != m->n) {
        sim_violation(cls == V_CONTENT ? V_SIZE : cls,
                      "handle %d after %s: size %d, byte string has %d", h, after, n, m->n);
        return false;
    }
    for (int i = 0; i < n; i++)
        if (tmp[i] != m->v[i]) {
            sim_violation(cls, "handle %d after %s: octet %d is %02x, byte string has %02x (size %d)",
                          h, after, i, tmp[i], m->v[i], n);
            return false;
        }
    return true;
}

/* after an operation on `h`: h against its new model, every other handle
 * against its unchanged model */
static void verify_all(int h, const char *after, bool errored)
{
    for (int i = 0; i < NH; i++) {
        if (!hb[i].live)
            continue;
        int cls = i == h ? (errored ? V_ERROR_CHANGED : V_CONTENT)
                         : (check_c02 ? V_ISOLATION : V_CONTENT);
        if (!verify_handle(i, cls, after))
            return;
    }
}

static int seg_boundaries(struct ubuf *u, int n, int *b, int max)
{
    int cnt = 0, off = 0;
    while (off < n && cnt < max) {
        size_t lin;
        if (!ubase_check(ubuf_block_size_linear(u, off, &lin)) || lin == 0)
            break;
        off += (int)lin;
        if (off < n)
            b[cnt++] = off;
    }
    return cnt;
}

/* offset selector: small values are simple (0 -> offset 0) */
enum { OFF_VALID, OFF_AMBIGUOUS, OFF_INVALID };
static int sel_offset(struct mblk *m, int64_t sel, bool allow_neg, int *kind)
{
    uint64_t s = (uint64_t)sel;
    int n = m->n;
    int cls = (int)(s % 8);
    int x = (int)((s / 8) % 4096);
    *kind = OFF_VALID;
    switch (cls) {
    case 0: if (n == 0) *kind = OFF_AMBIGUOUS; return 0;
    case 1: case 2: if (n == 0) { *kind = OFF_AMBIGUOUS; return 0; } return x % n;
    case 3: {
        int b[16];
        int c = seg_boundaries(m->u, n, b, 16);
        if (c == 0) { if (n == 0) *kind = OFF_AMBIGUOUS; return 0; }
        SIM_PROBE("buf_offset_on_segment_boundary");
        return b[x % c];
    }
    case 4:
        if (!allow_neg || n == 0) { if (n == 0) *kind = OFF_AMBIGUOUS; return n ? x % n : 0; }
        SIM_PROBE("buf_negative_offset");
        return -1 - x % n;
    case 5: *kind = OFF_AMBIGUOUS; return n;         /* exactly the end */
    case 6: *kind = OFF_INVALID; SIM_PROBE("buf_offset_out_of_range"); return n + 1 + x % 5;
    default:
        if (!allow_neg) { *kind = OFF_INVALID; return n + 1 + x % 7; }
        *kind = OFF_INVALID;
        SIM_PROBE("buf_offset_out_of_range");
        return -n - 1 - x % 5;
    }
}

/* size selector relative to what remains after `off` (off normalised >= 0) */
static int sel_size(int remaining, int64_t sel, int *kind)
{
    uint64_t s = (uint64_t)sel;
    int cls = (int)(s % 6);
    int x = (int)((s / 6) % 4096);
    *kind = OFF_VALID;
    if (remaining < 0)
        remaining = 0;
    switch (cls) {
    case 0: return -1;
    case 1: return remaining;
    case 2: return remaining ? 1 + x % remaining : 0;
    case 3: return 1 <= remaining ? 1 : 0;
    case 4: *kind = OFF_INVALID; SIM_PROBE("buf_size_out_of_range"); return remaining + 1 + x % 5;
    default: return remaining ? 1 + x % remaining : 0;
    }
}

static void fill_fresh(int h)
{
    struct mblk *m = &hb[h];
    if (m->n == 0)
        return;
    int size = -1;
    uint8_t *w;
    if (!ubase_check(ubuf_block_write(m->u, 0, &size, &w))) {
        sim_violation(V_WRITE_REFUSED, "cannot map a freshly allocated block for writing");
        return;
    }
    if (size != m->n) {
        sim_violation(V_NOT_CONTIGUOUS, "fresh block of %d octets maps %d contiguous octets", m->n, size);
        return;
    }
    for (int i = 0; i < m->n; i++)
        w[i] = m->v[i] = pat = (uint8_t)(pat * 5 + 17 + h);
    ubuf_block_unmap(m->u, 0);
}

/* bytes whose value is not specified (prepend, copy with negative skip, ...)
 * are adopted from the buffer, everything else must match */
static void adopt(int h, int from, int len)
{
    struct mblk *m = &hb[h];
    if (len <= 0)
        return;
    if (!ubase_check(ubuf_block_extract(m->u, from, len, m->v + from)))
        sim_violation(V_ACCESSOR, "cannot read back %d octets at %d of handle %d", len, from, h);
}

static int free_slot(int want)
{
    for (int i = 0; i < NH; i++)
        if (!hb[(want + i) % NH].live)
            return (want + i) % NH;
    return -1;
}

static void new_handle(int g, struct ubuf *u, const uint8_t *v, int n, int group)
{
    struct mblk *m = &hb[g];
    m->live = true;
    m->u = u;
    m->n = n;
    if (n)
        memcpy(m->v, v, (size_t)n);
    m->group = group;
    gcount[group]++;
}

static void drop_handle(int h)
{
    hb[h].live = false;
    gcount[hb[h].group]--;
    hb[h].u = NULL;
}

/* ------------------------------------------------------- block operations */
struct outcome { bool armed; bool fired; };

static void arm(const struct sim_op *op)
{
    if (op->a[5] > 0)
        sim_alloc_arm((int)(op->a[5] % 8) + 0);
}

static bool disarm(const struct sim_op *op)
{
    if (op->a[5] <= 0)
        return false;
    unsigned f = sim_alloc_failed();
    (void)f;
    return sim_alloc_disarm() == 0;
}

static unsigned failed_before;
static bool fault_fired(void) { return sim_alloc_failed() != failed_before; }

static void expect_ok(int ret, const char *what, int h)
{
    if (!ubase_check(ret) && !fault_fired())
        sim_violation(V_UNEXPECTED_ERROR, "%s on handle %d (size %d) refused with error %d",
                      what, h, hb[h].n, ret);
}

static void do_block_op(const struct sim_op *op)
{
    int h = (int)((uint64_t)op->a[0] % NH);
    struct mblk *m = &hb[h];
    int kind, skind;
    failed_before = sim_alloc_failed();
    switch (op->code) {
    case B_ALLOC: {
        int g = free_slot(h);
        if (g < 0)
            return;
        static const int sizes[] = { 0, 1, 2, 7, 16, 33, 64, 100, 188, 200 };
        int n = (uint64_t)op->a[1] % 12 < 10 ? sizes[(uint64_t)op->a[1] % 12]
                                             : (int)((uint64_t)op->a[1] / 12 % 200);
        arm(op);
        struct ubuf *u = ubuf_block_alloc(bmgr, n);
        disarm(op);
        if (u == NULL) {
            if (!fault_fired())
                sim_violation(V_UNEXPECTED_ERROR, "allocation of %d octets failed", n);
            return;
        }
        uint8_t z[1] = { 0 };
        new_handle(g, u, z, 0, group_new());
        hb[g].n = n;
        if (n > 0) {
            size_t lin = 0;
            if (!ubase_check(ubuf_block_size_linear(u, 0, &lin)) || (int)lin != n)
                sim_violation(V_NOT_CONTIGUOUS, "fresh block of %d octets has a first segment of %zu", n, lin);
        }
        fill_fresh(g);
        verify_all(g, "alloc", false);
        return;
    }
    case B_DUP: {
        if (!m->live) return;
        int g = free_slot((int)((uint64_t)op->a[1] % NH));
        if (g < 0) return;
        arm(op);
        struct ubuf *u = ubuf_dup(m->u);
        disarm(op);
        if (u == NULL) {
            if (!fault_fired())
                sim_violation(V_UNEXPECTED_ERROR, "dup of handle %d failed", h);
            else
                SIM_PROBE("buf_dup_failed_by_fault");
            verify_all(h, "dup(failed)", true);
            return;
        }
        new_handle(g, u, m->v, m->n, m->group);
        verify_all(g, "dup", false);
        return;
    }
    case B_FREE:
        if (!m->live) return;
        ubuf_free(m->u);
        drop_handle(h);
        verify_all(-1, "free", false);
        return;
    case B_APPEND: {
        int g = (int)((uint64_t)op->a[1] % NH);
        if (!m->live || !hb[g].live || g == h || m->n + hb[g].n > MAXB) return;
        int ret = ubuf_block_append(m->u, hb[g].u);
        expect_ok(ret, "append", h);
        if (!ubase_check(ret)) return;
        memcpy(m->v + m->n, hb[g].v, (size_t)hb[g].n);
        m->n += hb[g].n;
        int gg = hb[g].group;
        hb[g].live = false;     /* consumed: its count moves with the merge */
        hb[g].u = NULL;
        gcount[gg]--;
        if (gg == m->group)
            gsliced[gg] = true; /* two segments of one handle may share an area */
        group_merge(m->group, gg);
        verify_all(h, "append", false);
        return;
    }
    case B_INSERT: {
        int g = (int)((uint64_t)op->a[2] % NH);
        if (!m->live || !hb[g].live || g == h || m->n + hb[g].n > MAXB) return;
        int off = sel_offset(m, op->a[1], false, &kind);
        if (kind == OFF_AMBIGUOUS) return;
        arm(op);
        int ret = ubuf_block_insert(m->u, off, hb[g].u);
        disarm(op);
        if (kind == OFF_INVALID) {
            if (ubase_check(ret))
                sim_violation(V_ERROR_EXPECTED, "insert at %d accepted on a block of %d octets", off, m->n);
            verify_all(h, "insert(out of range)", true);
            return;
        }
        expect_ok(ret, "insert", h);
        if (!ubase_check(ret)) {
            SIM_PROBE("buf_insert_failed_by_fault");
            verify_all(h, "insert(failed)", true);
            return;
        }
        memmove(m->v + off + hb[g].n, m->v + off, (size_t)(m->n - off));
        memcpy(m->v + off, hb[g].v, (size_t)hb[g].n);
        m->n += hb[g].n;
        int gg = hb[g].group;
        hb[g].live = false;
        hb[g].u = NULL;
        gcount[gg]--;
        group_merge(m->group, gg);
        gsliced[m->group] = true;
        verify_all(h, "insert", false);
        return;
    }
    case B_DELETE: {
        if (!m->live) return;
        int off = sel_offset(m, op->a[1], false, &kind);
        if (kind == OFF_AMBIGUOUS) return;
        int size = sel_size(m->n - off, op->a[2], &skind);
        arm(op);
        int ret = ubuf_block_delete(m->u, off, size);
        disarm(op);
        if (kind == OFF_INVALID || skind == OFF_INVALID) {
            if (ubase_check(ret))
                sim_violation(V_ERROR_EXPECTED, "delete(%d, %d) accepted on a block of %d octets", off, size, m->n);
            verify_all(h, "delete(out of range)", true);
            return;
        }
        expect_ok(ret, "delete", h);
        if (!ubase_check(ret)) {
            SIM_PROBE("buf_delete_failed_by_fault");
            verify_all(h, "delete(failed)", true);
            return;
        }
        if (size == -1) size = m->n - off;
        memmove(m->v + off, m->v + off + size, (size_t)(m->n - off - size));
        m->n -= size;
        gsliced[m->group] = true;
        verify_all(h, "delete", false);
        return;
    }
    case B_TRUNCATE: {
        if (!m->live) return;
        int off = sel_offset(m, op->a[1], false, &kind);
        if (kind == OFF_AMBIGUOUS) { off = m->n; kind = OFF_VALID; }
        int ret = ubuf_block_truncate(m->u, off);
        if (kind == OFF_INVALID) {
            if (ubase_check(ret))
                sim_violation(V_ERROR_EXPECTED, "truncate(%d) accepted on a block of %d octets", off, m->n);
            verify_all(h, "truncate(out of range)", true);
            return;
        }
        expect_ok(ret, "truncate", h);
        if (!ubase_check(ret)) return;
        m->n = off;
        verify_all(h, "truncate", false);
        return;
    }
    case B_RESIZE: {
        if (!m->live) return;
        int off = sel_offset(m, op->a[1], true, &kind);
        if (kind == OFF_AMBIGUOUS) { off = m->n; kind = OFF_VALID; }
        int norm = off < 0 ? off + m->n : off;
        int size = sel_size(m->n - norm, op->a[2], &skind);
        if (kind == OFF_INVALID) size = -1;
        arm(op);
        int ret = ubuf_block_resize(m->u, off, size);
        disarm(op);
        if (kind == OFF_INVALID || skind == OFF_INVALID) {
            if (ubase_check(ret))
                sim_violation(V_ERROR_EXPECTED, "resize(%d, %d) accepted on a block of %d octets", off, size, m->n);
            verify_all(h, "resize(out of range)", true);
            return;
        }
        expect_ok(ret, "resize", h);
        if (!ubase_check(ret)) {
            verify_all(h, "resize(failed)", true);
            return;
        }
        if (size == -1) size = m->n - norm;
        memmove(m->v, m->v + norm, (size_t)size);
        m->n = size;
        verify_all(h, "resize", false);
        return;
    }
    case B_PREPEND: {
        if (!m->live) return;
        int k = (int)((uint64_t)op->a[1] % 40);
        if (m->n + k > MAXB) return;
        int ret = ubuf_block_prepend(m->u, k);
        if (!ubase_check(ret)) {
            verify_all(h, "prepend(refused)", true);
            return;
        }
        SIM_PROBE("buf_prepend_accepted");
        memmove(m->v + k, m->v, (size_t)m->n);
        m->n += k;
        /* the new head octets are whatever the memory holds: read them
         * through the first octets, the rest must be the old content */
        {
            size_t sz = 0;
            ubuf_block_size(m->u, &sz);
            if ((int)sz != m->n) {
                sim_violation(V_SIZE, "after prepend(%d) size is %zu, expected %d", k, sz, m->n);
                return;
            }
        }
        /* the old content must still be where a byte string has it, read
         * before anything else touches the segment cache */
        if (m->n > k) {
            probe_ctr = sim_mix(probe_ctr, 77);
            int po = k + (int)(probe_ctr % (uint64_t)(m->n - k));
            int ps = 1;
            const uint8_t *pp;
            if (!ubase_check(ubuf_block_read(m->u, po, &ps, &pp)))
                sim_violation(V_ACCESSOR, "read at %d refused right after prepend(%d) on %d octets", po, k, m->n);
            else {
                if (*pp != m->v[po])
                    sim_violation(V_CONTENT, "right after prepend(%d): read at %d returns %02x, byte string has %02x",
                                  k, po, *pp, m->v[po]);
                ubuf_block_unmap(m->u, po);
            }
        }
        adopt(h, 0, k);
        verify_all(h, "prepend", false);
        return;
    }
    case B_SPLICE: {
        if (!m->live) return;
        int g = free_slot((int)((uint64_t)op->a[3] % NH));
        if (g < 0) return;
        int off = sel_offset(m, op->a[1], true, &kind);
        if (kind == OFF_AMBIGUOUS) return;
        int norm = off < 0 ? off + m->n : off;
        int size = sel_size(m->n - norm, op->a[2], &skind);
        if (kind == OFF_INVALID) size = -1;
        if (size == 0) return;  /* not specified */
        arm(op);
        struct ubuf *u = ubuf_block_splice(m->u, off, size);
        disarm(op);
        if (kind == OFF_INVALID || skind == OFF_INVALID) {
            if (u != NULL) {
                sim_violation(V_ERROR_EXPECTED, "splice(%d, %d) accepted on a block of %d octets", off, size, m->n);
                ubuf_free(u);
            }
            verify_all(h, "splice(out of range)", true);
            return;
        }
        if (u == NULL) {
            if (!fault_fired())
                sim_violation(V_UNEXPECTED_ERROR, "splice(%d, %d) refused on a block of %d octets", off, size, m->n);
            else
                SIM_PROBE("buf_splice_failed_by_fault");
            verify_all(h, "splice(failed)", true);
            return;
        }
        if (size == -1) size = m->n - norm;
        new_handle(g, u, m->v + norm, size, m->group);
        verify_all(g, "splice", false);
        return;
    }
    case B_SPLIT: {
        if (!m->live) return;
        int g = free_slot((int)((uint64_t)op->a[2] % NH));
        if (g < 0) return;
        int off = sel_offset(m, op->a[1], true, &kind);
        if (kind == OFF_AMBIGUOUS) return;
        int norm = off < 0 ? off + m->n : off;
        arm(op);
        struct ubuf *u = ubuf_block_split(m->u, off);
        disarm(op);
        if (kind == OFF_INVALID) {
            if (u != NULL) {
                sim_violation(V_ERROR_EXPECTED, "split(%d) accepted on a block of %d octets", off, m->n);
                ubuf_free(u);
            }
            verify_all(h, "split(out of range)", true);
            return;
        }
        if (u == NULL) {
            if (!fault_fired())
                sim_violation(V_UNEXPECTED_ERROR, "split(%d) refused on a block of %d octets", off, m->n);
            else
                SIM_PROBE("buf_split_failed_by_fault");
            verify_all(h, "split(failed)", true);
            return;
        }
        new_handle(g, u, m->v + norm, m->n - norm, m->group);
        m->n = norm;
        gsliced[m->group] = true;
        verify_all(h, "split", false);
        return;
    }
    case B_MERGE:
    case B_COPY: {
        if (!m->live) return;
        int g = h;
        if (op->code == B_COPY) {
            g = free_slot((int)((uint64_t)op->a[3] % NH));
            if (g < 0) return;
        }
        /* skip in [-8, n] or beyond; new_size -1 or explicit */
        if (m->n == 0) return;  /* copying nothing is not specified */
        uint64_t s1 = (uint64_t)op->a[1];
        int skip;
        bool invalid = false;
        switch (s1 % 5) {
        case 0: skip = 0; break;
        case 1: skip = m->n ? (int)(s1 / 5 % (uint64_t)m->n) : 0; break;
        case 2: skip = -(int)(s1 / 5 % 8) - 1; SIM_PROBE("buf_copy_negative_skip"); break;
        case 3: skip = m->n; break;
        default: skip = m->n + 1 + (int)(s1 / 5 % 4); invalid = true; break;
        }
        uint64_t s2 = (uint64_t)op->a[2];
        int new_size;
        if (invalid || s2 % 3 == 0)
            new_size = -1;
        else {
            int lo = skip < 0 ? -skip : 0;
            new_size = lo + (int)(s2 / 3 % (uint64_t)(m->n - (skip > 0 ? skip : 0) + 9));
        }
        /* a copy that would hold nothing of the original is not specified */
        if (!invalid) {
            int ns = new_size == -1 ? m->n - skip : new_size;
            int eo_ = skip < 0 ? -skip : 0, es_ = skip < 0 ? 0 : skip;
            int el_ = ns - eo_ <= m->n - es_ ? ns - eo_ : m->n - es_;
            if (ns <= 0 || el_ <= 0)
                return;
        }
        arm(op);
        struct ubuf *u = ubuf_block_copy(bmgr, m->u, skip, new_size);
        disarm(op);
        if (invalid) {
            if (u != NULL) {
                sim_violation(V_ERROR_EXPECTED, "copy(skip %d) accepted on a block of %d octets", skip, m->n);
                ubuf_free(u);
            }
            verify_all(h, "copy(out of range)", true);
            return;
        }
        if (u == NULL) {
            if (!fault_fired())
                sim_violation(V_UNEXPECTED_ERROR, "copy(%d, %d) refused on a block of %d octets", skip, new_size, m->n);
            else
                SIM_PROBE("buf_copy_failed_by_fault");
            verify_all(h, "copy(failed)", true);
            return;
        }
        if (new_size == -1) new_size = m->n - skip;
        if (new_size > MAXB) { ubuf_free(u); return; }
        static uint8_t nv[MAXB];
        static bool known[MAXB];
        memset(known, 0, sizeof(known));
        int eo = skip < 0 ? -skip : 0, es = skip < 0 ? 0 : skip;
        int el = new_size - eo <= m->n - es ? new_size - eo : m->n - es;
        for (int i = 0; i < el; i++) {
            nv[eo + i] = m->v[es + i];
            known[eo + i] = true;
        }
        size_t lin = 0;
        if (new_size > 0 && (!ubase_check(ubuf_block_size_linear(u, 0, &lin)) || (int)lin != new_size))
            sim_violation(V_NOT_CONTIGUOUS, "copy of %d octets is not one segment (%zu)", new_size, lin);
        if (op->code == B_MERGE) {
            ubuf_free(m->u);
            gcount[m->group]--;
            m->u = u;
            m->group = group_new();
            gcount[m->group]++;
        } else
            new_handle(g, u, nv, 0, group_new());
        struct mblk *t = &hb[g];
        t->n = new_size;
        /* unknown octets are written by the harness so that they are defined */
        if (new_size > 0) {
            int sz = -1;
            uint8_t *w;
            if (ubase_check(ubuf_block_write(t->u, 0, &sz, &w))) {
                for (int i = 0; i < new_size && i < sz; i++)
                    if (!known[i])
                        w[i] = nv[i] = pat = (uint8_t)(pat * 7 + 3);
                ubuf_block_unmap(t->u, 0);
            } else
                sim_violation(V_WRITE_REFUSED, "a fresh copy cannot be mapped for writing");
        }
        memcpy(t->v, nv, (size_t)new_size);
        verify_all(g, op->code == B_MERGE ? "merge" : "copy", false);
        return;
    }
    case B_WRITE: {
        if (!m->live || m->n == 0) return;
        int off = sel_offset(m, op->a[1], true, &kind);
        if (kind != OFF_VALID) return;
        int norm = off < 0 ? off + m->n : off;
        int size = -1;
        uint8_t *w;
        int ret = ubuf_block_write(m->u, off, &size, &w);
        if (!ubase_check(ret)) {
            SIM_PROBE("buf_write_refused");
            if (gcount[m->group] == 1 && !gsliced[m->group])
                sim_violation(V_WRITE_REFUSED, "write mapping refused (%d) although handle %d is the only owner of "
                              "its memory", ret, h);
            verify_all(h, "write(refused)", true);
            return;
        }
        SIM_PROBE("buf_write_granted");
        if (size <= 0 || norm + size > m->n) {
            sim_violation(V_ACCESSOR, "write mapping at %d returned %d octets in a block of %d", off, size, m->n);
            ubuf_block_unmap(m->u, off);
            return;
        }
        int len = 1 + (int)((uint64_t)op->a[2] % (uint64_t)size);
        for (int i = 0; i < len; i++)
            w[i] = m->v[norm + i] = pat = (uint8_t)(pat * 11 + 29);
        ubuf_block_unmap(m->u, off);
        if (gcount[m->group] > 1)
            SIM_PROBE("buf_write_granted_in_shared_group");
        /* any handle that aliases the written octets now differs from its
         * byte string: that is the copy-on-write violation */
        for (int i = 0; i < NH; i++)
            if (hb[i].live && !verify_handle(i, i == h ? V_CONTENT : V_WRITE_SHARED, "write"))
                return;
        return;
    }
    }
}

static void do_access(const struct sim_op *op)
{
    int h = (int)((uint64_t)op->a[0] % NH);
    struct mblk *m = &hb[h];
    if (!m->live)
        return;
    int acc = (int)((uint64_t)op->a[1] % A__N);
    int kind, skind;
    int off = sel_offset(m, op->a[2], true, &kind);
    if (kind == OFF_AMBIGUOUS)
        return;
    int norm = off < 0 ? off + m->n : off;
    int size = kind == OFF_INVALID ? 1 : sel_size(m->n - norm, op->a[3], &skind);
    if (kind == OFF_INVALID) skind = OFF_VALID;
    bool invalid = kind == OFF_INVALID || skind == OFF_INVALID;
    int want = size == -1 ? m->n - norm : size;
    static uint8_t tmp[MAXB + 64];
    switch (acc) {
    case A_SIZE: {
        size_t s = 0;
        if (!ubase_check(ubuf_block_size(m->u, &s)) || (int)s != m->n)
            sim_violation(V_SIZE, "size of handle %d is %zu, byte string has %d", h, s, m->n);
        return;
    }
    case A_LINEAR:
    case A_READ: {
        int sz = size;
        const uint8_t *p;
        int ret = ubuf_block_read(m->u, off, &sz, &p);
        if (kind == OFF_INVALID) {
            if (ubase_check(ret)) {
                sim_violation(V_ERROR_EXPECTED, "read at %d accepted on a block of %d octets", off, m->n);
                ubuf_block_unmap(m->u, off);
            }
            return;
        }
        if (!ubase_check(ret)) {
            sim_violation(V_UNEXPECTED_ERROR, "read(%d, %d) refused on a block of %d octets", off, size, m->n);
            return;
        }
        if (sz <= 0 || norm + sz > m->n)
            sim_violation(V_ACCESSOR, "read(%d, %d) returned %d octets in a block of %d", off, size, sz, m->n);
        else if (memcmp(p, m->v + norm, (size_t)sz))
            sim_violation(V_ACCESSOR, "read(%d, %d) of handle %d returned wrong octets", off, size, h);
        ubuf_block_unmap(m->u, off);
        return;
    }
    case A_PEEK: {
        if (want <= 0) return;
        const uint8_t *p = ubuf_block_peek(m->u, off, size, tmp);
        if (invalid) {
            if (p != NULL) {
                sim_violation(V_ERROR_EXPECTED, "peek(%d, %d) accepted on a block of %d octets", off, size, m->n);
                ubuf_block_peek_unmap(m->u, off, tmp, p);
            }
            return;
        }
        if (p == NULL) {
            sim_violation(V_UNEXPECTED_ERROR, "peek(%d, %d) refused on a block of %d octets", off, size, m->n);
            return;
        }
        if (memcmp(p, m->v + norm, (size_t)want))
            sim_violation(V_ACCESSOR, "peek(%d, %d) of handle %d returned wrong octets", off, size, h);
        ubuf_block_peek_unmap(m->u, off, tmp, p);
        return;
    }
    case A_EXTRACT: {
        memset(tmp, 0xee, sizeof(tmp));
        int ret = ubuf_block_extract(m->u, off, size, tmp);
        if (invalid) {
            if (ubase_check(ret))
                sim_violation(V_ERROR_EXPECTED, "extract(%d, %d) accepted on a block of %d octets", off, size, m->n);
            return;
        }
        if (!ubase_check(ret)) {
            sim_violation(V_UNEXPECTED_ERROR, "extract(%d, %d) refused on a block of %d octets", off, size, m->n);
            return;
        }
        if (want > 0 && memcmp(tmp, m->v + norm, (size_t)want))
            sim_violation(V_ACCESSOR, "extract(%d, %d) of handle %d returned wrong octets", off, size, h);
        else if (tmp[want > 0 ? want : 0] != 0xee)
            sim_violation(V_ACCESSOR, "extract(%d, %d) wrote past the requested size", off, size);
        return;
    }
    case A_IOVEC: {
        if (invalid || want <= 0) return;
        int cnt = ubuf_block_iovec_count(m->u, off, size);
        if (cnt <= 0 || cnt > 64) {
            sim_violation(V_ACCESSOR, "iovec_count(%d, %d) = %d on a block of %d octets", off, size, cnt, m->n);
            return;
        }
        struct iovec iov[64];
        if (!ubase_check(ubuf_block_iovec_read(m->u, off, size, iov))) {
            sim_violation(V_UNEXPECTED_ERROR, "iovec_read(%d, %d) refused", off, size);
            return;
        }
        int pos = 0;
        for (int i = 0; i < cnt; i++) {
            if (pos + (int)iov[i].iov_len > want ||
                memcmp(iov[i].iov_base, m->v + norm + pos, iov[i].iov_len)) {
                sim_violation(V_ACCESSOR, "iovec %d of (%d, %d) of handle %d is wrong", i, off, size, h);
                break;
            }
            pos += (int)iov[i].iov_len;
        }
        if (!sim_violation_class() && pos != want)
            sim_violation(V_ACCESSOR, "iovecs cover %d octets, %d requested", pos, want);
        ubuf_block_iovec_unmap(m->u, off, size, iov);
        return;
    }
    case A_SCAN: {
        if (kind == OFF_INVALID || off < 0) return;
        uint8_t word = (uint64_t)op->a[4] % 3 == 0 ? (uint8_t)op->a[4]
                       : m->v[(uint64_t)op->a[4] % (uint64_t)m->n];
        size_t o = (size_t)off;
        int ret = ubuf_block_scan(m->u, &o, word);
        int expect = -1;
        for (int i = off; i < m->n; i++)
            if (m->v[i] == word) { expect = i; break; }
        if (expect < 0) {
            if (ubase_check(ret))
                sim_violation(V_ACCESSOR, "scan found %02x at %zu, the byte string has none after %d", word, o, off);
        } else if (!ubase_check(ret) || (int)o != expect)
            sim_violation(V_ACCESSOR, "scan for %02x from %d: got %s at %zu, expected %d", word, off,
                          ubase_check(ret) ? "match" : "error", o, expect);
        return;
    }
    case A_FIND: {
        if (kind == OFF_INVALID || off < 0 || m->n < 2) return;
        int at = (int)((uint64_t)op->a[4] % (uint64_t)(m->n - 1));
        uint8_t w0 = m->v[at], w1 = (uint64_t)op->a[4] % 5 == 0 ? (uint8_t)(m->v[at + 1] + 1) : m->v[at + 1];
        size_t o = (size_t)off;
        int ret = ubuf_block_find(m->u, &o, 2, w0, w1);
        int expect = -1;
        for (int i = off; i + 1 < m->n; i++)
            if (m->v[i] == w0 && m->v[i + 1] == w1) { expect = i; break; }
        if (expect < 0) {
            if (ubase_check(ret))
                sim_violation(V_ACCESSOR, "find reported a match at %zu that the byte string does not have", o);
        } else if (!ubase_check(ret) || (int)o != expect)
            sim_violation(V_ACCESSOR, "find from %d: got %s at %zu, expected %d", off,
                          ubase_check(ret) ? "match" : "error", o, expect);
        return;
    }
    case A_COMPARE:
    case A_EQUAL: {
        int g = (int)((uint64_t)op->a[4] % NH);
        if (!hb[g].live || kind == OFF_INVALID || off < 0) return;
        struct mblk *s = &hb[g];
        if (acc == A_EQUAL) {
            bool eq = s->n == m->n && !memcmp(s->v, m->v, (size_t)m->n);
            bool got = ubase_check(ubuf_block_equal(m->u, s->u));
            if (eq != got)
                sim_violation(V_ACCESSOR, "equal(%d, %d) = %d, byte strings say %d", h, g, got, eq);
            return;
        }
        bool eq = off + s->n <= m->n && !memcmp(m->v + off, s->v, (size_t)s->n);
        bool got = ubase_check(ubuf_block_compare(m->u, off, s->u));
        if (eq != got)
            sim_violation(V_ACCESSOR, "compare(%d at %d, %d) = %d, byte strings say %d", h, off, g, got, eq);
        return;
    }
    case A_MATCH: {
        int len = (int)((uint64_t)op->a[3] % 9);
        uint8_t filter[8], mask[8];
        bool expect = len <= m->n;
        for (int i = 0; i < len && i < 8; i++) {
            mask[i] = (uint8_t)(0xff >> ((uint64_t)op->a[4] % 3)) | (uint8_t)(i * 16);
            filter[i] = i < m->n ? (uint8_t)(m->v[i] & mask[i]) : 0;
            if ((uint64_t)op->a[4] % 7 == 0 && i == len - 1)
                filter[i] ^= (uint8_t)(mask[i] & 0x10 ? 0x10 : mask[i] & 1);
        }
        if (len > 8) len = 8;
        for (int i = 0; expect && i < len; i++)
            if ((m->v[i] & mask[i]) != filter[i])
                expect = false;
        bool got = ubase_check(ubuf_block_match(m->u, filter, mask, (size_t)len));
        if (got != expect)
            sim_violation(V_ACCESSOR, "match of %d octets on handle %d = %d, byte string says %d", len, h, got, expect);
        return;
    }
    }
}

/* ------------------------------------------------------------- generation */
static void gen_block(struct sim_rng *r, struct sim_plan *p, bool c02)
{
    static const int depths[] = { 0, 0, 1, 2, 8 };
    p->cfg[CFG_UBUF_POOL] = depths[sim_rng_below(r, 5)];
    p->cfg[CFG_SHARED_POOL] = depths[sim_rng_below(r, 5)];
    static const int prepends[] = { -1, 0, 3, 32 };
    p->cfg[CFG_PREPEND] = prepends[sim_rng_below(r, 4)];
    p->cfg[CFG_APPEND] = sim_rng_below(r, 3) * 5;
    static const int aligns[] = { 0, 0, 16, 32 };
    p->cfg[CFG_ALIGN] = aligns[sim_rng_below(r, 4)];
    p->cfg[CFG_ALIGN_OFFSET] = p->cfg[CFG_ALIGN] ? -(int64_t)sim_rng_below(r, 8) : 0;
    p->cfg[CFG_SUBOFFSET] = sim_rng_below(r, 16);
    bool faults = sim_rng_chance(r, 1, 2);
    p->cfg[CFG_FAULTS] = faults;
    int n = 10 + (int)sim_rng_below(r, 51);
    int nalloc = 1 + (int)sim_rng_below(r, 3);
    for (int i = 0; i < nalloc; i++)
        sim_plan_add(p, 0, B_ALLOC, i, sim_rng_below(r, 2400), 0, 0, 0, 0);
    for (int i = 0; i < n; i++) {
        int h = (int)sim_rng_below(r, NH);
        int64_t f = faults && sim_rng_chance(r, 1, 6) ? 1 + sim_rng_below(r, 5) : 0;
        uint32_t k = sim_rng_below(r, 100);
        int64_t o = sim_rng_below(r, 8 * 64), s = sim_rng_below(r, 6 * 64);
        int g = (int)sim_rng_below(r, NH);
        if (k < 8) sim_plan_add(p, 0, B_ALLOC, h, sim_rng_below(r, 2400), 0, 0, 0, f);
        else if (k < 14) sim_plan_add(p, 0, B_APPEND, h, g, 0, 0, 0, 0);
        else if (k < 21) sim_plan_add(p, 0, B_INSERT, h, o, g, 0, 0, f);
        else if (k < 29) sim_plan_add(p, 0, B_DELETE, h, o, s, 0, 0, f);
        else if (k < 34) sim_plan_add(p, 0, B_TRUNCATE, h, o, 0, 0, 0, 0);
        else if (k < 40) sim_plan_add(p, 0, B_RESIZE, h, o, s, 0, 0, f);
        else if (k < 44) sim_plan_add(p, 0, B_PREPEND, h, sim_rng_below(r, 40), 0, 0, 0, 0);
        else if (k < 52) sim_plan_add(p, 0, B_SPLICE, h, o, s, g, 0, f);
        else if (k < 58) sim_plan_add(p, 0, B_SPLIT, h, o, g, 0, 0, f);
        else if (k < 61) sim_plan_add(p, 0, B_MERGE, h, sim_rng_below(r, 400), sim_rng_below(r, 400), 0, 0, f);
        else if (k < 65) sim_plan_add(p, 0, B_COPY, h, sim_rng_below(r, 400), sim_rng_below(r, 400), g, 0, f);
        else if (k < 72) sim_plan_add(p, 0, B_DUP, h, g, 0, 0, 0, f);
        else if (k < 77) sim_plan_add(p, 0, B_FREE, h, 0, 0, 0, 0, 0);
        else if (k < (c02 ? 92 : 78)) sim_plan_add(p, 0, B_WRITE, h, o, sim_rng_below(r, 64), 0, 0, 0);
        else sim_plan_add(p, 0, B_ACCESS, h, sim_rng_below(r, A__N), o, s, sim_rng_below(r, 4096), 0);
    }
}

static void run_block(const struct sim_plan *plan, bool c02)
{
    check_c02 = c02;
    memset(hb, 0, sizeof(hb));
    ngroups = 0;
    pat = (uint8_t)plan->seed;
    probe_ctr = plan->seed;
    sim_alloc_reset();
    static const char *const allow[] = {
        "ubuf_block_mem_alloc_inner", "ubuf_mem_shared_alloc_inner", NULL };
    sim_alloc_set_allow_list(allow);
    umem = umem_sim_mgr_alloc((unsigned)((uint64_t)plan->cfg[CFG_SUBOFFSET] % 16));
    int align = (int)((uint64_t)plan->cfg[CFG_ALIGN] % 65);
    bmgr = ubuf_block_mem_mgr_alloc((uint16_t)((uint64_t)plan->cfg[CFG_UBUF_POOL] % 9),
                                    (uint16_t)((uint64_t)plan->cfg[CFG_SHARED_POOL] % 9),
                                    umem,
                                    plan->cfg[CFG_PREPEND] < 0 ? -1 : (int)(plan->cfg[CFG_PREPEND] % 64),
                                    (int)((uint64_t)plan->cfg[CFG_APPEND] % 64),
                                    align, align ? (int)(plan->cfg[CFG_ALIGN_OFFSET] % align) : 0);
    for (int i = 0; i < plan->nops && !sim_violation_class(); i++) {
        const struct sim_op *op = &plan->ops[i];
        sim_ev(op_name(op->code), (uint64_t)op->a[0], (uint64_t)op->a[1]);
        if (op->code == B_ACCESS)
            do_access(op);
        else if (op->code >= B_ALLOC && op->code < B_ACCESS)
            do_block_op(op);
        sim_alloc_disarm();
        /* abstract state: sizes and share structure */
        uint64_t hsh = 3;
        for (int k = 0; k < NH; k++)
            hsh = sim_mix(hsh, hb[k].live ? ((uint64_t)hb[k].n << 8 | (uint64_t)hb[k].group) : 0xffff);
        sim_sig_add(1, hsh);
    }
    if (sim_alloc_failed())
        sim_mark_nontrivial();
    bool clean = !sim_violation_class();
    if (clean) {
        for (int i = 0; i < NH; i++)
            if (hb[i].live) {
                ubuf_free(hb[i].u);
                hb[i].live = false;
            }
        ubuf_mgr_vacuum(bmgr);
        if (umem_sim_live() != 0)
            sim_violation(V_LEAK, "%u memory area(s) left after freeing every handle", umem_sim_live());
    }
    ubuf_mgr_release(bmgr);
    umem_mgr_release(umem);
    if (clean && !sim_violation_class() && sim_alloc_live() != 0) {
        char buf[200];
        sim_alloc_describe_live(buf, sizeof(buf));
        sim_violation(V_LEAK, "%u structure(s) left after releasing the manager: %s", sim_alloc_live(), buf);
    }
    sim_mark_nontrivial();
}

/* ================================================================== engine */
static void gen(const char *prop, struct sim_rng *r, struct sim_plan *p)
{
    if (!strcmp(prop, "C03")) gen_block(r, p, false);
    else if (!strcmp(prop, "C02")) gen_block(r, p, true);
    else gen_dict(r, p);
}

static void run(const char *prop, const struct sim_plan *plan)
{
    if (!strcmp(prop, "C03")) run_block(plan, false);
    else if (!strcmp(prop, "C02")) run_block(plan, true);
    else run_dict(plan);
}

static const char *const props[] = { "C02", "C03", "C10", NULL };
const struct sim_engine sim_engine = {
    .name = "ebuf", .props = props, .gen = gen, .run = run,
    .class_name = class_name, .op_name = op_name,
};

int main(int argc, char **argv) { return sim_main(argc, argv); }
