/*
 * E-ts, PSI part (C16): the real upipe_ts_psi_merge.c, upipe_ts_psi_split.c and
 * upipe_ts_psi_join.c behind a simulated transport.
 *
 * merge: generated sections are cut into TS payloads by a seeded packetiser
 *   (pointer fields, several sections per payload, sections cut anywhere -
 *   inside the 3-octet header too -, stuffing, payload sizes 1..184, segmented
 *   buffers); the channel then loses payloads (the next one carries the
 *   discontinuity flag, as upipe_ts_decaps sets it on a continuity gap), flags
 *   discontinuities, or silently corrupts octets; the pipe may be released at
 *   any point of the stream; allocations may fail inside an input.
 *   Oracle: an independent reference merger written from ISO/IEC 13818-1
 *   2.4.4 (drop the partial section on a discontinuity, resynchronise on the
 *   pointer field of the next unit start); without damage its output must be
 *   the original sections, and the pipe's output must equal it octet for octet.
 * split: sections against 0-3 outputs with filter/mask, outputs added and
 *   removed between sections; reference matcher.
 * join: sections into 1-3 inputs, inputs added and removed; single output.
 */
#include "../sim/sim.h"
#include "../sim/alloc.h"

#include <upipe/ubase.h>
#include <upipe/ulist.h>
#include <upipe/umem.h>
#include <upipe/udict.h>
#include <upipe/udict_inline.h>
#include <upipe/uref.h>
#include <upipe/uref_std.h>
#include <upipe/uref_flow.h>
#include <upipe/uref_block.h>
#include <upipe/uref_block_flow.h>
#include <upipe/uref_clock.h>
#include <upipe/ubuf.h>
#include <upipe/ubuf_block_mem.h>
#include <upipe/uprobe.h>
#include <upipe/upipe.h>
#include <upipe-ts/uref_ts_flow.h>
#include <upipe-ts/upipe_ts_psi_merge.h>
#include <upipe-ts/upipe_ts_psi_split.h>
#include <upipe-ts/upipe_ts_psi_join.h>

#include <stdlib.h>
#include <string.h>
#include <inttypes.h>

enum {
    V_SECTION_LOST = 1,     /* a section the transport delivered completely did not come out */
    V_SECTION_BOGUS,        /* output that is not the expected section (content, size, order, duplicate) */
    V_NO_RESYNC,            /* nothing comes out any more after the next unit start following damage */
    V_ROUTING,              /* split: section on an output whose filter does not match / missing on one that matches */
    V_JOIN,                 /* join: section of an input not forwarded / forwarded wrongly */
    V_LEAK,
    V_LIFECYCLE,
    V_FATAL_UNEXPECTED,
    V_CONTROL,
};

static const char *class_name(int cls)
{
    switch (cls) {
    case V_SECTION_LOST: return "section_lost";
    case V_SECTION_BOGUS: return "section_bogus";
    case V_NO_RESYNC: return "no_resync";
    case V_ROUTING: return "routing";
    case V_JOIN: return "join";
    case V_LEAK: return "leak";
    case V_LIFECYCLE: return "lifecycle";
    case V_FATAL_UNEXPECTED: return "fatal_unexpected";
    case V_CONTROL: return "control";
    default: return NULL;
    }
}

enum {
    OP_SECTION = 1,     /* a0 = size class, a1 = size detail, a2 = syntax indicator, a3 = content seed */
    OP_PAYLOAD,         /* a0 = capacity-1, a1 = start a new section when there is room, a2 = segmentation,
                           a3 = damage (0 none, 1 lost, 2 discontinuity flag, 3 corrupt), a4 = damage detail, a5 = alloc fault */
    OP_SUB_ADD,         /* a0 = filter seed, a1 = mask seed, a2 = size-1 */
    OP_SUB_DEL,         /* a0 = which */
    OP_SEND,            /* a0 = section, a1 = segmentation, a2 = input (join), a5 = alloc fault */
    OP__N
};
static const char *op_name(int code)
{
    static const char *const n[] = { "?", "section", "payload", "sub_add", "sub_del", "send" };
    return code > 0 && code < OP__N ? n[code] : "?";
}

enum { CFG_PROP = 0, CFG_KIND, CFG_POOL, CFG_RELEASE_AT, CFG_FAULTS, CFG_UMEM_OFF };
enum { K_MERGE = 0, K_SPLIT, K_JOIN, K__N };

#define MAXSEC 16
#define MAXSECSIZE 4096
#define MAXPAY 1024
#define MAXSINK 4
#define MAXREC 64

static struct umem_mgr *umem;
static struct udict_mgr *udict_mgr;
static struct uref_mgr *uref_mgr;
static struct ubuf_mgr *ubuf_mgr;
static const struct sim_plan *plan;
static bool fault_fired;

static bool checking(void) { return !sim_violation_class(); }

/* ---------------------------------------------------------------- sections */
static uint8_t sec[MAXSEC][MAXSECSIZE];
static int sec_len[MAXSEC];
static int nsec;

static void build_section(const struct sim_op *op)
{
    if (nsec >= MAXSEC)
        return;
    bool syntax = ((uint64_t)op->a[2] & 1) != 0;
    int min = syntax ? 12 : 3;
    int len;
    switch ((uint64_t)op->a[0] % 8) {
    case 0: len = min; break;
    case 1: case 2: case 3: len = min + (int)((uint64_t)op->a[1] % 40); break;
    case 4: len = 170 + (int)((uint64_t)op->a[1] % 30); break;         /* around one payload */
    case 5: len = 360 + (int)((uint64_t)op->a[1] % 20); break;         /* around two payloads */
    case 6: len = 13 + (int)((uint64_t)op->a[1] % 1012); break;        /* up to 1024 */
    default: len = ((uint64_t)op->a[1] & 1) ? MAXSECSIZE : 1025 + (int)((uint64_t)op->a[1] % 3000); break;
    }
    if (len < min) len = min;
    if (len > MAXSECSIZE) len = MAXSECSIZE;
    uint8_t *s = sec[nsec];
    uint64_t seed = (uint64_t)op->a[3] * 2654435761u + (uint64_t)nsec * 97;
    uint8_t table_id = (uint8_t)(seed % 255);          /* never 0xff (stuffing) */
    s[0] = table_id;
    s[1] = (uint8_t)((syntax ? 0x80 : 0x00) | 0x30 | (((len - 3) >> 8) & 0xf));
    s[2] = (uint8_t)((len - 3) & 0xff);
    for (int i = 3; i < len; i++) {
        seed = seed * 6364136223846793005ULL + 1442695040888963407ULL;
        /* plenty of 0xff and header-like octets inside the body */
        uint8_t b = (uint8_t)(seed >> 33);
        s[i] = (b & 7) == 0 ? 0xff : b;
    }
    /* the section number is written in the body so that every section is
     * distinct: attributes each output to one original */
    if (len >= 5) {
        s[3] = (uint8_t)nsec;
        s[4] = (uint8_t)(nsec ^ 0x5a);
    }
    sec_len[nsec++] = len;
}

/* -------------------------------------------------------------- recording */
struct sinkrec { int len; int off; };
static struct rsink {
    struct upipe upipe;
    struct urefcount refcount;
    bool live;
    int nrec;
    struct sinkrec rec[MAXREC];
    unsigned flow_defs;
} rsinks[MAXSINK + 1];
static uint8_t recbuf[1 << 20];
static int recpos;
static bool rec_overflow;

static struct uprobe probe;
static struct urefcount probe_refcount;
static unsigned ev_ready, ev_dead, ev_fatal, ev_sync_acq, ev_sync_lost;

static void noop_free(struct urefcount *r) { (void)r; }

static int catch(struct uprobe *uprobe, struct upipe *upipe, int event, va_list args)
{
    if (event == UPROBE_LOG) {
        if (sim_verbose) {
            va_list copy;
            va_copy(copy, args);
            struct ulog *ulog = va_arg(copy, struct ulog *);
            char msg[200];
            ulog_msg_print(ulog, msg, sizeof(msg));
            if (ulog->level >= UPROBE_LOG_DEBUG)
                printf("        log: %s\n", msg);
            va_end(copy);
        }
        return UBASE_ERR_NONE;
    }
    for (int i = 0; i <= MAXSINK; i++)
        if (upipe == &rsinks[i].upipe)
            return UBASE_ERR_NONE;
    switch (event) {
    case UPROBE_READY: ev_ready++; break;
    case UPROBE_DEAD: ev_dead++; break;
    case UPROBE_SYNC_ACQUIRED: ev_sync_acq++; break;
    case UPROBE_SYNC_LOST: ev_sync_lost++; break;
    case UPROBE_FATAL:
        ev_fatal++;
        if (!sim_alloc_failed() && checking())
            sim_violation(V_FATAL_UNEXPECTED, "a fatal error is thrown although no fault was injected");
        break;
    default: break;
    }
    return UBASE_ERR_NONE;
}

static void rsink_input(struct upipe *upipe, struct uref *uref, struct upump **upump_p)
{
    struct rsink *s = container_of(upipe, struct rsink, upipe);
    size_t size = 0;
    uref_block_size(uref, &size);
    if (s->nrec >= MAXREC || recpos + (int)size > (int)sizeof(recbuf)) {
        rec_overflow = true;
        uref_free(uref);
        return;
    }
    s->rec[s->nrec].len = (int)size;
    s->rec[s->nrec].off = recpos;
    if (size)
        uref_block_extract(uref, 0, (int)size, recbuf + recpos);
    recpos += (int)size;
    s->nrec++;
    sim_ev("out", (uint64_t)(s - rsinks), size);
    uref_free(uref);
}

static int rsink_control(struct upipe *upipe, int command, va_list args)
{
    struct rsink *s = container_of(upipe, struct rsink, upipe);
    switch (command) {
    case UPIPE_SET_FLOW_DEF:
        s->flow_defs++;
        return UBASE_ERR_NONE;
    case UPIPE_REGISTER_REQUEST:
    case UPIPE_UNREGISTER_REQUEST:
        return UBASE_ERR_NONE;
    default:
        return UBASE_ERR_UNHANDLED;
    }
}

static struct upipe_mgr rsink_mgr = {
    .refcount = NULL, .signature = 0, .upipe_input = rsink_input, .upipe_control = rsink_control,
};

static struct upipe *rsink_open(int i)
{
    struct rsink *s = &rsinks[i];
    memset(s, 0, sizeof(*s));
    s->live = true;
    upipe_init(&s->upipe, &rsink_mgr, uprobe_use(&probe));
    urefcount_init(&s->refcount, noop_free);
    s->upipe.refcount = &s->refcount;
    return &s->upipe;
}

static void rsink_close(int i)
{
    if (!rsinks[i].live)
        return;
    rsinks[i].live = false;
    if (checking() && !urefcount_single(&rsinks[i].refcount))
        sim_violation(V_LEAK, "sink %d is still referenced after every pipe was released", i);
    upipe_clean(&rsinks[i].upipe);
}

/* ------------------------------------------------------------ environment */
static void env_setup(void)
{
    static const uint16_t depth[] = { 0, 0, 2, 8 };
    int pool = (int)((uint64_t)plan->cfg[CFG_POOL] % 4);
    sim_alloc_reset();
    static const char *const allow[] = { "uref_std_alloc_inner", "ubuf_block_mem_alloc_inner",
                                         "ubuf_mem_shared_alloc_inner", NULL };
    sim_alloc_set_allow_list(allow);
    umem = umem_sim_mgr_alloc(1 + (unsigned)((uint64_t)plan->cfg[CFG_UMEM_OFF] % 7));
    udict_mgr = udict_inline_mgr_alloc(depth[pool], umem, -1, -1);
    uref_mgr = uref_std_mgr_alloc(depth[pool], udict_mgr, 0);
    ubuf_mgr = ubuf_block_mem_mgr_alloc(depth[pool], depth[pool], umem, 0, 0, 0, 0);
    uprobe_init(&probe, catch, NULL);
    urefcount_init(&probe_refcount, noop_free);
    probe.refcount = &probe_refcount;
    ev_ready = ev_dead = ev_fatal = ev_sync_acq = ev_sync_lost = 0;
    recpos = 0;
    rec_overflow = false;
    nsec = 0;
    fault_fired = false;
    memset(rsinks, 0, sizeof(rsinks));
}

static void env_teardown(void)
{
    for (int i = 0; i <= MAXSINK; i++)
        rsink_close(i);
    uref_mgr_vacuum(uref_mgr);
    udict_mgr_vacuum(udict_mgr);
    ubuf_mgr_vacuum(ubuf_mgr);
    if (checking()) {
        if (!urefcount_single(&probe_refcount))
            sim_violation(V_LEAK, "the probe is still referenced after every pipe was released");
        else if (!urefcount_single(uref_mgr->refcount))
            sim_violation(V_LEAK, "a uref is still alive after every pipe was released");
        else if (!urefcount_single(ubuf_mgr->refcount))
            sim_violation(V_LEAK, "a buffer is still alive after every pipe was released");
        else if (umem_sim_live() != 0)
            sim_violation(V_LEAK, "%u memory area(s) left", umem_sim_live());
    }
    uref_mgr_release(uref_mgr);
    ubuf_mgr_release(ubuf_mgr);
    udict_mgr_release(udict_mgr);
    umem_mgr_release(umem);
    if (checking() && sim_alloc_live() != 0)
        sim_violation(V_LEAK, "%u allocation(s) left after releasing everything", sim_alloc_live());
}

static struct uref *make_buffer(const uint8_t *data, int len, uint64_t cutsel)
{
    /* possibly segmented: up to three segments */
    int nseg = len >= 2 ? 1 + (int)(cutsel % 3) : 1;
    if (nseg > len) nseg = len ? len : 1;
    struct uref *uref = NULL;
    int pos = 0;
    for (int s = 0; s < nseg; s++) {
        int seglen = s == nseg - 1 ? len - pos :
            1 + (int)((cutsel >> (4 * s + 2)) % (uint64_t)(len - pos - (nseg - 1 - s)));
        struct ubuf *ubuf = ubuf_block_alloc(ubuf_mgr, seglen);
        if (ubuf == NULL) { if (uref) uref_free(uref); return NULL; }
        if (seglen) {
            int sz = -1;
            uint8_t *w;
            if (!ubase_check(ubuf_block_write(ubuf, 0, &sz, &w))) {
                ubuf_free(ubuf);
                if (uref) uref_free(uref);
                return NULL;
            }
            memcpy(w, data + pos, (size_t)seglen);
            ubuf_block_unmap(ubuf, 0);
        }
        if (uref == NULL) {
            uref = uref_alloc(uref_mgr);
            if (uref == NULL) { ubuf_free(ubuf); return NULL; }
            uref_attach_ubuf(uref, ubuf);
        } else if (!ubase_check(uref_block_append(uref, ubuf))) {
            ubuf_free(ubuf);
            uref_free(uref);
            return NULL;
        }
        pos += seglen;
    }
    if (nseg > 1)
        SIM_PROBE("psi_segmented_buffer");
    return uref;
}

/* ------------------------------------------------------------------ merge */
struct payload {
    uint8_t data[184];
    int len;
    bool pusi;
    int damage;             /* 0 none, 1 lost, 2 discontinuity flag, 3 corrupt */
    uint64_t detail, segsel;
    int fault;
};
static struct payload pay[MAXPAY];
static int npay;
static int sec_start_pay[MAXSEC];   /* payload in which each section starts */

/** packetises the sections according to the OP_PAYLOAD operations */
static void packetise(void)
{
    npay = 0;
    int s = 0, off = 0;         /* next octet to send: section s, offset off */
    int opi = 0;
    while (s < nsec && npay < MAXPAY) {
        /* next payload decision */
        const struct sim_op *op = NULL;
        while (opi < plan->nops) {
            const struct sim_op *o = &plan->ops[opi++];
            if (o->code == OP_PAYLOAD) {
                op = o;
                break;
            }
        }
        int cap = op ? 1 + (int)((uint64_t)op->a[0] % 184) : 184;
        bool want_start = op ? ((uint64_t)op->a[1] & 1) != 0 : true;
        struct payload *p = &pay[npay];
        memset(p, 0, sizeof(*p));
        p->damage = op ? (int)((uint64_t)op->a[3] % 4) : 0;
        p->detail = op ? (uint64_t)op->a[4] : 0;
        p->segsel = op ? (uint64_t)op->a[2] : 0;
        p->fault = op ? (int)((uint64_t)op->a[5] % 6) : 0;
        int rem = off > 0 ? sec_len[s] - off : 0;   /* octets left of the section in progress */
        if (rem == 0) {
            /* between two sections: this payload has to start one */
            if (cap < 2)
                cap = 2;
            p->pusi = true;
            p->data[p->len++] = 0;              /* pointer_field */
        } else if (rem >= cap) {
            /* the section fills the payload */
            memcpy(p->data, sec[s] + off, (size_t)cap);
            p->len = cap;
            off += cap;
            if (off == sec_len[s]) {
                s++;
                off = 0;
            }
            npay++;
            continue;
        } else if (want_start && s + 1 < nsec && rem <= cap - 2) {
            /* the section ends here and another one starts behind it */
            p->pusi = true;
            p->data[p->len++] = (uint8_t)rem;
            memcpy(p->data + p->len, sec[s] + off, (size_t)rem);
            p->len += rem;
            s++;
            off = 0;
        } else {
            /* the section ends here, the rest is stuffing */
            memcpy(p->data, sec[s] + off, (size_t)rem);
            p->len = rem;
            s++;
            off = 0;
            memset(p->data + p->len, 0xff, (size_t)(cap - p->len));
            p->len = cap;
            npay++;
            continue;
        }
        /* sections that start in this payload */
        bool more = true;
        while (p->len < cap && s < nsec && more) {
            int n = sec_len[s] - off;
            if (n > cap - p->len)
                n = cap - p->len;
            if (off == 0)
                sec_start_pay[s] = npay;
            memcpy(p->data + p->len, sec[s] + off, (size_t)n);
            p->len += n;
            off += n;
            if (off == sec_len[s]) {
                s++;
                off = 0;
                /* another one behind it? decided by the payload's detail bits */
                more = ((p->detail >> (s & 15)) & 1) != 0 || !want_start;
                if (more && p->len < cap)
                    SIM_PROBE("psi_several_sections_in_one_payload");
            }
        }
        if (p->len < cap) {
            memset(p->data + p->len, 0xff, (size_t)(cap - p->len));
            p->len = cap;
            SIM_PROBE("psi_stuffing");
        }
        npay++;
    }
}

/* reference merger, from the syntax of ISO/IEC 13818-1 2.4.4 */
static uint8_t ref_out[MAXREC][MAXSECSIZE];
static int ref_len[MAXREC];
static int ref_n;
static bool ref_overflow;
static struct { bool synced; uint8_t buf[MAXSECSIZE + 256]; int n; } refm;

static void ref_feed(const uint8_t *d, int len, bool pusi, bool disc)
{
    if (disc) {
        refm.n = 0;
        refm.synced = false;
    }
    if (pusi) {
        int ptr = d[0];
        if (refm.synced) {
            d += 1;
            len -= 1;
        } else {
            if (1 + ptr > len)
                return;
            d += 1 + ptr;
            len -= 1 + ptr;
            refm.synced = true;
        }
    } else if (refm.n == 0) {
        refm.synced = false;
        return;
    }
    while (len > 0) {
        if (refm.n == 0 && d[0] == 0xff)
            return;                     /* stuffing up to the end of the payload */
        /* take what the section in progress still needs */
        int need;
        if (refm.n < 3)
            need = 3 - refm.n;
        else
            need = 3 + (((refm.buf[1] & 0xf) << 8) | refm.buf[2]) - refm.n;
        if (need > len)
            need = len;
        memcpy(refm.buf + refm.n, d, (size_t)need);
        refm.n += need;
        d += need;
        len -= need;
        if (refm.n < 3)
            return;
        int slen = ((refm.buf[1] & 0xf) << 8) | refm.buf[2];
        bool syntax = (refm.buf[1] & 0x80) != 0;
        if ((syntax && slen < 9) || slen > 4093) {
            refm.n = 0;
            refm.synced = false;
            return;
        }
        if (refm.n < 3 + slen)
            continue;
        if (ref_n < MAXREC) {
            memcpy(ref_out[ref_n], refm.buf, (size_t)refm.n);
            ref_len[ref_n++] = refm.n;
        } else
            ref_overflow = true;
        refm.n = 0;
    }
}

static void run_merge(void)
{
    for (int i = 0; i < plan->nops; i++)
        if (plan->ops[i].code == OP_SECTION)
            build_section(&plan->ops[i]);
    if (nsec == 0)
        return;
    packetise();

    struct upipe_mgr *mgr = upipe_ts_psim_mgr_alloc();
    struct upipe *psim = upipe_void_alloc(mgr, uprobe_use(&probe));
    upipe_mgr_release(mgr);
    if (psim == NULL) {
        sim_violation(V_CONTROL, "psi_merge allocation failed");
        return;
    }
    struct uref *fd = uref_block_flow_alloc_def(uref_mgr, "mpegtspsi.");
    int err = fd ? upipe_set_flow_def(psim, fd) : UBASE_ERR_ALLOC;
    uref_free(fd);
    if (!ubase_check(err))
        sim_violation(V_CONTROL, "psi_merge refuses block.mpegtspsi. (%d)", err);
    upipe_set_output(psim, rsink_open(0));

    memset(&refm, 0, sizeof(refm));
    ref_n = 0;
    ref_overflow = false;
    bool damaged = false, corrupted = false, pending_disc = false;
    int release_at = plan->cfg[CFG_RELEASE_AT] > 0 ? (int)((uint64_t)plan->cfg[CFG_RELEASE_AT] % (uint64_t)(npay + 1)) : npay;
    int fed = 0;
    for (int i = 0; i < npay && i < release_at && checking(); i++) {
        struct payload *p = &pay[i];
        if (p->damage == 1 && i > 0) {
            /* lost on the way: the continuity check flags the next one */
            pending_disc = true;
            damaged = true;
            SIM_PROBE("fault_payload_lost");
            sim_ev("lost", (uint64_t)i, 0);
            continue;
        }
        bool disc = pending_disc;
        pending_disc = false;
        if (p->damage == 2) {
            disc = true;
            damaged = true;
            SIM_PROBE("fault_discontinuity_flag");
        }
        uint8_t data[184];
        memcpy(data, p->data, (size_t)p->len);
        if (p->damage == 3) {
            int k = 1 + (int)(p->detail % 3);
            for (int j = 0; j < k; j++)
                data[(p->detail >> (8 * j + 4)) % (uint64_t)p->len] ^= (uint8_t)(1u << ((p->detail >> j) & 7));
            corrupted = true;
            SIM_PROBE("fault_payload_corrupt");
        }
        ref_feed(data, p->len, p->pusi, disc);
        struct uref *uref = make_buffer(data, p->len, p->segsel);
        if (uref == NULL)
            break;
        if (p->pusi)
            uref_block_set_start(uref);
        if (disc)
            uref_flow_set_discontinuity(uref);
        sim_ev("payload", (uint64_t)p->len, (uint64_t)p->pusi | (uint64_t)disc << 1 | (uint64_t)p->damage << 2);
        if (p->fault && ((uint64_t)plan->cfg[CFG_FAULTS] & 1))
            sim_alloc_arm(p->fault);
        upipe_input(psim, uref, NULL);
        if (sim_alloc_disarm() == 0 && p->fault && ((uint64_t)plan->cfg[CFG_FAULTS] & 1)) {
            fault_fired = true;
            SIM_PROBE("fault_alloc_in_input");
        }
        fed++;
    }
    if (release_at < npay)
        SIM_PROBE("psi_released_in_mid_stream");
    upipe_release(psim);

    if (checking() && (ev_ready != 1 || ev_dead != 1))
        sim_violation(V_LIFECYCLE, "psi_merge threw ready %u times and dead %u times", ev_ready, ev_dead);
    if (!checking() || fault_fired)
        return;
    struct rsink *s = &rsinks[0];
    if (rec_overflow || ref_overflow)
        return;
    /* every output is a well-formed section whatever came in */
    for (int k = 0; k < s->nrec; k++) {
        const uint8_t *o = recbuf + s->rec[k].off;
        int l = s->rec[k].len;
        if (l < 3 || l > MAXSECSIZE || l != 3 + (((o[1] & 0xf) << 8) | o[2])) {
            sim_violation(V_SECTION_BOGUS, "output %d has %d octets, its header announces %d", k, l,
                          l >= 3 ? 3 + (((o[1] & 0xf) << 8) | o[2]) : -1);
            return;
        }
    }
    if (corrupted) {
        SIM_PROBE("psi_run_with_silent_corruption");
        /* no exact expectation under silent corruption, except that the
         * merger picks up again at the next unit start: with one corrupted
         * payload and nothing else, every section that starts in or after
         * the first unit-start payload behind it comes out, in order */
        int ncorrupt = 0, last = -1;
        for (int i = 0; i < npay; i++)
            if (pay[i].damage == 3) {
                ncorrupt++;
                last = i;
            }
        if (ncorrupt != 1 || damaged || release_at < npay)
            return;
        int r = -1;
        for (int i = last + 1; i < npay && r < 0; i++)
            if (pay[i].pusi)
                r = i;
        if (r < 0)
            return;
        SIM_PROBE("psi_resync_after_silent_corruption_checked");
        int k = 0;
        for (int n = 0; n < nsec; n++) {
            if (sec_start_pay[n] < r)
                continue;
            while (k < s->nrec && !(s->rec[k].len == sec_len[n] &&
                                    !memcmp(recbuf + s->rec[k].off, sec[n], (size_t)sec_len[n])))
                k++;
            if (k >= s->nrec) {
                sim_violation(V_NO_RESYNC, "payload %d was corrupted (no flag); section %d starts in payload %d, at or after "
                              "the next unit start (payload %d), and never came out (%d outputs)", last, n,
                              sec_start_pay[n], r, s->nrec);
                return;
            }
            k++;
        }
        return;
    }
    if (!damaged && release_at >= npay) {
        /* the reference itself must give back the original sections */
        bool same = ref_n == nsec;
        for (int k = 0; k < nsec && same; k++)
            same = ref_len[k] == sec_len[k] && !memcmp(ref_out[k], sec[k], (size_t)sec_len[k]);
        if (!same) {
            sim_violation(V_CONTROL, "harness: the reference merger does not return the generated sections (%d of %d)",
                          ref_n, nsec);
            return;
        }
    }
    for (int k = 0; k < ref_n || k < s->nrec; k++) {
        if (k >= s->nrec) {
            sim_violation(damaged ? V_NO_RESYNC : V_SECTION_LOST,
                          "section %d of %d the transport delivered (%d octets) never came out; %d payloads fed%s",
                          k, ref_n, ref_len[k], fed, damaged ? ", after damage" : "");
            return;
        }
        if (k >= ref_n) {
            sim_violation(V_SECTION_BOGUS, "output %d (%d octets) is not a section the transport delivered (%d expected)",
                          k, s->rec[k].len, ref_n);
            return;
        }
        if (s->rec[k].len != ref_len[k] || memcmp(recbuf + s->rec[k].off, ref_out[k], (size_t)ref_len[k])) {
            sim_violation(V_SECTION_BOGUS, "output %d differs from the section delivered (%d octets out, %d expected, "
                          "section number octet %d vs %d)", k, s->rec[k].len, ref_len[k],
                          s->rec[k].len > 3 ? recbuf[s->rec[k].off + 3] : -1, ref_len[k] > 3 ? ref_out[k][3] : -1);
            return;
        }
    }
}

/* ------------------------------------------------------------------ split */
static struct {
    struct upipe *sub;
    bool live;
    uint8_t filter[8], mask[8];
    int size;
    int expect[MAXREC];
    int nexpect;
} subs[MAXSINK];

static void run_split(void)
{
    for (int i = 0; i < plan->nops; i++)
        if (plan->ops[i].code == OP_SECTION)
            build_section(&plan->ops[i]);
    memset(subs, 0, sizeof(subs));
    struct upipe_mgr *mgr = upipe_ts_psi_split_mgr_alloc();
    struct upipe *split = upipe_void_alloc(mgr, uprobe_use(&probe));
    upipe_mgr_release(mgr);
    if (split == NULL) {
        sim_violation(V_CONTROL, "psi_split allocation failed");
        return;
    }
    struct uref *fd = uref_block_flow_alloc_def(uref_mgr, "mpegtspsi.");
    int err = fd ? upipe_set_flow_def(split, fd) : UBASE_ERR_ALLOC;
    uref_free(fd);
    if (!ubase_check(err))
        sim_violation(V_CONTROL, "psi_split refuses block.mpegtspsi. (%d)", err);
    unsigned allocated = 1, released = 0;

    for (int i = 0; i < plan->nops && checking(); i++) {
        const struct sim_op *op = &plan->ops[i];
        if (op->code == OP_SUB_ADD) {
            int k;
            for (k = 0; k < MAXSINK; k++)
                if (!subs[k].live && subs[k].sub == NULL)
                    break;
            if (k == MAXSINK)
                continue;
            subs[k].size = 1 + (int)((uint64_t)op->a[2] % 8);
            uint64_t f = (uint64_t)op->a[0] * 0x9e3779b97f4a7c15ULL, m = (uint64_t)op->a[1] * 0xc2b2ae3d27d4eb4fULL;
            for (int j = 0; j < 8; j++) {
                /* masks that select few bits, so that matches are frequent */
                uint8_t mk = (uint8_t)(m >> (8 * j));
                mk &= (uint8_t)(m >> (8 * ((j + 3) % 8)));
                if (j == 0 && ((uint64_t)op->a[1] & 3) == 0)
                    mk = 0xff;          /* whole table id */
                subs[k].mask[j] = mk;
                subs[k].filter[j] = (uint8_t)(f >> (8 * j)) & mk;
            }
            /* sometimes the filter of a section we are going to send */
            if (nsec && ((uint64_t)op->a[0] & 1))
                for (int j = 0; j < subs[k].size; j++)
                    subs[k].filter[j] = sec[(uint64_t)op->a[0] / 2 % (uint64_t)nsec][j] & subs[k].mask[j];
            struct uref *sfd = uref_block_flow_alloc_def(uref_mgr, "mpegtspsi.");
            if (sfd == NULL)
                continue;
            uref_ts_flow_set_psi_filter(sfd, subs[k].filter, subs[k].mask, (size_t)subs[k].size);
            subs[k].sub = upipe_flow_alloc_sub(split, uprobe_use(&probe), sfd);
            uref_free(sfd);
            if (subs[k].sub == NULL) {
                sim_violation(V_CONTROL, "psi_split output allocation failed");
                break;
            }
            allocated++;
            subs[k].live = true;
            subs[k].nexpect = 0;
            upipe_set_output(subs[k].sub, rsink_open(k));
            sim_ev("sub_add", (uint64_t)k, (uint64_t)subs[k].size);
        } else if (op->code == OP_SUB_DEL) {
            int k = (int)((uint64_t)op->a[0] % MAXSINK);
            if (!subs[k].live)
                continue;
            subs[k].live = false;
            upipe_release(subs[k].sub);
            released++;
            sim_ev("sub_del", (uint64_t)k, 0);
            SIM_PROBE("psi_output_removed_between_sections");
        } else if (op->code == OP_SEND && nsec) {
            int n = (int)((uint64_t)op->a[0] % (uint64_t)nsec);
            struct uref *uref = make_buffer(sec[n], sec_len[n], (uint64_t)op->a[1]);
            if (uref == NULL)
                continue;
            for (int k = 0; k < MAXSINK; k++) {
                if (!subs[k].live)
                    continue;
                bool match = sec_len[n] >= subs[k].size;
                for (int j = 0; j < subs[k].size && match; j++)
                    match = (sec[n][j] & subs[k].mask[j]) == subs[k].filter[j];
                if (match && subs[k].nexpect < MAXREC) {
                    subs[k].expect[subs[k].nexpect++] = n;
                    SIM_PROBE("psi_filter_matched");
                }
            }
            sim_ev("send", (uint64_t)n, (uint64_t)sec_len[n]);
            int fault = (int)((uint64_t)op->a[5] % 6);
            if (fault && ((uint64_t)plan->cfg[CFG_FAULTS] & 1))
                sim_alloc_arm(fault);
            upipe_input(split, uref, NULL);
            if (sim_alloc_disarm() == 0 && fault && ((uint64_t)plan->cfg[CFG_FAULTS] & 1)) {
                fault_fired = true;
                SIM_PROBE("fault_alloc_in_input");
            }
        }
    }
    /* teardown in one of two orders */
    if ((uint64_t)plan->cfg[CFG_RELEASE_AT] & 1) {
        upipe_release(split);
        split = NULL;
        released++;
    }
    for (int k = 0; k < MAXSINK; k++)
        if (subs[k].live) {
            subs[k].live = false;
            upipe_release(subs[k].sub);
            released++;
        }
    if (split != NULL) {
        upipe_release(split);
        released++;
    }
    if (checking() && (ev_ready != allocated || ev_dead != allocated))
        sim_violation(V_LIFECYCLE, "%u pipes allocated, %u ready and %u dead events", allocated, ev_ready, ev_dead);
    if (!checking() || fault_fired || rec_overflow)
        return;
    for (int k = 0; k < MAXSINK; k++) {
        if (subs[k].sub == NULL)
            continue;
        struct rsink *s = &rsinks[k];
        for (int j = 0; j < subs[k].nexpect || j < s->nrec; j++) {
            if (j >= s->nrec) {
                sim_violation(V_ROUTING, "output %d (filter size %d) matches section %d but did not receive it "
                              "(%d received, %d expected)", k, subs[k].size, subs[k].expect[j], s->nrec, subs[k].nexpect);
                return;
            }
            if (j >= subs[k].nexpect) {
                sim_violation(V_ROUTING, "output %d received a section (%d octets, table id %#x) its filter does not match",
                              k, s->rec[j].len, s->rec[j].len ? recbuf[s->rec[j].off] : 0);
                return;
            }
            int n = subs[k].expect[j];
            if (s->rec[j].len != sec_len[n] || memcmp(recbuf + s->rec[j].off, sec[n], (size_t)sec_len[n])) {
                sim_violation(V_ROUTING, "output %d received something else than section %d (%d octets, %d expected)",
                              k, n, s->rec[j].len, sec_len[n]);
                return;
            }
        }
    }
}

/* ------------------------------------------------------------------- join */
static void run_join(void)
{
    for (int i = 0; i < plan->nops; i++)
        if (plan->ops[i].code == OP_SECTION)
            build_section(&plan->ops[i]);
    struct upipe_mgr *mgr = upipe_ts_psi_join_mgr_alloc();
    struct uref *fd = uref_block_flow_alloc_def(uref_mgr, "mpegtspsi.");
    struct upipe *join = fd ? upipe_flow_alloc(mgr, uprobe_use(&probe), fd) : NULL;
    uref_free(fd);
    upipe_mgr_release(mgr);
    if (join == NULL) {
        sim_violation(V_CONTROL, "psi_join allocation failed");
        return;
    }
    upipe_set_output(join, rsink_open(0));
    struct upipe *in[MAXSINK] = { NULL };
    int expect[MAXREC], nexpect = 0;
    unsigned allocated = 1;
    for (int i = 0; i < plan->nops && checking(); i++) {
        const struct sim_op *op = &plan->ops[i];
        if (op->code == OP_SUB_ADD) {
            int k;
            for (k = 0; k < MAXSINK; k++)
                if (in[k] == NULL)
                    break;
            if (k == MAXSINK)
                continue;
            in[k] = upipe_void_alloc_sub(join, uprobe_use(&probe));
            if (in[k] == NULL) {
                sim_violation(V_CONTROL, "psi_join input allocation failed");
                break;
            }
            allocated++;
            struct uref *sfd = uref_block_flow_alloc_def(uref_mgr, "mpegtspsi.");
            if (sfd != NULL) {
                if ((uint64_t)op->a[0] & 1)
                    uref_block_flow_set_octetrate(sfd, 1000 + (uint64_t)op->a[0] % 5000);
                if ((uint64_t)op->a[0] & 2)
                    uref_ts_flow_set_psi_section_interval(sfd, 27000 + (uint64_t)op->a[1] % 100000);
                if ((uint64_t)op->a[0] & 4)
                    uref_clock_set_latency(sfd, 1 + (uint64_t)op->a[1] % 10000);
                int fault = (int)((uint64_t)op->a[5] % 6);
                if (fault && ((uint64_t)plan->cfg[CFG_FAULTS] & 1))
                    sim_alloc_arm(fault);
                int e = upipe_set_flow_def(in[k], sfd);
                if (sim_alloc_disarm() == 0 && fault && ((uint64_t)plan->cfg[CFG_FAULTS] & 1)) {
                    fault_fired = true;
                    SIM_PROBE("fault_alloc_in_set_flow_def");
                } else if (!ubase_check(e))
                    sim_violation(V_CONTROL, "psi_join input refuses block.mpegtspsi. (%d)", e);
                uref_free(sfd);
            }
            sim_ev("in_add", (uint64_t)k, 0);
        } else if (op->code == OP_SUB_DEL) {
            int k = (int)((uint64_t)op->a[0] % MAXSINK);
            if (in[k] == NULL)
                continue;
            upipe_release(in[k]);
            in[k] = NULL;
            SIM_PROBE("psi_input_removed_between_sections");
        } else if (op->code == OP_SEND && nsec) {
            int k = (int)((uint64_t)op->a[2] % MAXSINK);
            if (in[k] == NULL)
                continue;
            int n = (int)((uint64_t)op->a[0] % (uint64_t)nsec);
            struct uref *uref = make_buffer(sec[n], sec_len[n], (uint64_t)op->a[1]);
            if (uref == NULL)
                continue;
            if (nexpect < MAXREC)
                expect[nexpect++] = n;
            sim_ev("send", (uint64_t)n, (uint64_t)k);
            upipe_input(in[k], uref, NULL);
        }
    }
    if ((uint64_t)plan->cfg[CFG_RELEASE_AT] & 1) {
        upipe_release(join);
        join = NULL;
    }
    for (int k = 0; k < MAXSINK; k++)
        if (in[k] != NULL)
            upipe_release(in[k]);
    if (join != NULL)
        upipe_release(join);
    if (checking() && (ev_ready != allocated || ev_dead != allocated))
        sim_violation(V_LIFECYCLE, "%u pipes allocated, %u ready and %u dead events", allocated, ev_ready, ev_dead);
    if (!checking() || fault_fired || rec_overflow)
        return;
    struct rsink *s = &rsinks[0];
    for (int j = 0; j < nexpect || j < s->nrec; j++) {
        if (j >= s->nrec) {
            sim_violation(V_JOIN, "section %d sent into an input was not forwarded (%d of %d came out)",
                          expect[j], s->nrec, nexpect);
            return;
        }
        if (j >= nexpect) {
            sim_violation(V_JOIN, "the joiner emitted %d sections, %d were sent", s->nrec, nexpect);
            return;
        }
        int n = expect[j];
        if (s->rec[j].len != sec_len[n] || memcmp(recbuf + s->rec[j].off, sec[n], (size_t)sec_len[n])) {
            sim_violation(V_JOIN, "output %d is not section %d as it was sent", j, n);
            return;
        }
    }
}

/* ----------------------------------------------------------------- engine */
static void gen(const char *pr, struct sim_rng *r, struct sim_plan *p)
{
    p->cfg[CFG_PROP] = atoi(pr + 1);
    uint32_t t = sim_rng_below(r, 10);
    int kind = t < 6 ? K_MERGE : t < 9 ? K_SPLIT : K_JOIN;
    p->cfg[CFG_KIND] = kind;
    p->cfg[CFG_POOL] = sim_rng_below(r, 4);
    p->cfg[CFG_UMEM_OFF] = sim_rng_below(r, 7);
    p->cfg[CFG_FAULTS] = sim_rng_chance(r, 1, 4);
    int ns = 1 + (int)sim_rng_below(r, kind == K_MERGE ? 8 : 6);
    for (int i = 0; i < ns; i++)
        sim_plan_add(p, 0, OP_SECTION, sim_rng_below(r, kind == K_MERGE ? 8 : 5), sim_rng_below(r, 4000),
                     sim_rng_below(r, 2), sim_rng_below(r, 1000000), 0, 0);
    if (kind == K_MERGE) {
        p->cfg[CFG_RELEASE_AT] = sim_rng_chance(r, 1, 5) ? 1 + sim_rng_below(r, 40) : 0;
        int style = (int)sim_rng_below(r, 4);      /* 0: full packets, 1: small, 2: mixed, 3: tiny */
        int damage_style = (int)sim_rng_below(r, 4); /* 0: none, 1: loss/disc, 2: corrupt too, 3: none */
        int np = 4 + (int)sim_rng_below(r, 60);
        for (int i = 0; i < np; i++) {
            uint32_t cap = style == 0 ? 183 : style == 1 ? sim_rng_below(r, 40) : style == 3 ? sim_rng_below(r, 6) :
                           sim_rng_chance(r, 1, 2) ? 183 : sim_rng_below(r, 184);
            uint32_t dmg = 0;
            if (damage_style == 1 && sim_rng_chance(r, 1, 12))
                dmg = 1 + sim_rng_below(r, 2);
            else if (damage_style == 2 && sim_rng_chance(r, 1, 12))
                dmg = 1 + sim_rng_below(r, 3);
            sim_plan_add(p, 0, OP_PAYLOAD, cap, sim_rng_below(r, 4) != 0, sim_rng_below(r, 1 << 16), dmg,
                         (int64_t)(sim_rng_next(r) >> 8), p->cfg[CFG_FAULTS] && sim_rng_chance(r, 1, 6) ? 1 + sim_rng_below(r, 5) : 0);
        }
    } else {
        p->cfg[CFG_RELEASE_AT] = sim_rng_below(r, 2);
        int n = 4 + (int)sim_rng_below(r, 30);
        sim_plan_add(p, 0, OP_SUB_ADD, sim_rng_below(r, 1000), sim_rng_below(r, 1000), sim_rng_below(r, 8), 0, 0, 0);
        for (int i = 0; i < n; i++) {
            uint32_t c = sim_rng_below(r, 10);
            if (c < 2)
                sim_plan_add(p, 0, OP_SUB_ADD, sim_rng_below(r, 1000), sim_rng_below(r, 1000), sim_rng_below(r, 8), 0, 0,
                             p->cfg[CFG_FAULTS] && sim_rng_chance(r, 1, 3) ? 1 + sim_rng_below(r, 5) : 0);
            else if (c < 3)
                sim_plan_add(p, 0, OP_SUB_DEL, sim_rng_below(r, MAXSINK), 0, 0, 0, 0, 0);
            else
                sim_plan_add(p, 0, OP_SEND, sim_rng_below(r, MAXSEC), sim_rng_below(r, 1 << 16), sim_rng_below(r, MAXSINK), 0, 0,
                             p->cfg[CFG_FAULTS] && sim_rng_chance(r, 1, 5) ? 1 + sim_rng_below(r, 5) : 0);
        }
    }
}

static void run(const char *pr, const struct sim_plan *pl)
{
    plan = pl;
    env_setup();
    switch ((uint64_t)plan->cfg[CFG_KIND] % K__N) {
    case K_MERGE: run_merge(); break;
    case K_SPLIT: run_split(); break;
    default: run_join(); break;
    }
    env_teardown();
    sim_mark_nontrivial();
    sim_sig_add(1, sim_mix((uint64_t)plan->cfg[CFG_KIND], sim_mix((uint64_t)nsec, sim_mix((uint64_t)npay,
                sim_mix(ev_sync_lost, (uint64_t)rsinks[0].nrec)))));
}

static const char *const props[] = { "C16", NULL };
const struct sim_engine sim_engine = {
    .name = "ets", .props = props, .gen = gen, .run = run,
    .class_name = class_name, .op_name = op_name,
};

int main(int argc, char **argv) { return sim_main(argc, argv); }
