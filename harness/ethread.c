/*
 * E-thread: queue and worker pipes across simulated threads (C06; the
 * cross-thread parts of C12 and C01).
 *
 * Everything between the application and the mock remote pipes is the real
 * code: upipe_worker.c, upipe_transfer.c, upipe_queue_sink.c,
 * upipe_queue_source.c, upipe_pthread_transfer.c, uprobe_pthread_upump_mgr.c,
 * umutex_pthread.c, uprobe_transfer.c, uqueue.h, ueventfd.h. Threads are
 * simcore fibers (pthread_* wrapped at link time), every event loop is a
 * upump_sim loop, the scheduler decides every interleaving at the yield
 * points of DESIGN.md 2.1.
 *
 * The application runs like a real Upipe application: everything it does
 * happens inside callbacks of its own event loop (a "driver" idler pump runs
 * the plan one operation per dispatch, and is the source pump handed to
 * upipe_input so that a full queue can block it).
 */
#include "../sim/sim.h"
#include "../sim/alloc.h"
#include "../sim/upump_sim.h"
#include "../sim/pthread_sim.h"

#include <upipe/ubase.h>
#include <upipe/ulist.h>
#include <upipe/umem.h>
#include <upipe/udict.h>
#include <upipe/udict_inline.h>
#include <upipe/uref.h>
#include <upipe/uref_std.h>
#include <upipe/uref_attr.h>
#include <upipe/uref_flow.h>
#include <upipe/uref_block.h>
#include <upipe/uref_block_flow.h>
#include <upipe/ubuf.h>
#include <upipe/ubuf_block_mem.h>
#include <upipe/uprobe.h>
#include <upipe/uprobe_transfer.h>
#include <upipe/upipe.h>
#include <upipe/urequest.h>
#include <upipe/upump.h>
#include <upipe/upump_blocker.h>
#include <upipe/umutex.h>
#include <upipe/upipe_helper_upipe.h>
#include <upipe/upipe_helper_urefcount.h>
#include <upipe/upipe_helper_output.h>
#include <upipe/upipe_helper_upump_mgr.h>
#include <upipe/upipe_helper_upump.h>
#include <upipe-modules/upipe_idem.h>
#include <upipe-modules/upipe_queue_sink.h>
#include <upipe-modules/upipe_queue_source.h>
#include <upipe-modules/upipe_transfer.h>
#include <upipe-modules/upipe_worker.h>
#include <upipe-modules/upipe_worker_linear.h>
#include <upipe-modules/upipe_worker_sink.h>
#include <upipe-modules/upipe_worker_source.h>
#include <upipe-pthread/upipe_pthread_transfer.h>
#include <upipe-pthread/uprobe_pthread_upump_mgr.h>
#include <upipe-pthread/umutex_pthread.h>

#include <stdlib.h>
#include <string.h>
#include <inttypes.h>
#include <assert.h>

/* ------------------------------------------------------------ vocabulary */
enum {
    V_REORDER = 1,          /* buffers arrived out of order */
    V_DUPLICATE,            /* a buffer arrived twice */
    V_LOSS,                 /* an accepted buffer never arrived */
    V_CONTENT,              /* payload changed on the way */
    V_FLOW_DEF,             /* buffer not preceded by its flow definition */
    V_SOURCE_END,           /* end of source before the last buffer / missing */
    V_CONFINE,              /* transferred pipe entered from the wrong thread */
    V_EVENT_THREAD,         /* event delivered in the wrong thread */
    V_DEADLOCK,             /* everybody asleep with work left */
    V_LEAK,                 /* something left allocated / a pipe never died */
    V_REFCOUNT,             /* manager / probe not back to one reference */
    V_LIFECYCLE,            /* dead twice, use after dead */
    V_REQ_ROUTING,          /* request not lodged where it must be */
    V_REQ_ANSWER,           /* answer lost / wrong value / wrong thread */
    V_REQ_AFTER_UNREGISTER, /* callback after unregister */
    V_CONTROL,              /* a control command failed that must succeed */
    V_EVENT_LOST,           /* a forwarded event that was accepted never arrived / arrived twice */
};

static const char *class_name(int cls)
{
    switch (cls) {
    case V_REORDER: return "reorder";
    case V_DUPLICATE: return "duplicate";
    case V_LOSS: return "loss";
    case V_CONTENT: return "content";
    case V_FLOW_DEF: return "flow_def";
    case V_SOURCE_END: return "source_end";
    case V_CONFINE: return "thread_confinement";
    case V_EVENT_THREAD: return "event_thread";
    case V_DEADLOCK: return "deadlock";
    case V_LEAK: return "leak";
    case V_REFCOUNT: return "refcount";
    case V_LIFECYCLE: return "lifecycle";
    case V_REQ_ROUTING: return "req_routing";
    case V_REQ_ANSWER: return "req_answer";
    case V_REQ_AFTER_UNREGISTER: return "req_after_unregister";
    case V_CONTROL: return "control";
    case V_EVENT_LOST: return "event_lost";
    default: return NULL;
    }
}

enum {
    OP_INPUT = 1,       /* a0 = burst length - 1, a1 = payload size, a2 = keep a dup */
    OP_FLOW_DEF,        /* new flow definition (next generation) */
    OP_WAIT,            /* a0 = ticks: the driver sleeps */
    OP_SET_OUTPUT,      /* a0 = which application sink */
    OP_CTRL,            /* custom command on the handle (automatic freeze) */
    OP_FREEZE_CTRL,     /* freeze, get inner, command, thaw; a0 = which inner */
    OP_ATTACH,          /* upipe_attach_upump_mgr on the handle */
    OP_RELEASE,         /* let go of the handle */
    OP_FLUSH,           /* plain queue: flush the sink */
    OP_MAX_LENGTH,      /* plain queue: a0 = max length of the sink */
    OP_REQ_REGISTER,    /* a0 = slot, a1 = type */
    OP_REQ_UNREGISTER,  /* a0 = slot */
    OP_REQ_PROVIDE,     /* a0 = lodged index, a1 = value */
    OP_FREE_DUPS,       /* frees the duplicates kept by OP_INPUT */
    OP__N
};

static const char *op_name(int code)
{
    static const char *const n[] = { "?", "input", "flow_def", "wait", "set_output", "ctrl", "freeze_ctrl",
        "attach", "release", "flush", "max_length", "req_register", "req_unregister", "req_provide", "free_dups" };
    return code > 0 && code < OP__N ? n[code] : "?";
}

enum { CFG_PROP = 0, CFG_TOPO, CFG_INQ, CFG_OUTQ, CFG_XFERQ, CFG_MUTEX, CFG_CHAIN, CFG_SLOW,
       CFG_ATTACH, CFG_UREF_POOL, CFG_UDICT_POOL, CFG_UBUF_POOL, CFG_PUMP_POOL, CFG_MSG_POOL,
       CFG_SRC_COUNT, CFG_SRC_FDCHANGE, CFG_FWD_EVERY, CFG_EINTR, CFG_SPURIOUS, CFG_PATIENT,
       CFG_PROVIDER, CFG_NPROD, CFG_NOLOOP, CFG_ALLOCFAULT };
enum { TOPO_WSINK = 0, TOPO_WLIN, TOPO_WSRC, TOPO_QUEUE, TOPO__N };

/* --------------------------------------------------------------- globals */
#define MAXSENT 512
#define APP 0                    /* task id of the application thread */

static int prop;
static const struct sim_plan *plan;
static int topo;
static struct umem_mgr *umem;
static struct udict_mgr *udict_mgr;
static struct uref_mgr *uref_mgr;
static struct ubuf_mgr *ubuf_mgr;
static struct upump_mgr *main_mgr;
static struct umutex *mutex;
static pthread_mutex_t *mutex_raw;
static int worker_task;          /* task id of the worker thread, -1 before it exists */
static bool app_frozen;          /* the application froze the worker loop explicitly */
static bool transferred;         /* the worker pipe exists: remote pipes belong to the worker */
static struct upipe *handle;     /* worker pipe / queue sink */
static struct upump *driver;
static struct upump *driver_timer;
static int next_op;
static bool finishing;

/* what was sent, what must arrive */
static struct sent {
    uint64_t seq;
    uint32_t gen;               /* flow definition in force when it was sent */
    uint16_t size;
    bool may_lose;
    bool arrived;
} sent[MAXSENT];
static int nsent;
static uint64_t next_seq;
static uint32_t cur_gen;         /* generation of the flow definition last set by the sender, 0 = none */

/* what arrived at the consumer side */
static struct consumer {
    uint64_t last_seq;
    bool any;
    uint32_t gen;               /* flow definition currently negotiated, 0 = none */
    unsigned inputs, flow_defs;
    bool source_end;
} cons;

static struct uref *dups[16];
static int ndups;

static const uint16_t pool_depth[] = { 0, 0, 1, 2, 8 };

/* a transfer manager with a short command / event queue that overflowed: the
 * library says so (error code, fatal event) and what was in the message is
 * lost - a release, a command, the death notice of a remote pipe. That is the
 * application's configuration against its own load, nothing is judged after
 * that point (DESIGN.md 7.4) */
static bool short_xferq, xfer_overflow;
static bool construction_fault;        /* an allocation failed while the worker pipe was built */
static bool checking(void) { return !sim_violation_class() && !xfer_overflow; }
#define control_failed(...) do { \
        if (short_xferq) { xfer_overflow = true; SIM_PROBE("thr_short_xfer_queue_overflow"); } \
        else sim_violation(V_CONTROL, __VA_ARGS__); \
    } while (0)

/* ----------------------------------------------------------------- probes */
enum { TAG_APP = 1, TAG_REMOTE };
struct tagprobe {
    struct uprobe uprobe;
    struct urefcount refcount;
    int tag;
    unsigned ready, dead, events;
};
static struct tagprobe probe_root, probe_app, probe_remote;
static struct uprobe *logger;            /* uprobe_pthread_upump_mgr on top of probe_root */
static unsigned fwd_thrown, fwd_accepted, fwd_arrived;
static uint64_t fwd_last;
#define EV_FWD (UPROBE_LOCAL + 0x42)
#define EV_VOID (UPROBE_LOCAL + 0x43)      /* registered for transfer without argument */
static unsigned void_thrown, void_accepted, void_arrived;
#define EV_FWD_SIG UBASE_FOURCC('e','t','h','r')

static bool on_worker_side_ok(void)
{
    int me = sim_self();
    if (me == worker_task && worker_task >= 0) {
        if (mutex_raw != NULL && sim_mutex_owner(mutex_raw) != worker_task) {
            /* the worker loop dispatches with its mutex held */
            return false;
        }
        return true;
    }
    if (me == APP && mutex_raw != NULL && sim_mutex_owner(mutex_raw) == APP)
        return true;            /* frozen by the application */
    return false;
}

static int tag_catch(struct uprobe *uprobe, struct upipe *upipe, int event, va_list args)
{
    struct tagprobe *p = container_of(uprobe, struct tagprobe, uprobe);
    if (event == UPROBE_LOG || upipe == NULL)
        return uprobe_throw_next(uprobe, upipe, event, args);
    p->events++;
    int me = sim_self();
    if (p->tag == TAG_APP) {
        if (me != APP && checking())
            sim_violation(V_EVENT_THREAD, "event %d of an application-side pipe delivered on thread %d "
                          "(application is thread %d)", event, me, APP);
        if (event == EV_FWD) {
            va_list copy;
            va_copy(copy, args);
            uint64_t v = va_arg(copy, uint64_t);
            va_end(copy);
            fwd_arrived++;
            sim_ev("fwd_arrived", v, 0);
            if (v <= fwd_last && checking())
                sim_violation(V_EVENT_LOST, "forwarded event %" PRIu64 " arrived after %" PRIu64, v, fwd_last);
            fwd_last = v;
            return UBASE_ERR_NONE;
        }
        if (event == EV_VOID) {
            void_arrived++;
            sim_ev("void_arrived", void_arrived, 0);
            return UBASE_ERR_NONE;
        }
    } else if (p->tag == TAG_REMOTE) {
        /* this probe sits behind uprobe_xfer: an event registered for
         * transfer is the application's, in the application's thread - never
         * seen here, whether it could be queued or not */
        if ((event == EV_FWD || event == EV_VOID || event == UPROBE_SOURCE_END) && checking())
            sim_violation(V_EVENT_THREAD, "event %d, registered for transfer to the application, reached the probes behind "
                          "uprobe_xfer on thread %d (application is thread %d)", event, me, APP);
        if (transferred && event != UPROBE_READY && !on_worker_side_ok() && checking())
            sim_violation(V_EVENT_THREAD, "event %d of a transferred pipe thrown on thread %d "
                          "(worker is thread %d, loop %s)", event, me, worker_task,
                          mutex_raw ? "not frozen by this thread" : "cannot be frozen");
    }
    if (event == UPROBE_READY)
        p->ready++;
    else if (event == UPROBE_DEAD)
        p->dead++;
    return uprobe_throw_next(uprobe, upipe, event, args);
}

static int root_catch(struct uprobe *uprobe, struct upipe *upipe, int event, va_list args)
{
    if (sim_verbose && event == UPROBE_LOG) {
        struct ulog *ulog = va_arg(args, struct ulog *);
        char buf[256];
        va_list copy;
        va_copy(copy, *ulog->args);
        vsnprintf(buf, sizeof(buf), ulog->format, copy);
        va_end(copy);
        printf("      log[t%d %p sig %c%c%c%c] %s\n", sim_self(), (void *)upipe,
               upipe ? (char)(upipe->mgr->signature) : '-', upipe ? (char)(upipe->mgr->signature >> 8) : '-',
               upipe ? (char)(upipe->mgr->signature >> 16) : '-', upipe ? (char)(upipe->mgr->signature >> 24) : '-',
               buf);
    } else if (sim_verbose && event != UPROBE_LOG)
        printf("      event[t%d %p] %d\n", sim_self(), (void *)upipe, event);
    if (event == UPROBE_FATAL && short_xferq && !xfer_overflow) {
        xfer_overflow = true;
        SIM_PROBE("thr_short_xfer_queue_overflow");
    }
    return UBASE_ERR_UNHANDLED;
}

static void tagprobe_noop(struct urefcount *r) { }
static void tagprobe_init(struct tagprobe *p, int tag, uprobe_throw_func f, struct uprobe *next)
{
    memset(p, 0, sizeof(*p));
    p->tag = tag;
    uprobe_init(&p->uprobe, f, next);
    urefcount_init(&p->refcount, tagprobe_noop);
    p->uprobe.refcount = &p->refcount;
}

static void queue_topology_run(void);
static void gen_queue(struct sim_rng *r, struct sim_plan *p, int which);
static void queue_arrival_order(uint64_t seq);

/* ------------------------------------------------------ buffers and checks */
static struct uref *make_uref(uint64_t seq, unsigned size)
{
    if (size < 8)
        size = 8;
    struct uref *uref = uref_block_alloc(uref_mgr, ubuf_mgr, (int)size);
    if (uref == NULL)
        return NULL;
    uint8_t *w;
    int s = -1;
    if (!ubase_check(uref_block_write(uref, 0, &s, &w))) {
        uref_free(uref);
        return NULL;
    }
    for (int i = 0; i < s; i++)
        w[i] = i < 8 ? (uint8_t)(seq >> (8 * i)) : (uint8_t)(seq * 131 + (uint64_t)i);
    uref_block_unmap(uref, 0);
    return uref;
}

static bool read_uref(struct uref *uref, uint64_t *seq_p, size_t *size_p)
{
    size_t size = 0;
    if (uref->ubuf == NULL || !ubase_check(uref_block_size(uref, &size)) || size < 8 || size > 4096)
        return false;
    uint8_t buf[4096];
    if (!ubase_check(uref_block_extract(uref, 0, (int)size, buf)))
        return false;
    uint64_t seq = 0;
    for (int i = 0; i < 8; i++)
        seq |= (uint64_t)buf[i] << (8 * i);
    for (size_t i = 8; i < size; i++)
        if (buf[i] != (uint8_t)(seq * 131 + i))
            return false;
    *seq_p = seq;
    *size_p = size;
    return true;
}

static struct uref *make_flow_def(uint32_t gen)
{
    struct uref *fd = uref_block_flow_alloc_def(uref_mgr, "sim.");
    if (fd != NULL)
        uref_flow_set_id(fd, gen);
    return fd;
}

static uint32_t flow_def_gen(struct uref *fd)
{
    uint64_t id = 0;
    const char *def;
    if (fd == NULL || !ubase_check(uref_flow_get_def(fd, &def)) || !ubase_check(uref_flow_get_id(fd, &id)))
        return 0;
    return (uint32_t)id;
}

/** a buffer reached the consumer side */
static void consumer_got(struct uref *uref, const char *where)
{
    uint64_t seq = 0;
    size_t size = 0;
    cons.inputs++;
    if (!read_uref(uref, &seq, &size)) {
        if (checking())
            sim_violation(V_CONTENT, "%s received a buffer whose payload is damaged", where);
        return;
    }
    sim_ev("arrive", seq, cons.gen);
    if (!checking())
        return;
    if (cons.source_end) {
        sim_violation(V_SOURCE_END, "%s received buffer %" PRIu64 " after the end of source", where, seq);
        return;
    }
    int idx = -1;
    for (int i = 0; i < nsent; i++)
        if (sent[i].seq == seq) {
            idx = i;
            break;
        }
    if (idx < 0) {
        sim_violation(V_CONTENT, "%s received buffer %" PRIu64 " which was never sent", where, seq);
        return;
    }
    if (sent[idx].arrived) {
        sim_violation(V_DUPLICATE, "%s received buffer %" PRIu64 " twice", where, seq);
        return;
    }
    sent[idx].arrived = true;
    if (sent[idx].size != size) {
        sim_violation(V_CONTENT, "buffer %" PRIu64 " arrived with %zu octets, %u sent", seq, size, sent[idx].size);
        return;
    }
    if (topo == TOPO_QUEUE)
        queue_arrival_order(seq);
    else if (cons.any && seq <= cons.last_seq) {
        sim_violation(V_REORDER, "%s received buffer %" PRIu64 " after buffer %" PRIu64, where, seq, cons.last_seq);
        return;
    }
    cons.any = true;
    cons.last_seq = seq;
    if (!checking())
        return;
    if (cons.gen == 0)
        sim_violation(V_FLOW_DEF, "buffer %" PRIu64 " arrived at %s before any flow definition was negotiated there",
                      seq, where);
    else if (cons.gen != sent[idx].gen)
        sim_violation(V_FLOW_DEF, "buffer %" PRIu64 " was sent under flow definition %u and arrived at %s under %u",
                      seq, sent[idx].gen, where, cons.gen);
}

static void consumer_flow_def(struct uref *fd, const char *where)
{
    cons.gen = flow_def_gen(fd);
    cons.flow_defs++;
    sim_ev("arrive_flow_def", cons.gen, 0);
    if (cons.gen == 0 && checking())
        sim_violation(V_FLOW_DEF, "%s was given a flow definition that is not one of ours", where);
}

/* ------------------------------------------------------------ mock pipes */
#define RMOCK_SIGNATURE UBASE_FOURCC('r','m','o','k')
enum { RMOCK_SET_OPTION = UPIPE_CONTROL_LOCAL + 1, RMOCK_ANSWER_ALL };
enum { ROLE_LINEAR = 0, ROLE_SINK, ROLE_SOURCE };

struct rmock {
    struct urefcount urefcount;
    struct upipe *output;
    struct uref *flow_def;
    enum upipe_helper_output_state output_state;
    struct uchain request_list;
    struct upump_mgr *upump_mgr;
    struct upump *upump;        /* source: emitter; sink: release timer */
    int role;
    bool dead;
    unsigned inputs, controls, options;
    /* source */
    unsigned emitted, to_emit, fd_change_at;
    uint32_t gen;
    bool ended;
    /* slow sink */
    struct uref *held;
    struct upump_blocker *blocker;
    /* sink: requests lodged here (on the worker thread) */
    struct urequest *lodged[16];
    int nlodged;
    struct upipe upipe;
};
UPIPE_HELPER_UPIPE(rmock, upipe, RMOCK_SIGNATURE)
UPIPE_HELPER_UREFCOUNT(rmock, urefcount, rmock_free)
UPIPE_HELPER_OUTPUT(rmock, output, flow_def, output_state, request_list)
UPIPE_HELPER_UPUMP_MGR(rmock, upump_mgr)
UPIPE_HELPER_UPUMP(rmock, upump, upump_mgr)

#define MAX_RMOCK 4
static uint64_t fresh_value(void);
static void rmock_answer_all(struct rmock *r);
static struct rmock *rmocks[MAX_RMOCK];
static int nrmocks;
static unsigned rmock_dead;
static unsigned slow_ticks;

static void rmock_enter(struct upipe *upipe, const char *what)
{
    struct rmock *r = rmock_from_upipe(upipe);
    if (r->dead && checking())
        sim_violation(V_LIFECYCLE, "remote pipe entered (%s) after it died", what);
    if (!transferred)
        return;
    if (!on_worker_side_ok() && checking())
        sim_violation(V_CONFINE, "%s of a transferred pipe runs on thread %d (worker is thread %d, "
                      "mutex %s)", what, sim_self(), worker_task,
                      mutex_raw == NULL ? "none" : sim_mutex_owner(mutex_raw) == -2 ? "free" :
                      sim_mutex_owner(mutex_raw) == APP ? "held by the application" : "held by the worker");
    if (sim_self() == APP)
        SIM_PROBE("thr_remote_entered_while_frozen");
}

static void rmock_slow_release(struct upump *upump)
{
    struct upipe *upipe = upump_get_opaque(upump, struct upipe *);
    struct rmock *r = rmock_from_upipe(upipe);
    rmock_enter(upipe, "timer");
    rmock_set_upump(upipe, NULL);
    if (r->blocker != NULL) {
        upump_blocker_free(r->blocker);
        r->blocker = NULL;
    }
    if (r->held != NULL) {
        struct uref *uref = r->held;
        r->held = NULL;
        consumer_got(uref, "the remote sink");
        uref_free(uref);
    }
}

static void rmock_blocker_cb(struct upump_blocker *blocker)
{
    /* the blocked pump dies: forget the blocker */
    struct upipe *upipe = upump_blocker_get_opaque(blocker, struct upipe *);
    struct rmock *r = rmock_from_upipe(upipe);
    upump_blocker_free(blocker);
    r->blocker = NULL;
}

static void rmock_input(struct upipe *upipe, struct uref *uref, struct upump **upump_p)
{
    struct rmock *r = rmock_from_upipe(upipe);
    rmock_enter(upipe, "input");
    r->inputs++;
    unsigned every = (unsigned)((uint64_t)plan->cfg[CFG_FWD_EVERY] % 6);
    if (every && r->inputs % every == 0 && r == rmocks[0]) {
        fwd_thrown++;
        /* (uprobe_xfer's UNSIGNED_LONG_LOCAL flavour mangles its argument:
         * uprobe_transfer.c reads the signature from the live va_list and then
         * skips one more word; the 64-bit flavour is used instead) */
        int err = upipe_throw(upipe, EV_FWD, (uint64_t)fwd_thrown);
        if (ubase_check(err))
            fwd_accepted++;
        else
            SIM_PROBE("thr_fwd_event_refused_queue_full");
        sim_ev("fwd_thrown", fwd_thrown, (uint64_t)err);
        /* and a few of the argument-less kind (they fill a short queue) */
        for (unsigned k = 0; k < r->inputs % 4; k++) {
            void_thrown++;
            if (ubase_check(upipe_throw(upipe, EV_VOID)))
                void_accepted++;
            else
                SIM_PROBE("thr_fwd_event_refused_queue_full");
        }
    }
    if (r->role == ROLE_LINEAR) {
        rmock_output(upipe, uref, upump_p);
        return;
    }
    /* sink */
    if ((uint64_t)plan->cfg[CFG_PROVIDER] & 2)
        rmock_answer_all(r);
    if (r->held != NULL) {
        /* only one buffer is held: deliver the previous one first */
        struct uref *prev = r->held;
        r->held = NULL;
        consumer_got(prev, "the remote sink");
        uref_free(prev);
    }
    if (slow_ticks && upump_p != NULL && *upump_p != NULL && r->upump == NULL && r->blocker == NULL &&
        r->upump_mgr != NULL && sim_coin(1, 2)) {
        /* slow consumer: hold the buffer, block the pump that brought it and
         * let both go from a timer */
        struct upump *t = upump_alloc_timer(r->upump_mgr, rmock_slow_release, upipe, upipe->refcount,
                                            slow_ticks, 0);
        if (t != NULL) {
            SIM_PROBE("thr_slow_sink_blocks_queue_pump");
            r->held = uref;
            r->blocker = upump_blocker_alloc(*upump_p, rmock_blocker_cb, upipe);
            rmock_set_upump(upipe, t);
            upump_start(t);
            return;
        }
    }
    consumer_got(uref, "the remote sink");
    uref_free(uref);
}

static void rmock_emit(struct upump *upump)
{
    struct upipe *upipe = upump_get_opaque(upump, struct upipe *);
    struct rmock *r = rmock_from_upipe(upipe);
    rmock_enter(upipe, "source pump");
    if (r->output == NULL && r->emitted < r->to_emit) {
        /* upipe_work_alloc sends "attach" before "set_output": a source that
         * starts at once would feed nobody. What C06 speaks about starts at
         * the queue sink, so this source waits until it is plumbed. */
        SIM_PROBE("thr_source_waits_for_output");
        return;
    }
    if (r->emitted >= r->to_emit) {
        if (!r->ended) {
            r->ended = true;
            upump_stop(upump);
            upipe_throw_source_end(upipe);
        }
        return;
    }
    if (r->gen == 0 || (r->fd_change_at && r->emitted == r->fd_change_at)) {
        r->gen = ++cur_gen;
        struct uref *fd = make_flow_def(r->gen);
        if (fd == NULL)
            return;
        rmock_store_flow_def(upipe, fd);
    }
    if (nsent >= MAXSENT)
        return;
    unsigned size = 8 + (unsigned)(next_seq * 7 % 40);
    struct uref *uref = make_uref(next_seq + 1, size);
    if (uref == NULL)
        return;
    next_seq++;
    sent[nsent++] = (struct sent){ .seq = next_seq, .gen = r->gen, .size = (uint16_t)size };
    r->emitted++;
    sim_ev("emit", next_seq, r->gen);
    rmock_output(upipe, uref, &r->upump);
}

static int rmock_control(struct upipe *upipe, int command, va_list args)
{
    struct rmock *r = rmock_from_upipe(upipe);
    rmock_enter(upipe, "control");
    r->controls++;
    switch (command) {
    case UPIPE_ATTACH_UPUMP_MGR: {
        rmock_set_upump(upipe, NULL);
        UBASE_RETURN(rmock_attach_upump_mgr(upipe))
        if (r->role == ROLE_SOURCE && r->upump_mgr != NULL && !r->ended) {
            struct upump *p = upump_alloc_idler(r->upump_mgr, rmock_emit, upipe, upipe->refcount);
            if (p == NULL)
                return UBASE_ERR_UPUMP;
            rmock_set_upump(upipe, p);
            upump_start(p);
        }
        return UBASE_ERR_NONE;
    }
    case UPIPE_REGISTER_REQUEST: {
        struct urequest *request = va_arg(args, struct urequest *);
        if (r->role == ROLE_SINK) {
            if (r->nlodged < 16)
                r->lodged[r->nlodged++] = request;
            if (((uint64_t)plan->cfg[CFG_PROVIDER] & 1) && request->type == UREQUEST_SINK_LATENCY) {
                /* answers from inside the registration, on the worker thread */
                SIM_PROBE("thr_req_answered_by_remote_sink");
                urequest_provide_sink_latency(request, fresh_value());
            }
            return UBASE_ERR_NONE;
        }
        return rmock_alloc_output_proxy(upipe, request);
    }
    case UPIPE_UNREGISTER_REQUEST: {
        struct urequest *request = va_arg(args, struct urequest *);
        if (r->role == ROLE_SINK) {
            for (int i = 0; i < r->nlodged; i++)
                if (r->lodged[i] == request) {
                    memmove(&r->lodged[i], &r->lodged[i + 1], (size_t)(r->nlodged - i - 1) * sizeof(request));
                    r->nlodged--;
                    return UBASE_ERR_NONE;
                }
            if (checking())
                sim_violation(V_REQ_ROUTING, "the remote sink is asked to unregister a request it does not hold");
            return UBASE_ERR_INVALID;
        }
        return rmock_free_output_proxy(upipe, request);
    }
    case UPIPE_SET_FLOW_DEF: {
        struct uref *fd = va_arg(args, struct uref *);
        if (r->role == ROLE_SOURCE)
            return UBASE_ERR_UNHANDLED;
        if (r->role == ROLE_SINK) {
            if (r->held != NULL) {
                struct uref *prev = r->held;
                r->held = NULL;
                consumer_got(prev, "the remote sink");
                uref_free(prev);
            }
            consumer_flow_def(fd, "the remote sink");
            return UBASE_ERR_NONE;
        }
        struct uref *dup = uref_dup(fd);
        UBASE_ALLOC_RETURN(dup)
        rmock_store_flow_def(upipe, dup);
        return UBASE_ERR_NONE;
    }
    case UPIPE_GET_FLOW_DEF:
    case UPIPE_GET_OUTPUT:
    case UPIPE_SET_OUTPUT:
        if (r->role == ROLE_SINK)
            return UBASE_ERR_UNHANDLED;
        return rmock_control_output(upipe, command, args);
    case RMOCK_SET_OPTION: {
        UBASE_SIGNATURE_CHECK(args, RMOCK_SIGNATURE)
        r->options++;
        return UBASE_ERR_NONE;
    }
    case RMOCK_ANSWER_ALL: {
        UBASE_SIGNATURE_CHECK(args, RMOCK_SIGNATURE)
        if (r->role != ROLE_SINK)
            return UBASE_ERR_UNHANDLED;
        rmock_answer_all(r);
        return UBASE_ERR_NONE;
    }
    default:
        return UBASE_ERR_UNHANDLED;
    }
}

static void rmock_free(struct upipe *upipe)
{
    struct rmock *r = rmock_from_upipe(upipe);
    rmock_enter(upipe, "destructor");
    upipe_throw_dead(upipe);
    r->dead = true;
    rmock_dead++;
    if (r->held != NULL) {
        consumer_got(r->held, "the remote sink");
        uref_free(r->held);
        r->held = NULL;
    }
    if (r->blocker != NULL)
        upump_blocker_free(r->blocker);
    if (r->nlodged != 0 && checking())
        sim_violation(V_REQ_ROUTING, "the remote sink dies with %d request(s) still lodged", r->nlodged);
    rmock_clean_upump(upipe);
    rmock_clean_upump_mgr(upipe);
    rmock_clean_output(upipe);
    rmock_clean_urefcount(upipe);
    upipe_clean(upipe);
    for (int i = 0; i < nrmocks; i++)
        if (rmocks[i] == r)
            rmocks[i] = NULL;
    free(r);
}

static struct upipe_mgr rmock_mgr = {
    .refcount = NULL, .signature = RMOCK_SIGNATURE,
    .upipe_input = rmock_input, .upipe_control = rmock_control,
};

static struct upipe *rmock_new(int role, struct uprobe *uprobe)
{
    struct rmock *r = calloc(1, sizeof(*r));
    struct upipe *upipe = rmock_to_upipe(r);
    upipe_init(upipe, &rmock_mgr, uprobe);
    rmock_init_urefcount(upipe);
    rmock_init_output(upipe);
    rmock_init_upump_mgr(upipe);
    rmock_init_upump(upipe);
    r->role = role;
    rmocks[nrmocks++] = r;
    upipe_throw_ready(upipe);
    return upipe;
}

/* application-side sink: records, lodges requests */
#define MAX_ASINK 2
#define MAX_LODGED 16
struct asink {
    struct urefcount urefcount;
    bool created, live, dead;
    struct urequest *lodged[MAX_LODGED];
    int nlodged;
    struct upipe upipe;
};
static struct asink asinks[MAX_ASINK];
static struct upipe_mgr asink_mgr;

static void asink_check_thread(const char *what)
{
    if (sim_self() != APP && checking())
        sim_violation(V_CONFINE, "%s of an application-side sink runs on thread %d", what, sim_self());
}

static void asink_input(struct upipe *upipe, struct uref *uref, struct upump **upump_p)
{
    asink_check_thread("input");
    consumer_got(uref, "the application sink");
    uref_free(uref);
}

static void req_lodged_changed(void);
static int asink_control(struct upipe *upipe, int command, va_list args)
{
    struct asink *s = container_of(upipe, struct asink, upipe);
    asink_check_thread("control");
    switch (command) {
    case UPIPE_SET_FLOW_DEF:
        consumer_flow_def(va_arg(args, struct uref *), "the application sink");
        return UBASE_ERR_NONE;
    case UPIPE_REGISTER_REQUEST: {
        struct urequest *rq = va_arg(args, struct urequest *);
        if (s->nlodged < MAX_LODGED)
            s->lodged[s->nlodged++] = rq;
        req_lodged_changed();
        return UBASE_ERR_NONE;
    }
    case UPIPE_UNREGISTER_REQUEST: {
        struct urequest *rq = va_arg(args, struct urequest *);
        for (int i = 0; i < s->nlodged; i++)
            if (s->lodged[i] == rq) {
                memmove(&s->lodged[i], &s->lodged[i + 1], (size_t)(s->nlodged - i - 1) * sizeof(rq));
                s->nlodged--;
                req_lodged_changed();
                return UBASE_ERR_NONE;
            }
        if (checking())
            sim_violation(V_REQ_ROUTING, "an application sink is asked to unregister a request it does not hold");
        return UBASE_ERR_INVALID;
    }
    default:
        return UBASE_ERR_UNHANDLED;
    }
}

static void asink_free(struct urefcount *rc)
{
    struct asink *s = container_of(rc, struct asink, urefcount);
    asink_check_thread("destructor");
    if (s->dead && checking())
        sim_violation(V_LIFECYCLE, "application sink destroyed twice");
    s->dead = true;
    if (s->nlodged != 0 && checking())
        sim_violation(V_REQ_ROUTING, "application sink destroyed with %d request(s) still lodged", s->nlodged);
    upipe_clean(&s->upipe);
}

static struct upipe_mgr asink_mgr = {
    .refcount = NULL, .signature = UBASE_FOURCC('a','s','n','k'),
    .upipe_input = asink_input, .upipe_control = asink_control,
};

static struct upipe *asink_new(int i)
{
    struct asink *s = &asinks[i];
    memset(s, 0, sizeof(*s));
    s->live = s->created = true;
    upipe_init(&s->upipe, &asink_mgr, uprobe_use(&probe_app.uprobe));
    urefcount_init(&s->urefcount, asink_free);
    s->upipe.refcount = &s->urefcount;
    return &s->upipe;
}

/* ------------------------------------------------- requests across threads */
#define MAX_REQ 3
static struct areq {
    struct urequest urequest;
    bool registered;            /* by the application, on the handle */
    bool ever;
    uint64_t answers, last_value;
    bool have_value;
} areqs[MAX_REQ];
static uint64_t provided_values[64];
static int nprovided;
static int settle_phase;
static uint64_t settle_first_value;

static void req_lodged_changed(void) { }

static uint64_t fresh_value(void)
{
    uint64_t v = 1000 + (uint64_t)nprovided * 7;
    if (nprovided < 64)
        provided_values[nprovided++] = v;
    else
        v = provided_values[63];
    return v;
}

static void rmock_answer_all(struct rmock *r)
{
    for (int i = 0; i < r->nlodged; i++)
        if (r->lodged[i]->type == UREQUEST_SINK_LATENCY) {
            uint64_t v = fresh_value();
            sim_ev("req_provide_remote", v, 0);
            urequest_provide_sink_latency(r->lodged[i], v);
        }
}

static int areq_provide(struct urequest *urequest, va_list args)
{
    struct areq *a = container_of(urequest, struct areq, urequest);
    uint64_t v = va_arg(args, uint64_t);
    sim_ev("req_answer", (uint64_t)(a - areqs), v);
    if (!checking())
        return UBASE_ERR_NONE;
    if (sim_self() != APP)
        sim_violation(V_REQ_ANSWER, "answer to request %d delivered on thread %d, the requester lives on thread %d",
                      (int)(a - areqs), sim_self(), APP);
    else if (!a->registered)
        sim_violation(V_REQ_AFTER_UNREGISTER, "request %d answered (value %" PRIu64 ") after it was unregistered",
                      (int)(a - areqs), v);
    else {
        bool known = false;
        for (int i = 0; i < nprovided; i++)
            known = known || provided_values[i] == v;
        if (!known)
            sim_violation(V_REQ_ANSWER, "request %d answered with %" PRIu64 " which no provider gave", (int)(a - areqs), v);
    }
    a->answers++;
    a->last_value = v;
    a->have_value = true;
    return UBASE_ERR_NONE;
}

/* ------------------------------------------------------------ environment */
static void env_setup(void)
{
    sim_alloc_reset();
    sim_pthread_reset();
    umem = umem_sim_mgr_alloc(3);
    udict_mgr = udict_inline_mgr_alloc(pool_depth[(uint64_t)plan->cfg[CFG_UDICT_POOL] % 5], umem, -1, -1);
    uref_mgr = uref_std_mgr_alloc(pool_depth[(uint64_t)plan->cfg[CFG_UREF_POOL] % 5], udict_mgr, 0);
    ubuf_mgr = ubuf_block_mem_mgr_alloc(pool_depth[(uint64_t)plan->cfg[CFG_UBUF_POOL] % 5],
                                        pool_depth[(uint64_t)plan->cfg[CFG_UBUF_POOL] % 5], umem, 8, 0, 0, 0);
    main_mgr = upump_sim_mgr_alloc(pool_depth[(uint64_t)plan->cfg[CFG_PUMP_POOL] % 5],
                                   pool_depth[(uint64_t)plan->cfg[CFG_PUMP_POOL] % 5]);
    upump_sim_mgr_set_faults(main_mgr, (uint32_t)((uint64_t)plan->cfg[CFG_SPURIOUS] % 256), 0);
    upump_sim_mgr_set_spurious_shared_only(main_mgr, true);
    sim_fd_set_eintr((uint32_t)((uint64_t)plan->cfg[CFG_EINTR] % 256));
    tagprobe_init(&probe_root, 0, root_catch, NULL);
    logger = uprobe_pthread_upump_mgr_alloc(uprobe_use(&probe_root.uprobe));
    uprobe_pthread_upump_mgr_set(logger, main_mgr);
    tagprobe_init(&probe_app, TAG_APP, tag_catch, uprobe_use(logger));
    tagprobe_init(&probe_remote, TAG_REMOTE, tag_catch, uprobe_use(logger));
    mutex = NULL;
    mutex_raw = NULL;
}

static struct upump_mgr *worker_mgr_alloc(uint16_t a, uint16_t b)
{
    /* runs on the new thread: this is where the worker learns who it is */
    worker_task = sim_self();
    struct upump_mgr *m = upump_sim_mgr_alloc(a, b);
    if (m != NULL)
        upump_sim_mgr_set_faults(m, (uint32_t)((uint64_t)plan->cfg[CFG_SPURIOUS] % 256), 0);
        upump_sim_mgr_set_spurious_shared_only(m, true);
    return m;
}

static struct uprobe *remote_probe_chain(void)
{
    /* remote pipes: events chosen for transfer go back to the application */
    struct uprobe *x = uprobe_xfer_alloc(uprobe_use(&probe_remote.uprobe));
    uprobe_xfer_add(x, UPROBE_XFER_VOID, UPROBE_SOURCE_END, 0);
    uprobe_xfer_add(x, UPROBE_XFER_UINT64_T, EV_FWD, 0);
    uprobe_xfer_add(x, UPROBE_XFER_VOID, EV_VOID, 0);
    return x;
}

static bool src_end_seen;
static int handle_catch(struct uprobe *uprobe, struct upipe *upipe, int event, va_list args)
{
    /* probe of the worker pipe itself: sees what the xfer pipes forward */
    if (event != UPROBE_LOG && upipe != NULL && sim_self() != APP && checking())
        sim_violation(V_EVENT_THREAD, "event %d of the worker pipe delivered on thread %d (application is thread %d)",
                      event, sim_self(), APP);
    if (event == UPROBE_SOURCE_END) {
        src_end_seen = true;
        sim_ev("handle_source_end", 0, 0);
        SIM_PROBE("thr_source_end_forwarded");
        return UBASE_ERR_NONE;
    }
    return uprobe_throw_next(uprobe, upipe, event, args);
}
static struct tagprobe probe_handle;

static void build_worker(void)
{
    unsigned inq = 1 + (unsigned)((uint64_t)plan->cfg[CFG_INQ] % 4);
    unsigned outq = 1 + (unsigned)((uint64_t)plan->cfg[CFG_OUTQ] % 4);
    if ((uint64_t)plan->cfg[CFG_INQ] % 16 == 15)
        inq = 255 + 3;          /* longer than a uqueue: spills into max_length */
    /* length of the command queue of the transfer manager and of the event
     * queue of every handle: mostly the largest there is, sometimes short */
    static const unsigned xferqs[] = { 255, 255, 255, 255, 255, 255, 16, 8, 5 };
    unsigned xferq = xferqs[(uint64_t)plan->cfg[CFG_XFERQ] % 9];
    short_xferq = xferq != 255;
    xfer_overflow = false;
    construction_fault = false;
    if ((uint64_t)plan->cfg[CFG_MUTEX] & 1) {
        mutex = umutex_pthread_alloc(NULL);
        /* layout of struct umutex_pthread (lib/upipe-pthread/umutex_pthread.c) */
        struct umutex_pthread_layout { struct urefcount r; pthread_mutex_t m; struct umutex u; };
        mutex_raw = (pthread_mutex_t *)((char *)mutex - offsetof(struct umutex_pthread_layout, u)
                                        + offsetof(struct umutex_pthread_layout, m));
    }
    struct upipe_mgr *xfer_mgr = upipe_pthread_xfer_mgr_alloc(
            (uint8_t)xferq, pool_depth[(uint64_t)plan->cfg[CFG_MSG_POOL] % 5], uprobe_use(logger),
            worker_mgr_alloc, pool_depth[(uint64_t)plan->cfg[CFG_PUMP_POOL] % 5],
            pool_depth[(uint64_t)plan->cfg[CFG_PUMP_POOL] % 5], mutex, NULL, NULL);
    if (xfer_mgr == NULL) {
        control_failed( "upipe_pthread_xfer_mgr_alloc failed");
        return;
    }
    struct upipe_mgr *work_mgr = upipe_work_mgr_alloc(xfer_mgr);
    upipe_mgr_release(xfer_mgr);

    /* the remote pipeline, built by the application before the transfer */
    int role = topo == TOPO_WSINK ? ROLE_SINK : topo == TOPO_WSRC ? ROLE_SOURCE : ROLE_LINEAR;
    struct upipe *remote = rmock_new(role, remote_probe_chain());
    if (role == ROLE_SOURCE) {
        struct rmock *r = rmock_from_upipe(remote);
        r->to_emit = (unsigned)((uint64_t)plan->cfg[CFG_SRC_COUNT] % 24);
        r->fd_change_at = (unsigned)((uint64_t)plan->cfg[CFG_SRC_FDCHANGE] % 24);
    }
    unsigned chain = (unsigned)((uint64_t)plan->cfg[CFG_CHAIN] % 3);
    if (role != ROLE_SINK && chain >= 1) {
        struct upipe_mgr *idem_mgr = upipe_idem_mgr_alloc();
        struct upipe *idem = upipe_void_alloc_output(remote, idem_mgr, remote_probe_chain());
        upipe_mgr_release(idem_mgr);
        if (chain == 2 && idem != NULL) {
            struct upipe *lin2 = rmock_new(ROLE_LINEAR, remote_probe_chain());
            upipe_set_output(idem, lin2);
            upipe_release(lin2);
        }
        upipe_release(idem);
    }

    tagprobe_init(&probe_handle, 0, handle_catch, uprobe_use(&probe_app.uprobe));
    /* one of the structures the worker pipe is made of cannot be allocated */
    static const char *const allow[] = { "_upipe_work_alloc", "_upipe_xfer_alloc", "_upipe_qsink_alloc", "_upipe_qsrc_alloc", NULL };
    sim_alloc_set_allow_list(allow);
    int fault = (int)((uint64_t)plan->cfg[CFG_ALLOCFAULT] % 8);
    int attach_mode = (int)((uint64_t)plan->cfg[CFG_ATTACH] % 3);
    /* (with the event loop frozen during the construction the application is
     * meant to attach it through the handle afterwards; a refused construction
     * leaves no handle to do that with: the transfer pipes already made never
     * hear that their remote pipe died. Not judged: no failure in that mode) */
    if (attach_mode)
        fault = 0;
    if (fault) {
        sim_alloc_fault_points(false);      /* (buffer memory of the other thread is not what fails here) */
        sim_alloc_arm(fault);
    }
    if (attach_mode)
        uprobe_throw(logger, NULL, UPROBE_FREEZE_UPUMP_MGR);
    switch (topo) {
    case TOPO_WSINK:
        handle = upipe_wsink_alloc(work_mgr, uprobe_use(&probe_handle.uprobe), remote,
                                   uprobe_use(&probe_remote.uprobe), inq);
        break;
    case TOPO_WSRC:
        handle = upipe_wsrc_alloc(work_mgr, uprobe_use(&probe_handle.uprobe), remote,
                                  uprobe_use(&probe_remote.uprobe), outq);
        break;
    default:
        handle = upipe_wlin_alloc(work_mgr, uprobe_use(&probe_handle.uprobe), remote,
                                  uprobe_use(&probe_remote.uprobe), inq, outq);
        break;
    }
    transferred = true;
    if (sim_alloc_disarm() == 0 && fault) {
        construction_fault = true;
        SIM_PROBE("fault_alloc_in_worker_construction");
    }
    upipe_mgr_release(work_mgr);
    if (attach_mode)
        uprobe_throw(logger, NULL, UPROBE_THAW_UPUMP_MGR);
    if (handle == NULL) {
        if (construction_fault) {
            /* refused: everything given to the allocator (the remote pipe, the
             * probes) has to be let go by it, the thread has to end */
            SIM_PROBE("thr_worker_construction_refused");
            return;
        }
        control_failed( "worker pipe allocation failed");
        return;
    }
    if (attach_mode == 1)
        upipe_attach_upump_mgr(handle);
    if (topo != TOPO_WSINK) {
        struct upipe *s0 = asink_new(0);
        asink_new(1);
        if (!ubase_check(upipe_set_output(handle, s0)))
            control_failed( "set_output on the worker pipe failed");
    }
}

/* ------------------------------------------------------------ operations */
static bool attached_late;
static void ensure_attached(void)
{
    if ((int)((uint64_t)plan->cfg[CFG_ATTACH] % 3) == 2 && !attached_late && handle != NULL) {
        attached_late = true;
        upipe_attach_upump_mgr(handle);
    }
}

static void do_release(void)
{
    if (handle == NULL)
        return;
    ensure_attached();
    struct upipe *h = handle;
    handle = NULL;
    /* the application lets go of its requests first, as a pipe would */
    for (int i = 0; i < MAX_REQ; i++)
        if (areqs[i].registered) {
            areqs[i].registered = false;
            upipe_unregister_request(h, &areqs[i].urequest);
            urequest_clean(&areqs[i].urequest);
        }
    sim_ev("release_handle", 0, 0);
    upipe_release(h);
}

static void do_op(const struct sim_op *op)
{
    sim_ev(op_name(op->code), (uint64_t)op->a[0], (uint64_t)op->a[1]);
    switch (op->code) {
    case OP_INPUT: {
        if (handle == NULL || topo == TOPO_WSRC)
            break;
        unsigned burst = 1 + (unsigned)((uint64_t)op->a[0] % 6);
        for (unsigned k = 0; k < burst && nsent < MAXSENT && handle != NULL; k++) {
            unsigned size = 8 + (unsigned)((uint64_t)(op->a[1] + k) % 56);
            struct uref *uref = make_uref(next_seq + 1, size);
            if (uref == NULL)
                break;
            next_seq++;
            sent[nsent++] = (struct sent){ .seq = next_seq, .gen = cur_gen, .size = (uint16_t)size,
                                           .may_lose = cur_gen == 0 };
            if (((uint64_t)op->a[2] & 1) && ndups < 16) {
                /* the application keeps a duplicate: the buffer memory is now
                 * shared between the two threads */
                struct uref *d = uref_dup(uref);
                if (d != NULL)
                    dups[ndups++] = d;
            }
            sim_ev("send", next_seq, cur_gen);
            upipe_input(handle, uref, &driver);
        }
        break;
    }
    case OP_FLOW_DEF: {
        if (handle == NULL || topo == TOPO_WSRC)
            break;
        struct uref *fd = make_flow_def(cur_gen + 1);
        if (fd == NULL)
            break;
        int err = upipe_set_flow_def(handle, fd);
        uref_free(fd);
        if (!ubase_check(err)) {
            if (checking())
                control_failed( "set_flow_def on the handle failed (%d)", err);
            break;
        }
        cur_gen++;
        break;
    }
    case OP_SET_OUTPUT: {
        if (handle == NULL || topo == TOPO_WSINK || topo == TOPO_QUEUE)
            break;
        struct asink *s = &asinks[(uint64_t)op->a[0] % MAX_ASINK];
        if (!s->live || s->dead)
            break;
        int err = upipe_set_output(handle, &s->upipe);
        if (!ubase_check(err) && checking())
            control_failed( "set_output on the worker pipe failed (%d)", err);
        /* the new sink has not negotiated anything yet */
        cons.gen = 0;
        SIM_PROBE("thr_set_output_app_side");
        break;
    }
    case OP_CTRL: {
        if (handle == NULL || topo == TOPO_QUEUE)
            break;
        /* a command the worker pipe does not know: it freezes the remote
         * loop itself (when it can) and asks the inner pipes */
        int err = upipe_control(handle, RMOCK_SET_OPTION, RMOCK_SIGNATURE);
        if (mutex == NULL) {
            if (err != UBASE_ERR_UNHANDLED && checking())
                control_failed( "a command forwarded to the remote pipe without any mutex returned %d", err);
        } else if (!ubase_check(err) && topo != TOPO_WSRC && checking())
            control_failed( "a command forwarded to the frozen remote pipe returned %d", err);
        SIM_PROBE("thr_ctrl_auto_freeze");
        break;
    }
    case OP_FREEZE_CTRL: {
        if (handle == NULL || topo == TOPO_QUEUE || mutex == NULL)
            break;
        if (!ubase_check(upipe_bin_freeze(handle))) {
            if (checking())
                control_failed( "upipe_bin_freeze failed although a mutex was given");
            break;
        }
        app_frozen = true;
        struct upipe *inner = NULL;
        int err = ((uint64_t)op->a[0] & 1) ? upipe_bin_get_last_inner(handle, &inner)
                                          : upipe_bin_get_first_inner(handle, &inner);
        if (ubase_check(err) && inner != NULL) {
            /* walk the remote pipeline like an application inspecting it */
            struct upipe *out = NULL;
            upipe_control(inner, RMOCK_SET_OPTION, RMOCK_SIGNATURE);
            upipe_get_output(inner, &out);
        }
        for (int i = 0; i < (int)((uint64_t)op->a[1] % 3); i++)
            sim_point(SIM_PT_USER, NULL);
        app_frozen = false;
        upipe_bin_thaw(handle);
        SIM_PROBE("thr_explicit_freeze");
        break;
    }
    case OP_ATTACH:
        ensure_attached();
        break;
    case OP_RELEASE:
        do_release();
        break;
    case OP_FREE_DUPS:
        while (ndups > 0)
            uref_free(dups[--ndups]);
        break;
    case OP_REQ_REGISTER: {
        if (handle == NULL || topo == TOPO_WSRC)
            break;
        struct areq *a = &areqs[(uint64_t)op->a[0] % MAX_REQ];
        if (a->registered)
            break;
        urequest_init_sink_latency(&a->urequest, areq_provide, NULL);
        a->registered = a->ever = true;
        a->have_value = false;
        int err = upipe_register_request(handle, &a->urequest);
        if (!ubase_check(err) && checking())
            control_failed( "register_request on the handle failed (%d)", err);
        SIM_PROBE("thr_req_registered");
        break;
    }
    case OP_REQ_UNREGISTER: {
        if (handle == NULL)
            break;
        struct areq *a = &areqs[(uint64_t)op->a[0] % MAX_REQ];
        if (!a->registered)
            break;
        int err = upipe_unregister_request(handle, &a->urequest);
        a->registered = false;
        urequest_clean(&a->urequest);
        if (!ubase_check(err) && checking())
            control_failed( "unregister_request on the handle failed (%d)", err);
        break;
    }
    case OP_REQ_PROVIDE: {
        /* an application-side sink answers one of the requests lodged with it */
        for (int j = 0; j < MAX_ASINK; j++) {
            struct asink *s = &asinks[j];
            if (!s->live || s->dead || s->nlodged == 0)
                continue;
            struct urequest *rq = s->lodged[(uint64_t)op->a[0] % (unsigned)s->nlodged];
            if (rq->type != UREQUEST_SINK_LATENCY || nprovided >= 60)
                break;
            uint64_t v = fresh_value();
            sim_ev("req_provide", v, 0);
            urequest_provide_sink_latency(rq, v);
            SIM_PROBE("thr_req_provided_by_app_sink");
            break;
        }
        break;
    }
    default:
        break;
    }
}

/** second phase of the settle: every terminal answers every request it holds */
static void req_final_answers(void)
{
    settle_first_value = 1000 + (uint64_t)nprovided * 7;
    if (topo == TOPO_WSINK) {
        /* the terminal lives on the worker thread: reach it under the freeze
         * mutex when there is one */
        if (mutex != NULL && handle != NULL) {
            int err = upipe_control(handle, RMOCK_ANSWER_ALL, RMOCK_SIGNATURE);
            if (!ubase_check(err) && checking())
                control_failed( "a command forwarded to the frozen remote sink returned %d", err);
        }
        return;
    }
    for (int j = 0; j < MAX_ASINK; j++) {
        struct asink *s = &asinks[j];
        if (!s->created || s->dead)
            continue;
        for (int i = 0; i < s->nlodged; i++)
            if (s->lodged[i]->type == UREQUEST_SINK_LATENCY) {
                uint64_t v = fresh_value();
                sim_ev("req_provide", v, 0);
                urequest_provide_sink_latency(s->lodged[i], v);
            }
    }
}

/** third phase: each registered request is lodged exactly once at the
 * terminal the chain leads to, and heard the final answer */
static void req_final_check(void)
{
    if (!checking())
        return;
    int registered = 0;
    for (int i = 0; i < MAX_REQ; i++)
        registered += areqs[i].registered;
    int lodged = 0, elsewhere = 0;
    if (topo == TOPO_WSINK) {
        for (int i = 0; i < nrmocks; i++)
            if (rmocks[i] != NULL && rmocks[i]->role == ROLE_SINK)
                lodged += rmocks[i]->nlodged;
    } else {
        struct upipe *out = NULL;
        upipe_get_output(handle, &out);
        for (int j = 0; j < MAX_ASINK; j++) {
            if (!asinks[j].created || asinks[j].dead)
                continue;
            if (&asinks[j].upipe == out)
                lodged += asinks[j].nlodged;
            else
                elsewhere += asinks[j].nlodged;
        }
    }
    SIM_PROBE("thr_req_final_check");
    if (lodged != registered || elsewhere != 0) {
        sim_violation(V_REQ_ROUTING, "%d request(s) registered on the worker pipe, %d lodged at the terminal the chain "
                      "leads to and %d at a terminal it no longer leads to", registered, lodged, elsewhere);
        return;
    }
    bool answered = topo != TOPO_WSINK || mutex != NULL;
    for (int i = 0; i < MAX_REQ && answered; i++)
        if (areqs[i].registered &&
            (!areqs[i].have_value || areqs[i].last_value < settle_first_value)) {
            sim_violation(V_REQ_ANSWER, "request %d is lodged at the terminal, which answered it when every thread was idle, "
                          "but the requester %s", i, areqs[i].have_value ? "only heard an older answer" : "never heard any answer");
            return;
        }
}

static void driver_resume(struct upump *timer)
{
    upump_stop(timer);
    upump_free(timer);
    driver_timer = NULL;
    if (driver != NULL)
        upump_start(driver);
}

static void driver_finish(void)
{
    finishing = true;
    do_release();
    while (ndups > 0)
        uref_free(dups[--ndups]);
    for (int j = 0; j < MAX_ASINK; j++)
        if (asinks[j].live) {
            asinks[j].live = false;
            upipe_release(&asinks[j].upipe);
        }
    struct upump *d = driver;
    driver = NULL;
    upump_stop(d);
    upump_free(d);
}

static unsigned patience;
static void driver_cb(struct upump *upump)
{
    if (!checking()) {
        driver_finish();
        return;
    }
    if (next_op < plan->nops) {
        const struct sim_op *op = &plan->ops[next_op++];
        if (op->code == OP_WAIT) {
            sim_ev("wait", (uint64_t)op->a[0], 0);
            upump_stop(driver);
            driver_timer = upump_alloc_timer(main_mgr, driver_resume, NULL, NULL,
                                             1 + (uint64_t)op->a[0] % 5000, 0);
            upump_start(driver_timer);
            return;
        }
        do_op(op);
        return;
    }
    /* a source worker is let go when the application has heard of the end of
     * the source (patient applications only) */
    if (topo == TOPO_WSRC && ((uint64_t)plan->cfg[CFG_PATIENT] & 1) && handle != NULL &&
        !src_end_seen && patience < 200) {
        ensure_attached();
        patience++;
        upump_stop(driver);
        driver_timer = upump_alloc_timer(main_mgr, driver_resume, NULL, NULL, 2000, 0);
        upump_start(driver_timer);
        return;
    }
    if (handle != NULL && topo != TOPO_WSRC && (prop == 12 || ((uint64_t)plan->cfg[CFG_PROVIDER] & 4)) &&
        settle_phase < 3) {
        /* let every message in flight arrive (the clock only moves when
         * every thread is idle), then have the terminal answer once more and
         * check where each request ended up */
        ensure_attached();
        if (settle_phase == 1)
            req_final_answers();
        else if (settle_phase == 2)
            req_final_check();
        settle_phase++;
        if (settle_phase < 3) {
            upump_stop(driver);
            driver_timer = upump_alloc_timer(main_mgr, driver_resume, NULL, NULL, 6000, 0);
            upump_start(driver_timer);
            return;
        }
    }
    driver_finish();
}

/* ------------------------------------------------------------------ audit */
static void final_audit(void)
{
    if (!checking())
        return;
    /* every thread ended and was joined, every pipe died */
    if (sim_pthread_unjoined() != 0) {
        sim_violation(V_LEAK, "%u worker thread(s) never joined", sim_pthread_unjoined());
        return;
    }
    if ((int)rmock_dead != nrmocks) {
        sim_violation(V_LEAK, "%d remote pipe(s) out of %d never died", nrmocks - (int)rmock_dead, nrmocks);
        return;
    }
    for (int j = 0; j < MAX_ASINK; j++)
        if (asinks[j].created && !asinks[j].live && !asinks[j].dead) {
            sim_violation(V_LEAK, "application sink %d is still referenced after everything was released", j);
            return;
        }
    /* completeness */
    for (int i = 0; i < nsent; i++)
        if (!sent[i].arrived && !sent[i].may_lose) {
            sim_violation(V_LOSS, "buffer %" PRIu64 " (sent under flow definition %u) never arrived; %u of %d arrived",
                          sent[i].seq, sent[i].gen, cons.inputs, nsent);
            return;
        }
    if (fwd_arrived > fwd_accepted)
        sim_violation(V_EVENT_LOST, "%u forwarded events arrived, %u were accepted", fwd_arrived, fwd_accepted);
    else if (void_arrived > void_accepted)
        sim_violation(V_EVENT_LOST, "%u forwarded argument-less events arrived, %u were accepted", void_arrived, void_accepted);
}

static void release_env_and_leak_audit(void)
{
    bool clean = checking();
    uref_mgr_vacuum(uref_mgr);
    udict_mgr_vacuum(udict_mgr);
    ubuf_mgr_vacuum(ubuf_mgr);
    upump_mgr_vacuum(main_mgr);
    if (clean) {
        if (upump_sim_mgr_live_pumps(main_mgr) != 0)
            sim_violation(V_LEAK, "%u pump(s) left in the application's event loop", upump_sim_mgr_live_pumps(main_mgr));
        else if (!urefcount_single(uref_mgr->refcount))
            sim_violation(V_REFCOUNT, "uref manager not back to a single reference (a uref is still alive)");
        else if (!urefcount_single(ubuf_mgr->refcount))
            sim_violation(V_REFCOUNT, "ubuf manager not back to a single reference (a buffer is still alive)");
        else if (umem_sim_live() != 0)
            sim_violation(V_LEAK, "%u memory area(s) left", umem_sim_live());
        else if (probe_handle.uprobe.refcount != NULL && !urefcount_single(&probe_handle.refcount))
            sim_violation(V_REFCOUNT, "the probe of the worker pipe is still referenced after every pipe died");
    }
    if (probe_handle.uprobe.refcount != NULL)
        uprobe_clean(&probe_handle.uprobe);
    if (clean && checking()) {
        if (!urefcount_single(&probe_app.refcount))
            sim_violation(V_REFCOUNT, "the application-side probe is still referenced after every pipe died");
        else if (!urefcount_single(&probe_remote.refcount))
            sim_violation(V_REFCOUNT, "the remote-side probe is still referenced after every pipe died");
    }
    uprobe_clean(&probe_app.uprobe);
    uprobe_clean(&probe_remote.uprobe);
    if (clean && checking() && !urefcount_single(logger->refcount))
        sim_violation(V_REFCOUNT, "the thread-local event loop probe is still referenced after every pipe died");
    uprobe_release(logger);
    if (clean && checking() && !urefcount_single(&probe_root.refcount))
        sim_violation(V_REFCOUNT, "the root probe is still referenced");
    uprobe_clean(&probe_root.uprobe);
    if (clean && checking() && !urefcount_single(main_mgr->refcount))
        sim_violation(V_REFCOUNT, "the application's upump manager is still referenced (%s)",
                      "a thread-local or a pipe kept it");
    upump_mgr_release(main_mgr);
    uref_mgr_release(uref_mgr);
    ubuf_mgr_release(ubuf_mgr);
    udict_mgr_release(udict_mgr);
    umem_mgr_release(umem);
    umutex_release(mutex);
    if (clean && checking() && sim_alloc_live() != 0) {
        char buf[200];
        sim_alloc_describe_live(buf, sizeof(buf));
        sim_violation(V_LEAK, "%u allocation(s) left after releasing everything: %s", sim_alloc_live(), buf);
    }
    if (clean && checking() && sim_fd_open_count() != 0)
        sim_violation(V_LEAK, "%d event descriptor(s) left open", sim_fd_open_count());
    if (clean && checking() && sim_pthread_keys_live() != 0)
        sim_violation(V_LEAK, "%u thread-specific key(s) never deleted", sim_pthread_keys_live());
}

/* -------------------------------------------------------- the application */
static bool app_done;
static void app_task(void *arg)
{
    env_setup();
    if (topo == TOPO_QUEUE) {
        queue_topology_run();
    } else {
        build_worker();
        if (checking()) {
            driver = upump_alloc_idler(main_mgr, driver_cb, NULL, NULL);
            upump_start(driver);
            upump_mgr_run(main_mgr, NULL);
        }
    }
    if (checking() && driver != NULL)
        sim_violation(V_DEADLOCK, "the application's event loop returned with the plan unfinished");
    final_audit();
    release_env_and_leak_audit();
    app_done = true;
}

static void reset_state(void)
{
    worker_task = -1;
    app_frozen = transferred = false;
    handle = NULL;
    driver = driver_timer = NULL;
    next_op = 0;
    finishing = false;
    nsent = 0;
    next_seq = 0;
    cur_gen = 0;
    memset(&cons, 0, sizeof(cons));
    ndups = 0;
    memset(rmocks, 0, sizeof(rmocks));
    nrmocks = 0;
    rmock_dead = 0;
    memset(asinks, 0, sizeof(asinks));
    memset(areqs, 0, sizeof(areqs));
    nprovided = 0;
    settle_phase = 0;
    settle_first_value = 0;
    fwd_thrown = fwd_accepted = fwd_arrived = 0;
    void_thrown = void_accepted = void_arrived = 0;
    fwd_last = 0;
    src_end_seen = false;
    attached_late = false;
    patience = 0;
    app_done = false;
    memset(&probe_handle, 0, sizeof(probe_handle));
}

/* ------------------------------------------------- plain queue (topology B) */
#include "ethread_queue.c"

/* ----------------------------------------------------------------- engine */
static void gen(const char *pr, struct sim_rng *r, struct sim_plan *p)
{
    int which = atoi(pr + 1);
    p->cfg[CFG_PROP] = which;
    uint32_t t = sim_rng_below(r, 10);
    p->cfg[CFG_TOPO] = t < 3 ? TOPO_WSINK : t < 6 ? TOPO_WLIN : t < 8 ? TOPO_WSRC : TOPO_QUEUE;
    if (which == 12 && p->cfg[CFG_TOPO] == TOPO_WSRC)
        p->cfg[CFG_TOPO] = TOPO_WLIN;
    if (which == 12 && p->cfg[CFG_TOPO] == TOPO_QUEUE)
        p->cfg[CFG_TOPO] = TOPO_WSINK;
    p->cfg[CFG_INQ] = sim_rng_below(r, 16);
    p->cfg[CFG_OUTQ] = sim_rng_below(r, 4);
    p->cfg[CFG_XFERQ] = sim_rng_below(r, 9);
    p->cfg[CFG_MUTEX] = sim_rng_chance(r, 1, 2);
    p->cfg[CFG_CHAIN] = sim_rng_below(r, 3);
    p->cfg[CFG_SLOW] = sim_rng_chance(r, 1, 3) ? 1 + sim_rng_below(r, 3000) : 0;
    p->cfg[CFG_ATTACH] = sim_rng_below(r, 3);
    p->cfg[CFG_UREF_POOL] = sim_rng_below(r, 5);
    p->cfg[CFG_UDICT_POOL] = sim_rng_below(r, 5);
    p->cfg[CFG_UBUF_POOL] = sim_rng_below(r, 5);
    p->cfg[CFG_PUMP_POOL] = sim_rng_below(r, 5);
    p->cfg[CFG_MSG_POOL] = sim_rng_below(r, 5);
    p->cfg[CFG_SRC_COUNT] = sim_rng_below(r, 24);
    p->cfg[CFG_SRC_FDCHANGE] = sim_rng_chance(r, 1, 2) ? sim_rng_below(r, 24) : 0;
    p->cfg[CFG_FWD_EVERY] = sim_rng_chance(r, 1, 2) ? 1 + sim_rng_below(r, 5) : 0;
    p->cfg[CFG_EINTR] = sim_rng_chance(r, 1, 4) ? 10 + sim_rng_below(r, 60) : 0;
    p->cfg[CFG_SPURIOUS] = sim_rng_chance(r, 1, 4) ? 10 + sim_rng_below(r, 60) : 0;
    p->cfg[CFG_PATIENT] = sim_rng_chance(r, 2, 3);
    p->cfg[CFG_PROVIDER] = sim_rng_below(r, 3);
    p->cfg[CFG_NPROD] = sim_rng_below(r, 2);
    p->cfg[CFG_NOLOOP] = sim_rng_chance(r, 1, 5);
    p->cfg[CFG_ALLOCFAULT] = sim_rng_chance(r, 1, 6) ? 1 + sim_rng_below(r, 6) : 0;
    int topo_ = (int)p->cfg[CFG_TOPO];
    if (topo_ == TOPO_QUEUE) {
        gen_queue(r, p, which);
        return;
    }
    int n = 3 + (int)sim_rng_below(r, 22);
    if (sim_rng_chance(r, 7, 8))
        sim_plan_add(p, 0, OP_FLOW_DEF, 0, 0, 0, 0, 0, 0);
    for (int i = 0; i < n; i++) {
        uint32_t c = sim_rng_below(r, 100);
        if (which == 12 && c < 45) {
            uint32_t q = sim_rng_below(r, 10);
            if (q < 4) sim_plan_add(p, 0, OP_REQ_REGISTER, sim_rng_below(r, MAX_REQ), 0, 0, 0, 0, 0);
            else if (q < 6) sim_plan_add(p, 0, OP_REQ_UNREGISTER, sim_rng_below(r, MAX_REQ), 0, 0, 0, 0, 0);
            else if (q < 9) sim_plan_add(p, 0, OP_REQ_PROVIDE, sim_rng_below(r, 8), sim_rng_below(r, 5), 0, 0, 0, 0);
            else sim_plan_add(p, 0, OP_WAIT, sim_rng_below(r, 3000), 0, 0, 0, 0, 0);
            continue;
        }
        if (c < 45) sim_plan_add(p, 0, OP_INPUT, sim_rng_below(r, 6), sim_rng_below(r, 56), sim_rng_below(r, 4) == 0, 0, 0, 0);
        else if (c < 55) sim_plan_add(p, 0, OP_FLOW_DEF, 0, 0, 0, 0, 0, 0);
        else if (c < 67) sim_plan_add(p, 0, OP_WAIT, sim_rng_below(r, 5000), 0, 0, 0, 0, 0);
        else if (c < 73) sim_plan_add(p, 0, OP_SET_OUTPUT, sim_rng_below(r, MAX_ASINK), 0, 0, 0, 0, 0);
        else if (c < 79) sim_plan_add(p, 0, OP_CTRL, 0, 0, 0, 0, 0, 0);
        else if (c < 86) sim_plan_add(p, 0, OP_FREEZE_CTRL, sim_rng_below(r, 2), sim_rng_below(r, 3), 0, 0, 0, 0);
        else if (c < 90) sim_plan_add(p, 0, OP_ATTACH, 0, 0, 0, 0, 0, 0);
        else if (c < 93) sim_plan_add(p, 0, OP_FREE_DUPS, 0, 0, 0, 0, 0, 0);
        else if (c < 96) sim_plan_add(p, 0, OP_REQ_REGISTER, sim_rng_below(r, MAX_REQ), 0, 0, 0, 0, 0);
        else if (c < 98) sim_plan_add(p, 0, OP_REQ_PROVIDE, sim_rng_below(r, 8), sim_rng_below(r, 5), 0, 0, 0, 0);
        else sim_plan_add(p, 0, OP_RELEASE, 0, 0, 0, 0, 0, 0);
    }
}

static void describe_blocked(char *buf, size_t len)
{
    size_t o = 0;
    for (int i = 0; i < sim_ntasks() && o + 40 < len; i++)
        o += (size_t)snprintf(buf + o, len - o, "%s%s(%d):%s", i ? " " : "", sim_task_name(i), i,
                              sim_task_done(i) ? "done" : sim_task_blocked(i) ? "asleep" : "runnable");
}

static void run(const char *pr, const struct sim_plan *pl)
{
    prop = atoi(pr + 1);
    plan = pl;
    reset_state();
    topo = (int)((uint64_t)plan->cfg[CFG_TOPO] % TOPO__N);
    slow_ticks = (unsigned)((uint64_t)plan->cfg[CFG_SLOW] % 4000);
    sim_set_strategy(-1, 4000);
    sim_spawn(app_task, NULL, "app", 1024 * 1024);
    enum sim_end end = sim_run(400000);
    sim_mark_nontrivial();
    sim_sig_add(1, sim_mix((uint64_t)topo, sim_mix(cons.inputs, sim_mix(cons.flow_defs, fwd_arrived))));
    if (sim_violation_class() || xfer_overflow)
        return;
    if (end == SIM_END_BUDGET) {
        SIM_PROBE("thr_budget_exhausted");
        return;
    }
    if (end == SIM_END_QUIESCENT || !app_done) {
        char who[200];
        describe_blocked(who, sizeof(who));
        unsigned missing = 0;
        for (int i = 0; i < nsent; i++)
            if (!sent[i].arrived && !sent[i].may_lose)
                missing++;
        sim_violation(V_DEADLOCK, "every thread is asleep and nothing can wake them: %s; plan at operation %d of %d, "
                      "%u buffer(s) undelivered, handle %s", who, next_op, plan->nops, missing,
                      handle ? "held" : "released");
    }
}

static const char *const props[] = { "C06", "C12", "C01", NULL };
const struct sim_engine sim_engine = {
    .name = "ethread", .props = props, .gen = gen, .run = run,
    .class_name = class_name, .op_name = op_name,
};

int main(int argc, char **argv) { return sim_main(argc, argv); }
