/*
 * E-struct: the lock-free structures under a deterministic scheduler.
 *   C07  ulifo / ufifo / upool linearizability
 *   C08  uqueue wake-ups (udeal lives in eloop.c, it needs an event loop)
 *   C09  urefcount destructor exactly once
 * Real code: include/upipe/{uatomic,uring,ufifo,ulifo,upool,uqueue,ueventfd,
 * urefcount}.h compiled with -DUPIPE_VERIF_SIM. Stubs: kernel eventfd, threads.
 */
#define _GNU_SOURCE
#include "../sim/sim.h"

#include <upipe/ubase.h>
#include <upipe/uatomic.h>
#include <upipe/uring.h>
#include <upipe/ufifo.h>
#include <upipe/ulifo.h>
#include <upipe/upool.h>
#include <upipe/urefcount.h>
#include <upipe/uqueue.h>
#include <upipe/udeal.h>
#include "../sim/upump_sim.h"
#include "../sim/alloc.h"
#include <upipe/umem.h>
#include <upipe/ubuf.h>
#include <upipe/ubuf_block.h>
#include <upipe/ubuf_block_mem.h>

#include <stdlib.h>
#include <string.h>
#include <inttypes.h>

/* ------------------------------------------------------------- classes */
enum {
    V_LIN = 1,          /* history not linearizable */
    V_DOUBLE_HOLD,      /* pool object handed to two holders */
    V_POOL_ACCOUNT,     /* alloc_cb / free_cb imbalance, freed while held */
    V_LOST_WAKEUP,      /* quiescent with work left */
    V_LOST_WAKEUP_LAG,  /* same, in a run where a wake-up decision was taken
                           on a lagging counter (known finding signature) */
    V_QUEUE_CONTENT,    /* lost / duplicated / invented / reordered element */
    V_QUEUE_LENGTH,     /* counter disagrees with content at quiescence */
    V_REF_EARLY,        /* destructor ran while references outstanding */
    V_REF_TWICE,        /* destructor ran twice */
    V_REF_NEVER,        /* all references released, destructor did not run */
    V_REF_AFTER,        /* object touched after destruction */
    V_TERMINATION,      /* an operation running alone does not finish */
    V_DEAL_EXCLUSION,   /* two holders inside the dealer's critical section */
    V_DEAL_STARVED,     /* everybody asleep, resource free, a waiter left out */
};

static const char *class_name(int cls)
{
    switch (cls) {
    case V_LIN: return "not_linearizable";
    case V_DOUBLE_HOLD: return "pool_double_hold";
    case V_POOL_ACCOUNT: return "pool_accounting";
    case V_LOST_WAKEUP: return "lost_wakeup";
    case V_LOST_WAKEUP_LAG: return "lost_wakeup_counter_lag";
    case V_QUEUE_CONTENT: return "queue_content";
    case V_QUEUE_LENGTH: return "queue_length";
    case V_REF_EARLY: return "destructor_early";
    case V_REF_TWICE: return "destructor_twice";
    case V_REF_NEVER: return "destructor_never";
    case V_REF_AFTER: return "use_after_destroy";
    case V_TERMINATION: return "no_termination";
    case V_DEAL_EXCLUSION: return "dealer_two_holders";
    case V_DEAL_STARVED: return "dealer_waiter_not_woken";
    }
    return NULL;
}

/* ----------------------------------------------------------------- ops */
enum {
    OP_PUSH = 1, OP_POP, OP_ALLOC, OP_FREE,         /* C07 */
    OP_QPUSH,                                       /* C08 */
    OP_USE, OP_RELEASE,                             /* C09 */
    OP_DEAL_ENTER, OP_DEAL_ABORT,                   /* C08 dealer */
    OP_BDUP, OP_BSPLICE, OP_BFREE,                  /* C09 buffers */
};

static const char *op_name(int code)
{
    switch (code) {
    case OP_PUSH: return "push";
    case OP_POP: return "pop";
    case OP_ALLOC: return "alloc";
    case OP_FREE: return "free";
    case OP_QPUSH: return "qpush";
    case OP_USE: return "use";
    case OP_RELEASE: return "release";
    case OP_DEAL_ENTER: return "deal_enter";
    case OP_DEAL_ABORT: return "deal_start_then_abort";
    case OP_BDUP: return "ubuf_dup";
    case OP_BSPLICE: return "ubuf_block_splice";
    case OP_BFREE: return "ubuf_free";
    }
    return "?";
}

enum { CFG_KIND = 0, CFG_CAP, CFG_NTASKS, CFG_AGE, CFG_PREFILL, CFG_NCONS,
       CFG_EINTR, CFG_SPURIOUS, CFG_GRANT };
enum { K_LIFO = 0, K_FIFO, K_POOL };

/* ===================================================================== C07 */
#define H_MAX 64
struct hop {
    int kind;           /* OP_PUSH / OP_POP */
    int val;            /* value pushed, or value popped (0 = nothing) */
    bool ok;            /* push succeeded */
    uint32_t inv, ret;
    int overlap;
    int task;
};
static struct hop hist[H_MAX];
static int nhist;
static uint32_t evseq;

static struct {
    int kind, cap;
    struct ulifo lifo;
    struct ufifo fifo;
    struct upool pool;
    struct urefcount pool_ref;
    uint8_t extra[uring_sizeof(8)] __attribute__((aligned(16)));
    const struct sim_plan *plan;
} c7;

static int hist_begin(int task, int kind, int val)
{
    int i = nhist++;
    hist[i].kind = kind;
    hist[i].val = val;
    hist[i].ok = false;
    hist[i].task = task;
    hist[i].inv = ++evseq;
    hist[i].ret = UINT32_MAX;
    return i;
}

static bool c7_push(int task, int val)
{
    int h = hist_begin(task, OP_PUSH, val);
    void *opaque = (void *)(uintptr_t)val;
    bool ok = c7.kind == K_LIFO ? ulifo_push(&c7.lifo, opaque)
                                : ufifo_push(&c7.fifo, opaque);
    hist[h].ok = ok;
    hist[h].ret = ++evseq;
    sim_ev("push", (uint64_t)val, ok);
    if (!ok)
        SIM_PROBE("c07_push_failed");
    return ok;
}

static int c7_pop(int task)
{
    int h = hist_begin(task, OP_POP, 0);
    void *opaque = c7.kind == K_LIFO ? ulifo_pop(&c7.lifo, void *)
                                     : ufifo_pop(&c7.fifo, void *);
    hist[h].val = (int)(uintptr_t)opaque;
    hist[h].ret = ++evseq;
    sim_ev("pop", (uint64_t)hist[h].val, 0);
    if (opaque == NULL)
        SIM_PROBE("c07_pop_empty");
    return hist[h].val;
}

/* Wing & Gong search with memoisation over (linearized set, abstract state) */
#define MEMO_BITS 14
static struct { uint64_t key; uint32_t gen; } memo[1 << MEMO_BITS];
static uint32_t memo_gen;
static uint64_t lin_nodes;

static bool memo_seen(uint64_t mask, const uint8_t *st, int n)
{
    uint64_t key = mask * 0x9e3779b97f4a7c15ULL;
    for (int i = 0; i < n; i++)
        key = (key ^ st[i]) * 0x100000001b3ULL;
    key = (key ^ (uint64_t)n) * 0x100000001b3ULL;
    if (key == 0)
        key = 1;
    uint32_t i = (uint32_t)(key >> (64 - MEMO_BITS));
    for (int probe = 0; probe < 64; probe++) {
        if (memo[i].gen != memo_gen) {
            memo[i].gen = memo_gen;
            memo[i].key = key;
            return false;
        }
        if (memo[i].key == key)
            return true;
        i = (i + 1) & ((1u << MEMO_BITS) - 1);
    }
    return false;               /* table crowded: just search again */
}

static bool lin_search(uint64_t done, uint8_t *st, int n)
{
    if (done == (nhist >= 64 ? UINT64_MAX : ((1ULL << nhist) - 1)))
        return true;
    if (memo_seen(done, st, n))
        return false;
    lin_nodes++;
    uint32_t min_ret = UINT32_MAX;
    for (int i = 0; i < nhist; i++)
        if (!(done & (1ULL << i)) && hist[i].ret < min_ret)
            min_ret = hist[i].ret;
    for (int i = 0; i < nhist; i++) {
        if ((done & (1ULL << i)) || hist[i].inv > min_ret)
            continue;
        struct hop *o = &hist[i];
        uint8_t ns[8];
        int nn = n;
        memcpy(ns, st, (size_t)n);
        if (o->kind == OP_PUSH) {
            if (o->ok) {
                if (n >= c7.cap)
                    continue;
                ns[nn++] = (uint8_t)o->val;
            } else if (n + o->overlap < c7.cap)
                continue;
        } else {
            if (o->val == 0) {
                if (n != 0)
                    continue;
            } else if (c7.kind == K_FIFO) {
                if (n == 0 || st[0] != o->val)
                    continue;
                memmove(ns, ns + 1, (size_t)(n - 1));
                nn--;
            } else {
                if (n == 0 || st[n - 1] != o->val)
                    continue;
                nn--;
            }
        }
        if (lin_search(done | (1ULL << i), ns, nn))
            return true;
    }
    return false;
}

static void hist_describe(char *buf, size_t len)
{
    size_t o = 0;
    for (int i = 0; i < nhist && o + 40 < len; i++) {
        struct hop *h = &hist[i];
        if (h->kind == OP_PUSH)
            o += (size_t)snprintf(buf + o, len - o, "t%d:push(%d)=%d[%u,%u] ",
                                  h->task, h->val, h->ok, h->inv, h->ret);
        else
            o += (size_t)snprintf(buf + o, len - o, "t%d:pop=%d[%u,%u] ",
                                  h->task, h->val, h->inv, h->ret);
    }
}

static void c7_check_lin(void)
{
    for (int i = 0; i < nhist; i++) {
        hist[i].overlap = 0;
        if (hist[i].ret == UINT32_MAX) {
            /* unfinished operation (budget): treat as concurrent with
             * everything after its invocation; only happens when
             * inconclusive, the caller skips the check then */
            continue;
        }
        for (int j = 0; j < nhist; j++)
            if (j != i && hist[j].inv < hist[i].ret && hist[j].ret > hist[i].inv)
                hist[i].overlap++;
    }
    memo_gen++;
    uint8_t st[8];
    if (!lin_search(0, st, 0)) {
        char buf[300];
        hist_describe(buf, sizeof(buf));
        sim_violation(V_LIN, "%s cap=%d: %s",
                      c7.kind == K_LIFO ? "ulifo" : "ufifo", c7.cap, buf);
    }
}

/* ---- pool */
#define POOL_OBJS 64
static struct pobj { int id; int holder; bool live; bool pooled_or_held; }
    pobjs[POOL_OBJS];
static int pool_next, pool_alloc_cb_n, pool_free_cb_n;
static int held[SIM_MAX_OPS / 16][8], nheld[SIM_MAX_OPS / 16];

static void *pool_alloc_cb(struct upool *upool)
{
    (void)upool;
    if (pool_next >= POOL_OBJS)
        return NULL;
    struct pobj *o = &pobjs[pool_next];
    o->id = pool_next++;
    o->holder = -1;
    o->live = true;
    pool_alloc_cb_n++;
    sim_ev("pool_alloc_cb", (uint64_t)o->id, 0);
    return o;
}

static void pool_free_cb(struct upool *upool, void *obj)
{
    (void)upool;
    struct pobj *o = obj;
    sim_ev("pool_free_cb", (uint64_t)o->id, 0);
    if (!o->live)
        sim_violation(V_POOL_ACCOUNT, "object %d freed twice", o->id);
    if (o->holder != -1)
        sim_violation(V_POOL_ACCOUNT, "object %d freed while held by t%d",
                      o->id, o->holder);
    o->live = false;
    pool_free_cb_n++;
}

static void pool_ref_cb(struct urefcount *r)
{
    (void)r;
    sim_violation(V_POOL_ACCOUNT, "pool refcount dropped to zero");
}

static void c7_task(void *arg)
{
    int me = (int)(intptr_t)arg;
    const struct sim_plan *plan = c7.plan;
    for (int i = 0; i < plan->nops; i++) {
        const struct sim_op *op = &plan->ops[i];
        if (op->task != me)
            continue;
        if (sim_violation_class())
            return;
        switch (op->code) {
        case OP_PUSH:
            if (c7.kind != K_POOL)
                c7_push(me, 1 + i);         /* unique value */
            break;
        case OP_POP:
            if (c7.kind != K_POOL)
                c7_pop(me);
            break;
        case OP_ALLOC: {
            if (c7.kind != K_POOL || nheld[me] >= 8)
                break;
            struct pobj *o = upool_alloc(&c7.pool, struct pobj *);
            if (o == NULL)
                break;
            sim_ev("alloc", (uint64_t)o->id, 0);
            if (!o->live)
                sim_violation(V_POOL_ACCOUNT, "alloc returned freed object %d", o->id);
            if (o->holder != -1)
                sim_violation(V_DOUBLE_HOLD, "object %d given to t%d while held by t%d",
                              o->id, me, o->holder);
            o->holder = me;
            held[me][nheld[me]++] = o->id;
            break;
        }
        case OP_FREE: {
            if (c7.kind != K_POOL || nheld[me] == 0)
                break;
            int k = (int)((uint64_t)op->a[0] % (uint64_t)nheld[me]);
            struct pobj *o = &pobjs[held[me][k]];
            held[me][k] = held[me][--nheld[me]];
            o->holder = -1;
            sim_ev("free", (uint64_t)o->id, 0);
            upool_free(&c7.pool, o);
            break;
        }
        }
    }
}

static void gen_c07(struct sim_rng *r, struct sim_plan *p)
{
    int kind = (int)sim_rng_below(r, 5);
    kind = kind < 2 ? K_LIFO : kind < 4 ? K_FIFO : K_POOL;
    p->cfg[CFG_KIND] = kind;
    p->cfg[CFG_CAP] = sim_rng_chance(r, 1, 10) ? 4 : 1 + sim_rng_below(r, 3);
    int ntasks = 2 + (int)sim_rng_below(r, 2);
    p->cfg[CFG_NTASKS] = ntasks;
    /* pre-ageing rounds: tags anywhere in their 8-bit cycle, rarely the
     * 16-bit wrap */
    p->cfg[CFG_AGE] = sim_rng_chance(r, 1, 200) ? 32760 + sim_rng_below(r, 16)
                                                : sim_rng_below(r, 140);
    p->cfg[CFG_PREFILL] = sim_rng_below(r, (uint32_t)p->cfg[CFG_CAP] + 1);
    for (int t = 0; t < ntasks; t++) {
        int n = 1 + (int)sim_rng_below(r, 4);
        for (int i = 0; i < n; i++) {
            if (kind == K_POOL)
                sim_plan_add(p, t, sim_rng_chance(r, 1, 2) ? OP_ALLOC : OP_FREE,
                             sim_rng_below(r, 8), 0, 0, 0, 0, 0);
            else
                sim_plan_add(p, t, sim_rng_chance(r, 1, 2) ? OP_PUSH : OP_POP,
                             0, 0, 0, 0, 0, 0);
        }
    }
}

static void run_c07(const struct sim_plan *plan)
{
    memset(&c7, 0, sizeof(c7));
    c7.plan = plan;
    c7.kind = (int)((uint64_t)plan->cfg[CFG_KIND] % 3);
    c7.cap = 1 + (int)((uint64_t)(plan->cfg[CFG_CAP] - 1) % 4);
    int ntasks = 1 + (int)((uint64_t)(plan->cfg[CFG_NTASKS] - 1) % 3);
    int age = (int)((uint64_t)plan->cfg[CFG_AGE] % 40000);
    int prefill = (int)((uint64_t)plan->cfg[CFG_PREFILL] % (uint64_t)(c7.cap + 1));
    nhist = 0;
    evseq = 0;
    lin_nodes = 0;
    pool_next = pool_alloc_cb_n = pool_free_cb_n = 0;
    memset(nheld, 0, sizeof(nheld));
    memset(pobjs, 0, sizeof(pobjs));
    sim_set_strategy(-1, 60);

    if (c7.kind == K_LIFO)
        ulifo_init(&c7.lifo, (uint16_t)c7.cap, c7.extra);
    else if (c7.kind == K_FIFO)
        ufifo_init(&c7.fifo, (uint8_t)c7.cap, c7.extra);
    else {
        urefcount_init(&c7.pool_ref, pool_ref_cb);
        upool_init(&c7.pool, &c7.pool_ref, (uint16_t)c7.cap, c7.extra,
                   pool_alloc_cb, pool_free_cb);
    }

    /* pre-ageing (single-threaded, no yield point is taken outside tasks) */
    if (c7.kind != K_POOL) {
        for (int round = 0; round < age; round++) {
            int n = 1 + round % c7.cap;
            for (int i = 0; i < n; i++) {
                void *o = (void *)(uintptr_t)200;
                if (c7.kind == K_LIFO) ulifo_push(&c7.lifo, o);
                else ufifo_push(&c7.fifo, o);
            }
            for (int i = 0; i < n; i++) {
                if (c7.kind == K_LIFO) (void)ulifo_pop(&c7.lifo, void *);
                else (void)ufifo_pop(&c7.fifo, void *);
            }
        }
        if (age >= 128)
            SIM_PROBE("c07_tag8_wrapped");
        if (age >= 32760)
            SIM_PROBE("c07_tag16_wrapped");
        for (int i = 0; i < prefill; i++)
            c7_push(-1, 240 + i);
    } else {
        /* pool: pre-populate with a few recycled objects */
        struct pobj *tmp[4];
        for (int i = 0; i < prefill; i++) {
            tmp[i] = upool_alloc(&c7.pool, struct pobj *);
            tmp[i]->holder = -1;
        }
        for (int i = 0; i < prefill; i++)
            upool_free(&c7.pool, tmp[i]);
    }

    for (int t = 0; t < ntasks; t++)
        sim_spawn(c7_task, (void *)(intptr_t)t, "client", 0);
    enum sim_end end = sim_run(20000);
    if (sim_violation_class())
        return;
    if (end == SIM_END_QUIESCENT) {
        sim_violation(V_TERMINATION, "clients blocked (impossible: nothing blocks)");
        return;
    }
    if (end == SIM_END_BUDGET) {
        /* lock-free, not wait-free: a starved operation may retry for ever
         * under an adversarial schedule. Inconclusive, not a violation. */
        SIM_PROBE("c07_budget_exhausted");
        return;
    }

    if (c7.kind != K_POOL) {
        /* drain single-threaded: these pops are part of the history */
        for (int i = 0; i <= c7.cap; i++)
            if (c7_pop(-1) == 0)
                break;
        c7_check_lin();
        SIM_PROBE_N("c07_lin_nodes", lin_nodes);
        if (c7.kind == K_LIFO) ulifo_clean(&c7.lifo);
        else ufifo_clean(&c7.fifo);
    } else {
        for (int t = 0; t < ntasks; t++)
            while (nheld[t] > 0) {
                struct pobj *o = &pobjs[held[t][--nheld[t]]];
                o->holder = -1;
                upool_free(&c7.pool, o);
            }
        upool_clean(&c7.pool);
        if (pool_alloc_cb_n != pool_free_cb_n)
            sim_violation(V_POOL_ACCOUNT, "alloc_cb %d != free_cb %d after clean",
                          pool_alloc_cb_n, pool_free_cb_n);
        if (!urefcount_single(&c7.pool_ref))
            sim_violation(V_POOL_ACCOUNT, "pool refcount not back to 1");
    }
    /* non-trivial: at least one context switch happened while an operation
     * of another task was in progress */
    struct sim_result dummy;
    (void)dummy;
}

/* ===================================================================== C08 */
#define Q_MAX_ITEMS 64
static struct {
    struct uqueue q;
    uint8_t extra[uqueue_sizeof(16)] __attribute__((aligned(16)));
    int length, nprod, ncons;
    const struct sim_plan *plan;
    int total_items, consumed;
    int producer_of[Q_MAX_ITEMS + 1], seq_of[Q_MAX_ITEMS + 1];
    int seen[Q_MAX_ITEMS + 1];
    int last_seq[4][4];                 /* [consumer][producer] */
    int pending_items[4];               /* producer -> items not yet accepted */
    uint32_t spurious;
    bool lag_under, lag_over;
    int pushed_ok, popped_ok;
} c8;

static bool c8_push_ready(void *arg)
{
    (void)arg;
    return sim_fd_readable(c8.q.event_push.event_fd);
}

static bool c8_pop_ready(void *arg)
{
    (void)arg;
    return sim_fd_readable(c8.q.event_pop.event_fd) ||
           c8.consumed >= c8.total_items;
}

/* A wake-up decision taken on a lagging counter: the signature of the known
 * multi-producer / multi-consumer accounting defect of uqueue.h. */
/* Exact bookkeeping of the ring, to recognise the known accounting defect of
 * uqueue.h (wake-up edges decided on `counter`, which is not the ring state):
 *  - a popper that gives a slot back to a ring whose every slot was taken must
 *    wake the pushers; it does so only if its fetch_sub returns `length`;
 *  - a pusher that makes the FIFO non-empty must wake the poppers; it does so
 *    only if its fetch_add returns 0.
 * A compare-exchange succeeded iff the word changed between the instant right
 * before it executed and the task's next yield point (nothing else runs in
 * between). */
static struct {
    bool armed;
    const volatile uint32_t *word;
    uint32_t pre;
    bool released_from_full, made_nonempty;
} c8_t[16];
static int c8_taken;

static void c8_enter(int kind, const volatile void *addr)
{
    (void)kind; (void)addr;
    int self = sim_self();
    if (self < 0 || !c8_t[self].armed)
        return;
    c8_t[self].armed = false;
    if (*c8_t[self].word == c8_t[self].pre)
        return;                 /* the compare-exchange failed */
    bool producer = self < c8.nprod;
    if (c8_t[self].word == &c8.q.fifo.lifo_empty) {
        if (producer)
            c8_taken++;
        else {
            c8_t[self].released_from_full = c8_taken == c8.length;
            c8_taken--;
        }
        if (sim_verbose >= 2)
            printf("      # t%d %s slot, taken now %d\n", self,
                   producer ? "took" : "released", c8_taken);

    } else if (producer)
        c8_t[self].made_nonempty = c8_t[self].pre == URING_FIFO_NULL;
}

static void c8_observer(int kind, const volatile void *addr)
{
    int self = sim_self();
    if (kind == UPIPE_VERIF_ATOMIC_CAS &&
        (addr == &c8.q.fifo.fifo_carrier || addr == &c8.q.fifo.lifo_empty)) {
        c8_t[self].armed = true;
        c8_t[self].word = addr;
        c8_t[self].pre = *(const volatile uint32_t *)addr;
        return;
    }
    if (addr != &c8.q.counter)
        return;
    uint32_t v = c8.q.counter;
    if (kind == UPIPE_VERIF_ATOMIC_SUB) {
        if (c8_t[self].released_from_full && v != (uint32_t)c8.length) {
            c8.lag_under = true;
            SIM_PROBE("c08_missed_full_edge");
        }
        c8_t[self].released_from_full = false;
    } else if (kind == UPIPE_VERIF_ATOMIC_ADD) {
        if (c8_t[self].made_nonempty && v != 0) {
            c8.lag_over = true;
            SIM_PROBE("c08_missed_nonempty_edge");
        }
        c8_t[self].made_nonempty = false;
    }
}

static void c8_producer(void *arg)
{
    int me = (int)(intptr_t)arg;
    const struct sim_plan *plan = c8.plan;
    int seq = 0;
    for (int i = 0; i < plan->nops; i++) {
        const struct sim_op *op = &plan->ops[i];
        if (op->task != me || op->code != OP_QPUSH)
            continue;
        int item = 1 + i;
        if (item > Q_MAX_ITEMS)
            break;
        c8.producer_of[item] = me;
        c8.seq_of[item] = ++seq;
        for ( ; ; ) {
            bool ok = uqueue_push(&c8.q, (void *)(uintptr_t)item);
            c8_enter(0, NULL);
            sim_ev("qpush", (uint64_t)item, ok);
            if (ok)
                break;
            SIM_PROBE("c08_push_found_full");
            if (c8.spurious && sim_coin(c8.spurious, 1024)) {
                SIM_PROBE("fault_spurious_wakeup");
                continue;
            }
            sim_wait(c8_push_ready, NULL, UINT64_MAX);
        }
        c8.pushed_ok++;
        c8.pending_items[me]--;
    }
}

static void c8_consumer(void *arg)
{
    int me = (int)(intptr_t)arg;        /* task id */
    int cidx = me - c8.nprod;
    for ( ; ; ) {
        if (c8.consumed >= c8.total_items)
            return;
        if (!(c8.spurious && sim_coin(c8.spurious, 1024)))
            sim_wait(c8_pop_ready, NULL, UINT64_MAX);
        else
            SIM_PROBE("fault_spurious_wakeup");
        if (c8.consumed >= c8.total_items)
            return;
        void *el = uqueue_pop(&c8.q, void *);
        c8_enter(0, NULL);
        int item = (int)(uintptr_t)el;
        sim_ev("qpop", (uint64_t)item, 0);
        if (el == NULL) {
            SIM_PROBE("c08_pop_found_empty");
            continue;
        }
        c8.popped_ok++;
        if (item < 1 || item > Q_MAX_ITEMS || c8.producer_of[item] < 0) {
            sim_violation(V_QUEUE_CONTENT, "popped an element nobody pushed (%d)", item);
            return;
        }
        if (c8.seen[item]++) {
            sim_violation(V_QUEUE_CONTENT, "element %d delivered twice", item);
            return;
        }
        int p = c8.producer_of[item];
        if (c8.seq_of[item] <= c8.last_seq[cidx][p]) {
            sim_violation(V_QUEUE_CONTENT, "consumer %d got item #%d of producer %d after #%d",
                          cidx, c8.seq_of[item], p, c8.last_seq[cidx][p]);
            return;
        }
        c8.last_seq[cidx][p] = c8.seq_of[item];
        c8.consumed++;
    }
}

static void gen_c08(struct sim_rng *r, struct sim_plan *p)
{
    p->cfg[CFG_CAP] = sim_rng_chance(r, 1, 8) ? 4 + sim_rng_below(r, 5)
                                              : 1 + sim_rng_below(r, 3);
    int nprod = 1 + (int)sim_rng_below(r, 3);
    int ncons = 1 + (int)sim_rng_below(r, 2);
    /* half of the runs are single producer / single consumer */
    if (sim_rng_chance(r, 1, 2))
        nprod = ncons = 1;
    p->cfg[CFG_NTASKS] = nprod;
    p->cfg[CFG_NCONS] = ncons;
    p->cfg[CFG_EINTR] = sim_rng_chance(r, 1, 3) ? 20 + sim_rng_below(r, 100) : 0;
    p->cfg[CFG_SPURIOUS] = sim_rng_chance(r, 1, 3) ? 20 + sim_rng_below(r, 100) : 0;
    for (int t = 0; t < nprod; t++) {
        int n = 1 + (int)sim_rng_below(r, 4);
        for (int i = 0; i < n; i++)
            sim_plan_add(p, t, OP_QPUSH, 0, 0, 0, 0, 0, 0);
    }
}

static void run_c08(const struct sim_plan *plan)
{
    memset(&c8, 0, sizeof(c8));
    c8.plan = plan;
    c8.length = 1 + (int)((uint64_t)(plan->cfg[CFG_CAP] - 1) % 8);
    c8.nprod = 1 + (int)((uint64_t)(plan->cfg[CFG_NTASKS] - 1) % 3);
    c8.ncons = 1 + (int)((uint64_t)(plan->cfg[CFG_NCONS] - 1) % 2);
    c8.spurious = (uint32_t)((uint64_t)plan->cfg[CFG_SPURIOUS] % 512);
    sim_fd_set_eintr((uint32_t)((uint64_t)plan->cfg[CFG_EINTR] % 512));
    for (int i = 0; i <= Q_MAX_ITEMS; i++)
        c8.producer_of[i] = -1;
    for (int i = 0; i < plan->nops && i < Q_MAX_ITEMS; i++)
        if (plan->ops[i].code == OP_QPUSH && plan->ops[i].task >= 0 &&
            plan->ops[i].task < c8.nprod) {
            c8.total_items++;
            c8.pending_items[plan->ops[i].task]++;
        }
    sim_set_strategy(-1, 40 * (uint32_t)(c8.total_items + 1));
    if (!uqueue_init(&c8.q, (uint8_t)c8.length, c8.extra)) {
        sim_violation(SIM_V_CRASH, "uqueue_init failed");
        return;
    }
    memset(c8_t, 0, sizeof(c8_t));
    c8_taken = 0;
    sim_point_observer = c8_observer;
    sim_point_enter = c8_enter;
    for (int t = 0; t < c8.nprod; t++)
        sim_spawn(c8_producer, (void *)(intptr_t)t, "producer", 0);
    for (int t = 0; t < c8.ncons; t++)
        sim_spawn(c8_consumer, (void *)(intptr_t)(c8.nprod + t), "consumer", 0);
    enum sim_end end = sim_run(400 * (uint64_t)(c8.total_items + c8.nprod + c8.ncons) + 2000);
    sim_point_observer = NULL;
    sim_point_enter = NULL;
    if (sim_violation_class())
        goto out;
    if (end == SIM_END_BUDGET) {
        SIM_PROBE("c08_budget_exhausted");
        goto out;
    }
    if (end == SIM_END_QUIESCENT) {
        /* everybody sleeps on a descriptor that is not readable */
        int sleeping_prod = 0, sleeping_cons = 0;
        for (int t = 0; t < c8.nprod; t++)
            if (!sim_task_done(t))
                sleeping_prod++;
        for (int t = 0; t < c8.ncons; t++)
            if (!sim_task_done(c8.nprod + t))
                sleeping_cons++;
        int inq = c8.pushed_ok - c8.popped_ok;
        const char *side = inq > 0 ? "pop" : "push";
        bool lag = inq > 0 ? c8.lag_over : c8.lag_under;
        sim_violation(lag ? V_LOST_WAKEUP_LAG : V_LOST_WAKEUP,
                      "all clients asleep with work left: side=%s length=%d producers=%d "
                      "consumers=%d in_queue=%d sleeping_producers=%d sleeping_consumers=%d "
                      "consumed=%d/%d counter=%u lag=%s", side, c8.length, c8.nprod,
                      c8.ncons, inq, sleeping_prod, sleeping_cons, c8.consumed,
                      c8.total_items, uqueue_length(&c8.q),
                      lag ? (inq > 0 ? "missed_nonempty_edge" : "missed_full_edge") : "none");
        goto out;
    }
    /* all done: everything delivered exactly once (checked on the way) */
    if (c8.consumed != c8.total_items)
        sim_violation(V_QUEUE_CONTENT, "consumed %d of %d", c8.consumed, c8.total_items);
    else if (uqueue_length(&c8.q) != 0)
        sim_violation(V_QUEUE_LENGTH, "queue empty but uqueue_length() = %u",
                      uqueue_length(&c8.q));
    else if (uqueue_pop(&c8.q, void *) != NULL)
        sim_violation(V_QUEUE_CONTENT, "element left in the queue after all were consumed");
out:
    uqueue_clean(&c8.q);
    if (!sim_violation_class() && sim_fd_open_count() != 0)
        sim_violation(SIM_V_CRASH, "descriptor leak");
}


/* ============================================================ C08 dealer */
static struct {
    struct udeal deal;
    const struct sim_plan *plan;
    int ncont;
    int in_cs;                  /* holders inside the critical section */
    int entered[4], wanted[4], aborted[4];
    struct upump *pump[4];
    bool waiting[4];            /* started, callback has not got in yet */
    int cs_points[4];
} dl;

static void dl_cb(struct upump *upump)
{
    int me = (int)(intptr_t)upump->opaque;
    if (!udeal_grab(&dl.deal)) {
        SIM_PROBE("c08_deal_grab_refused");
        return;
    }
    if (++dl.in_cs > 1)
        sim_violation(V_DEAL_EXCLUSION, "contender %d entered while another holds the resource", me);
    sim_ev("deal_in", (uint64_t)me, 0);
    for (int i = 0; i < dl.cs_points[me]; i++)
        sim_point(SIM_PT_USER, NULL);
    dl.in_cs--;
    sim_ev("deal_out", (uint64_t)me, 0);
    dl.waiting[me] = false;
    dl.entered[me]++;
    udeal_yield(&dl.deal, upump);
}

static void dl_task(void *arg)
{
    int me = (int)(intptr_t)arg;
    const struct sim_plan *plan = dl.plan;
    struct upump_mgr *mgr = upump_sim_mgr_alloc(0, 0);
    upump_sim_mgr_set_faults(mgr, (uint32_t)((uint64_t)plan->cfg[CFG_SPURIOUS] % 512), 0);
    struct upump *upump = udeal_upump_alloc(&dl.deal, mgr, dl_cb, (void *)(intptr_t)me, NULL);
    dl.pump[me] = upump;
    for (int i = 0; i < plan->nops && !sim_violation_class(); i++) {
        const struct sim_op *op = &plan->ops[i];
        if (op->task != me)
            continue;
        if (op->code != OP_DEAL_ENTER && op->code != OP_DEAL_ABORT)
            continue;
        dl.cs_points[me] = 1 + (int)((uint64_t)op->a[0] % 3);
        dl.waiting[me] = true;
        dl.wanted[me]++;
        udeal_start(&dl.deal, upump);
        if (dl.waiting[me] && op->code == OP_DEAL_ABORT) {
            /* gives up before its callback could get in */
            dl.waiting[me] = false;
            dl.wanted[me]--;
            dl.aborted[me]++;
            SIM_PROBE("c08_deal_aborted");
            udeal_abort(&dl.deal, upump);
            continue;
        }
        /* back to the event loop until the callback got in (it stops the
         * watcher itself, the loop then has nothing left to wait for) */
        upump_mgr_run(mgr, NULL);
    }
    upump_free(upump);
    upump_mgr_release(mgr);
}

static void gen_c08_deal(struct sim_rng *r, struct sim_plan *p)
{
    p->cfg[CFG_KIND] = 1;       /* dealer scenario */
    int n = 2 + (int)sim_rng_below(r, 2);
    p->cfg[CFG_NTASKS] = n;
    p->cfg[CFG_EINTR] = sim_rng_chance(r, 1, 3) ? 20 + sim_rng_below(r, 100) : 0;
    p->cfg[CFG_SPURIOUS] = sim_rng_chance(r, 1, 3) ? 20 + sim_rng_below(r, 100) : 0;
    for (int t = 0; t < n; t++) {
        int k = 1 + (int)sim_rng_below(r, 3);
        for (int i = 0; i < k; i++)
            sim_plan_add(p, t, sim_rng_chance(r, 1, 6) ? OP_DEAL_ABORT : OP_DEAL_ENTER,
                         sim_rng_below(r, 3), 0, 0, 0, 0, 0);
    }
}

static void run_c08_deal(const struct sim_plan *plan)
{
    memset(&dl, 0, sizeof(dl));
    dl.plan = plan;
    dl.ncont = 1 + (int)((uint64_t)(plan->cfg[CFG_NTASKS] - 1) % 3);
    sim_fd_set_eintr((uint32_t)((uint64_t)plan->cfg[CFG_EINTR] % 512));
    sim_set_strategy(-1, 120);
    if (!udeal_init(&dl.deal)) {
        sim_violation(SIM_V_CRASH, "udeal_init failed");
        return;
    }
    for (int t = 0; t < dl.ncont; t++)
        sim_spawn(dl_task, (void *)(intptr_t)t, "contender", 512 * 1024);
    enum sim_end end = sim_run(30000);
    if (sim_violation_class())
        return;
    if (end == SIM_END_BUDGET) {
        SIM_PROBE("c08_deal_budget_exhausted");
        return;
    }
    if (end == SIM_END_QUIESCENT) {
        int left = 0;
        for (int t = 0; t < dl.ncont; t++)
            if (dl.waiting[t])
                left++;
        sim_violation(V_DEAL_STARVED, "all contenders asleep, resource %s, %d waiter(s) "
                      "never admitted (waiters=%u access=%u)",
                      dl.in_cs ? "held" : "free", left,
                      (unsigned)dl.deal.waiters, (unsigned)dl.deal.access);
        return;
    }
    for (int t = 0; t < dl.ncont; t++)
        if (dl.entered[t] != dl.wanted[t])
            sim_violation(V_DEAL_STARVED, "contender %d entered %d times, wanted %d",
                          t, dl.entered[t], dl.wanted[t]);
    if (dl.deal.waiters != 0 || dl.deal.access != 0)
        sim_violation(V_DEAL_STARVED, "dealer not back to rest: waiters=%u access=%u",
                      (unsigned)dl.deal.waiters, (unsigned)dl.deal.access);
    udeal_clean(&dl.deal);
    if (!sim_violation_class() && sim_fd_open_count() != 0)
        sim_violation(SIM_V_CRASH, "descriptor leak");
}

/* ===================================================================== C09 */
static struct {
    struct urefcount ref;
    int outstanding;            /* references the harness knows are held */
    int destroyed;
    const struct sim_plan *plan;
    int held[4];
} c9;

static void c9_destructor(struct urefcount *r)
{
    (void)r;
    sim_ev("destructor", (uint64_t)c9.outstanding, 0);
    if (c9.destroyed)
        sim_violation(V_REF_TWICE, "destructor ran twice");
    else if (c9.outstanding != 0)
        sim_violation(V_REF_EARLY, "destructor ran with %d reference(s) outstanding",
                      c9.outstanding);
    c9.destroyed++;
}

static void c9_task(void *arg)
{
    int me = (int)(intptr_t)arg;
    const struct sim_plan *plan = c9.plan;
    for (int i = 0; i < plan->nops && c9.held[me] > 0; i++) {
        const struct sim_op *op = &plan->ops[i];
        if (op->task != me)
            continue;
        if (sim_violation_class())
            return;
        if (c9.destroyed) {
            sim_violation(V_REF_AFTER, "t%d holds %d reference(s) to a destroyed object",
                          me, c9.held[me]);
            return;
        }
        if (op->code == OP_USE) {
            /* the harness count moves first on use, last on release: it is
             * therefore never below the true number of references */
            c9.outstanding++;
            c9.held[me]++;
            urefcount_use(&c9.ref);
            sim_ev("use", (uint64_t)me, 0);
        } else if (op->code == OP_RELEASE) {
            c9.held[me]--;
            c9.outstanding--;
            sim_ev("release", (uint64_t)me, 0);
            urefcount_release(&c9.ref);
        }
    }
    /* let go of whatever is left */
    while (c9.held[me] > 0 && !sim_violation_class()) {
        if (c9.destroyed) {
            sim_violation(V_REF_AFTER, "t%d holds %d reference(s) to a destroyed object",
                          me, c9.held[me]);
            return;
        }
        c9.held[me]--;
        c9.outstanding--;
        sim_ev("release", (uint64_t)me, 1);
        urefcount_release(&c9.ref);
    }
}

static void gen_c09(struct sim_rng *r, struct sim_plan *p)
{
    int ntasks = 2 + (int)sim_rng_below(r, 2);
    p->cfg[CFG_NTASKS] = ntasks;
    p->cfg[CFG_GRANT] = sim_rng_below(r, 1u << 6);   /* 2 bits per task: 1..2 refs */
    for (int t = 0; t < ntasks; t++) {
        int n = 1 + (int)sim_rng_below(r, 5);
        for (int i = 0; i < n; i++)
            sim_plan_add(p, t, sim_rng_chance(r, 2, 5) ? OP_USE : OP_RELEASE,
                         0, 0, 0, 0, 0, 0);
    }
}

static void run_c09(const struct sim_plan *plan)
{
    memset(&c9, 0, sizeof(c9));
    c9.plan = plan;
    int ntasks = 1 + (int)((uint64_t)(plan->cfg[CFG_NTASKS] - 1) % 3);
    sim_set_strategy(-1, 30);
    urefcount_init(&c9.ref, c9_destructor);
    /* the creator's reference is handed to task 0; further references are
     * granted before the concurrent phase */
    for (int t = 0; t < ntasks; t++) {
        int n = 1 + (int)(((uint64_t)plan->cfg[CFG_GRANT] >> (2 * t)) & 1);
        for (int i = 0; i < n; i++) {
            if (!(t == 0 && i == 0))
                urefcount_use(&c9.ref);
            c9.held[t]++;
            c9.outstanding++;
        }
    }
    for (int t = 0; t < ntasks; t++)
        sim_spawn(c9_task, (void *)(intptr_t)t, "holder", 0);
    enum sim_end end = sim_run(5000);
    if (sim_violation_class())
        return;
    if (end != SIM_END_DONE) {
        SIM_PROBE("c09_budget_exhausted");
        return;
    }
    if (c9.outstanding == 0 && c9.destroyed != 1)
        sim_violation(V_REF_NEVER, "all references released, destructor ran %d times",
                      c9.destroyed);
    urefcount_clean(&c9.ref);
}


/* ===================================================== C09, memory areas */
static struct {
    const struct sim_plan *plan;
    struct ubuf_mgr *mgr;
    struct umem_mgr *umem;
    struct ubuf *h[4][8];
    int nh[4];
    int outstanding;            /* handles the harness knows are alive */
    int area_freed;
} c9b;

static void c9b_free_observer(void)
{
    sim_ev("umem_free", (uint64_t)c9b.outstanding, 0);
    if (c9b.area_freed)
        sim_violation(V_REF_TWICE, "memory area returned to its allocator twice");
    else if (c9b.outstanding != 0)
        sim_violation(V_REF_EARLY, "memory area returned to its allocator while %d buffer(s) still use it",
                      c9b.outstanding);
    c9b.area_freed++;
}

static void c9b_task(void *arg)
{
    int me = (int)(intptr_t)arg;
    const struct sim_plan *plan = c9b.plan;
    for (int i = 0; i < plan->nops && !sim_violation_class(); i++) {
        const struct sim_op *op = &plan->ops[i];
        if (op->task != me || c9b.nh[me] == 0)
            continue;
        int k = (int)((uint64_t)op->a[0] % (uint64_t)c9b.nh[me]);
        if (c9b.area_freed) {
            sim_violation(V_REF_AFTER, "t%d still holds %d buffer(s) on a freed area", me, c9b.nh[me]);
            return;
        }
        switch (op->code) {
        case OP_BDUP:
        case OP_BSPLICE: {
            if (c9b.nh[me] >= 8)
                break;
            /* counted before the call: never below the true number */
            c9b.outstanding++;
            struct ubuf *u = op->code == OP_BDUP ? ubuf_dup(c9b.h[me][k])
                             : ubuf_block_splice(c9b.h[me][k], (int)((uint64_t)op->a[1] % 8), 4);
            sim_ev("dup", (uint64_t)me, u != NULL);
            if (u == NULL) {
                c9b.outstanding--;
                break;
            }
            c9b.h[me][c9b.nh[me]++] = u;
            break;
        }
        case OP_BFREE: {
            struct ubuf *u = c9b.h[me][k];
            c9b.h[me][k] = c9b.h[me][--c9b.nh[me]];
            c9b.outstanding--;
            sim_ev("free", (uint64_t)me, 0);
            ubuf_free(u);
            break;
        }
        }
    }
    while (c9b.nh[me] > 0 && !sim_violation_class()) {
        if (c9b.area_freed) {
            sim_violation(V_REF_AFTER, "t%d still holds %d buffer(s) on a freed area", me, c9b.nh[me]);
            return;
        }
        struct ubuf *u = c9b.h[me][--c9b.nh[me]];
        c9b.outstanding--;
        sim_ev("free", (uint64_t)me, 1);
        ubuf_free(u);
    }
}

static void gen_c09b(struct sim_rng *r, struct sim_plan *p)
{
    p->cfg[CFG_KIND] = 1;
    int ntasks = 2 + (int)sim_rng_below(r, 2);
    p->cfg[CFG_NTASKS] = ntasks;
    p->cfg[CFG_GRANT] = sim_rng_below(r, 1u << 6);
    p->cfg[CFG_CAP] = sim_rng_below(r, 3);          /* pool depth selector */
    for (int t = 0; t < ntasks; t++) {
        int n = 1 + (int)sim_rng_below(r, 4);
        for (int i = 0; i < n; i++) {
            uint32_t c = sim_rng_below(r, 10);
            sim_plan_add(p, t, c < 2 ? OP_BDUP : c < 4 ? OP_BSPLICE : OP_BFREE,
                         sim_rng_below(r, 8), sim_rng_below(r, 8), 0, 0, 0, 0);
        }
    }
}

static void run_c09b(const struct sim_plan *plan)
{
    memset(&c9b, 0, sizeof(c9b));
    c9b.plan = plan;
    int ntasks = 1 + (int)((uint64_t)(plan->cfg[CFG_NTASKS] - 1) % 3);
    static const uint16_t depth[] = { 0, 2, 8 };
    uint16_t d = depth[(uint64_t)plan->cfg[CFG_CAP] % 3];
    sim_set_strategy(-1, 80);
    sim_alloc_reset();
    c9b.umem = umem_sim_mgr_alloc(0);
    c9b.mgr = ubuf_block_mem_mgr_alloc(d, d, c9b.umem, 0, 0, 0, 0);
    struct ubuf *first = ubuf_block_alloc(c9b.mgr, 16);
    umem_sim_free_observer = c9b_free_observer;
    /* every holder starts with 1-2 buffers on the same memory area */
    for (int t = 0; t < ntasks; t++) {
        int n = 1 + (int)(((uint64_t)plan->cfg[CFG_GRANT] >> (2 * t)) & 1);
        for (int i = 0; i < n; i++) {
            c9b.h[t][c9b.nh[t]++] = (t == 0 && i == 0) ? first : ubuf_dup(first);
            c9b.outstanding++;
        }
    }
    for (int t = 0; t < ntasks; t++)
        sim_spawn(c9b_task, (void *)(intptr_t)t, "holder", 512 * 1024);
    enum sim_end end = sim_run(20000);
    umem_sim_free_observer = NULL;
    if (sim_violation_class())
        return;
    if (end != SIM_END_DONE) {
        SIM_PROBE("c09_budget_exhausted");
        return;
    }
    if (c9b.outstanding == 0 && c9b.area_freed != 1)
        sim_violation(V_REF_NEVER, "every buffer freed, memory area returned %d times", c9b.area_freed);
    else if (umem_sim_live() != 0)
        sim_violation(V_REF_NEVER, "%u memory area(s) still allocated", umem_sim_live());
    ubuf_mgr_vacuum(c9b.mgr);
    if (!sim_violation_class() && !urefcount_single(c9b.mgr->refcount))
        sim_violation(V_REF_NEVER, "buffer manager not back to a single reference");
    ubuf_mgr_release(c9b.mgr);
    umem_mgr_release(c9b.umem);
    if (!sim_violation_class() && sim_alloc_live() != 0)
        sim_violation(V_REF_NEVER, "%u structure(s) left allocated", sim_alloc_live());
}

/* ================================================================== engine */
static void gen(const char *prop, struct sim_rng *r, struct sim_plan *p)
{
    if (!strcmp(prop, "C07")) gen_c07(r, p);
    else if (!strcmp(prop, "C08")) {
        if (sim_rng_chance(r, 1, 3)) gen_c08_deal(r, p);
        else gen_c08(r, p);
    }
    else if (sim_rng_chance(r, 1, 2)) gen_c09b(r, p);
    else gen_c09(r, p);
}

static void run(const char *prop, const struct sim_plan *plan)
{
    if (!strcmp(prop, "C07")) run_c07(plan);
    else if (!strcmp(prop, "C08")) {
        if (plan->cfg[CFG_KIND] == 1) run_c08_deal(plan);
        else run_c08(plan);
    }
    else if (plan->cfg[CFG_KIND] == 1) run_c09b(plan);
    else run_c09(plan);
}

static const char *const props[] = { "C07", "C08", "C09", NULL };
const struct sim_engine sim_engine = {
    .name = "estruct", .props = props, .gen = gen, .run = run,
    .class_name = class_name, .op_name = op_name,
};

int main(int argc, char **argv) { return sim_main(argc, argv); }
