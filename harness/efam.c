/*
 * E-fam: the lifecycle clauses of C01 and C04 over the pipe families built on
 * upipe_helper_subpipe - a super-pipe and the sub-pipes allocated from it
 * (inputs of a joiner, outputs of a splitter, or pass-through lanes sharing
 * state): dup, even, play, trickplay, dejitter, audiocont, videocont,
 * audio_merge, audio_split, grid, blit, sync, subpic_schedule,
 * stream_switcher.
 *
 * One run = one family, up to five sub-pipes allocated, fed, re-plumbed and
 * released in a seeded order, the super-pipe released before, between or
 * after them, the event loop run and the clock moved in between, allocation
 * failures inside control commands.
 *
 * Oracles (no model of any family): every pipe of the family throws ready
 * first and once, dead exactly once, last, and not while the application
 * still holds its reference; the super-pipe outlives its sub-pipes;
 * upipe_sub_get_super / upipe_iterate_sub tell the truth; nothing reaches a
 * sink that did not accept a flow definition, nothing after dead; once every
 * handle is released and the loop ran dry everything is dead and nothing is
 * left allocated.
 */
#include "../sim/sim.h"
#include "../sim/alloc.h"
#include "../sim/upump_sim.h"

#include <upipe/ubase.h>
#include <upipe/umem.h>
#include <upipe/udict.h>
#include <upipe/udict_inline.h>
#include <upipe/uref.h>
#include <upipe/uref_std.h>
#include <upipe/uref_attr.h>
#include <upipe/uref_flow.h>
#include <upipe/uref_block.h>
#include <upipe/uref_block_flow.h>
#include <upipe/uref_clock.h>
#include <upipe/uref_pic.h>
#include <upipe/uref_pic_flow.h>
#include <upipe/uref_sound.h>
#include <upipe/uref_sound_flow.h>
#include <upipe/uref_void_flow.h>
#include <upipe/ubuf.h>
#include <upipe/ubuf_block_mem.h>
#include <upipe/ubuf_pic_mem.h>
#include <upipe/ubuf_sound_mem.h>
#include <upipe/uclock.h>
#include <upipe/uprobe.h>
#include <upipe/uprobe_upump_mgr.h>
#include <upipe/uprobe_uref_mgr.h>
#include <upipe/uprobe_ubuf_mem.h>
#include <upipe/uprobe_uclock.h>
#include <upipe/upipe.h>
#include <upipe/urequest.h>
#include <upipe/upump.h>
#include <upipe-modules/upipe_dup.h>
#include <upipe-modules/upipe_even.h>
#include <upipe-modules/upipe_play.h>
#include <upipe-modules/upipe_trickplay.h>
#include <upipe-modules/upipe_dejitter.h>
#include <upipe-modules/upipe_audiocont.h>
#include <upipe-modules/upipe_videocont.h>
#include <upipe-modules/upipe_audio_merge.h>
#include <upipe-modules/upipe_audio_split.h>
#include <upipe-modules/upipe_grid.h>
#include <upipe-modules/upipe_blit.h>
#include <upipe-modules/upipe_sync.h>
#include <upipe-modules/upipe_subpic_schedule.h>
#include <upipe-modules/upipe_stream_switcher.h>

#include <stdlib.h>
#include <string.h>
#include <inttypes.h>
#include <setjmp.h>

enum {
    V_READY_ORDER = 1,
    V_DEAD,
    V_AFTER_DEAD,
    V_NO_FLOW_DEF,
    V_LEAK,
    V_REFCOUNT,
    V_DEAD_EARLY,           /* a pipe destroyed while the application holds its reference */
    V_SUPER_FIRST,          /* the super-pipe died before one of its sub-pipes */
    V_STRUCTURE,            /* sub_get_super / iterate_sub do not tell the truth */
    V_ORDER,                /* a pass-through lane delivered a buffer twice or out of order */
    V_PAYLOAD,              /* a pass-through lane changed the payload */
    V_STALE_FLOW_DEF,       /* a buffer delivered under a flow definition that is no longer the pipe's current one */
};

static const char *class_name(int cls)
{
    switch (cls) {
    case V_READY_ORDER: return "ready_order";
    case V_DEAD: return "dead";
    case V_AFTER_DEAD: return "after_dead";
    case V_NO_FLOW_DEF: return "no_flow_def";
    case V_LEAK: return "leak";
    case V_REFCOUNT: return "refcount";
    case V_DEAD_EARLY: return "dead_while_referenced";
    case V_SUPER_FIRST: return "super_dead_before_sub";
    case V_STRUCTURE: return "family_structure";
    case V_ORDER: return "reordered_or_duplicated";
    case V_PAYLOAD: return "payload_changed";
    case V_STALE_FLOW_DEF: return "stale_flow_def";
    default: return NULL;
    }
}

enum {
    OP_ALLOC_SUB = 1,   /* a0 = slot (1..), a1 = variant (flow definition of a flow-allocated sub, grid: input / output) */
    OP_FLOW_DEF,        /* a0 = slot, a1 = which, a2 = extra, a5 = fault */
    OP_INPUT,           /* a0 = slot, a1 = size, a2 = dates, a3 = content, a4 = burst - 1 */
    OP_SET_OUTPUT,      /* a0 = slot, a1: 0 NULL, 1 its sink */
    OP_RELEASE,         /* a0 = slot */
    OP_RUN,             /* a0 = budget */
    OP_ADVANCE,         /* a0 = ticks */
    OP_SINK_MODE,       /* a0 = slot, a1: refuse */
    OP_STRUCTURE,       /* check sub_get_super / iterate_sub now */
    OP_ATTACH,          /* a0 = slot, a1 bit0 upump_mgr bit1 uclock */
    OP_OPTION,          /* a0 = slot, a1 = value: what the family has (trickplay rate, grid output input, ...) */
    OP__N
};
static const char *op_name(int code)
{
    static const char *const n[] = { "?", "alloc_sub", "flow_def", "input", "set_output", "release", "run", "advance",
                                     "sink_mode", "structure", "attach", "option" };
    return code > 0 && code < OP__N ? n[code] : "?";
}

enum { CFG_PROP = 0, CFG_FAM, CFG_POOL, CFG_FAULTS, CFG_SUPERDEF, CFG_END_ORDER };

enum { K_BLOCK = 0, K_PIC, K_S16, K_S32, K_F32P, K_VOID, K__N };
enum { SA_VOID = 0, SA_FLOW };
enum { SUB_VOID = 0, SUB_FLOW, SUB_GRID };
struct fam { const char *name; struct upipe_mgr *(*mgr_alloc)(void); int super_alloc, super_def, sub_alloc;
             int only_def; /* -1: any flow definition; else the only kind the family is made for (it does not validate) */
             int lanes;    /* C05: 1 = what goes into a sub-pipe comes out of it, in order, unchanged (it may be held or
                            * dropped for dates); 2 = what goes into the super-pipe comes out of every sub-pipe likewise */ };
static const struct fam fams[] = {
    { "dup", upipe_dup_mgr_alloc, SA_VOID, 0, SUB_VOID, -1, 2 },
    { "even", upipe_even_mgr_alloc, SA_VOID, 0, SUB_VOID, -1, 1 },
    { "play", upipe_play_mgr_alloc, SA_VOID, 0, SUB_VOID, -1, 1 },
    { "trickplay", upipe_trickp_mgr_alloc, SA_VOID, 0, SUB_VOID, -1, 1 },
    { "dejitter", upipe_dejitter_mgr_alloc, SA_VOID, 0, SUB_VOID, -1, 1 },
    { "audiocont", upipe_audiocont_mgr_alloc, SA_FLOW, 3, SUB_VOID, -1, 0 },
    { "videocont", upipe_videocont_mgr_alloc, SA_VOID, 0, SUB_VOID, -1, 0 },
    { "audio_merge", upipe_audio_merge_mgr_alloc, SA_FLOW, 3, SUB_VOID, 3, 0 },
    { "audio_split", upipe_audio_split_mgr_alloc, SA_VOID, 0, SUB_FLOW, -1, 0 },
    { "grid", upipe_grid_mgr_alloc, SA_VOID, 0, SUB_GRID, -1, 0 },
    { "blit", upipe_blit_mgr_alloc, SA_VOID, 0, SUB_VOID, -1, 0 },
    { "sync", upipe_sync_mgr_alloc, SA_VOID, 0, SUB_VOID, -1, 0 },
    { "subpic_schedule", upipe_subpic_schedule_mgr_alloc, SA_VOID, 0, SUB_VOID, -1, 0 },
    { "stream_switcher", upipe_stream_switcher_mgr_alloc, SA_VOID, 0, SUB_VOID, -1, 0 },
};
#define NFAMS (int)(sizeof(fams) / sizeof(fams[0]))

static const struct sim_plan *plan;
static int fam;
static struct umem_mgr *umem;
static struct udict_mgr *udict_mgr;
static struct uref_mgr *uref_mgr;
static struct ubuf_mgr *ubuf_mgr;
static struct ubuf_mgr *kind_mgr[K__N];
static struct upump_mgr *upump_mgr;
static struct uclock *uclock;
static bool fault_fired, provider_failed, suppressed;
static jmp_buf run_abort;

static bool checking(void) { return !sim_violation_class() && !suppressed; }

/* --------------------------------------------------------------- the family */
#define MAXSLOT 6              /* 0 = the super-pipe */
static struct slot {
    struct uprobe uprobe;
    struct urefcount refcount;
    struct upipe *handle;       /* the application's reference (NULL once released) */
    struct upipe *id;           /* who it is, also after release */
    bool allocated, first_seen, grid_out;
    unsigned ready, dead, events;
    int kind;                   /* of the flow definition accepted last */
    bool flow_def_accepted, has_output, dated;
    uint64_t seq, datemode, t0;
} slots[MAXSLOT];

static struct sink {
    struct upipe upipe;
    struct urefcount refcount;
    bool refuse, accepted, plugged;
    unsigned inputs, flow_defs;
    bool any;
    uint64_t last_seq;
    uint64_t fd_hash;           /* of the flow definition accepted last */
} sinks[MAXSLOT];

static uint64_t dict_hash(struct uref *uref)
{
    uint64_t h = 7;
    if (uref == NULL || uref->udict == NULL)
        return h;
    const char *name = NULL;
    enum udict_type t = UDICT_TYPE_END;
    while (ubase_check(udict_iterate(uref->udict, &name, &t)) && t != UDICT_TYPE_END) {
        const uint8_t *v = NULL;
        size_t size = 0;
        uint64_t e = sim_mix((uint64_t)t, 99);
        if (name != NULL)
            for (const char *c = name; *c; c++)
                e = sim_mix(e, (uint64_t)(uint8_t)*c);
        if (ubase_check(udict_get(uref->udict, name, t, &size, &v)) && v != NULL)
            for (size_t i = 0; i < size; i++)
                e = sim_mix(e, v[i]);
        h += e;
    }
    return h;
}

/* what went in (block payloads only) */
#define MAXSEQ 128
static struct { uint64_t hash; unsigned size; bool block; } sent_rec[MAXSLOT][MAXSEQ];
static uint64_t payload_hash(struct uref *uref, unsigned *size_p)
{
    size_t size = 0;
    uint64_t h = 1469598103934665603ULL;
    *size_p = 0;
    if (uref->ubuf == NULL || !ubase_check(uref_block_size(uref, &size)))
        return 0;
    uint8_t buf[256];
    if (size > sizeof(buf))
        size = sizeof(buf);
    if (size && ubase_check(uref_block_extract(uref, 0, (int)size, buf)))
        for (size_t i = 0; i < size; i++)
            h = (h ^ buf[i]) * 1099511628211ULL;
    *size_p = (unsigned)size;
    return h;
}

static struct uprobe root;
static struct urefcount root_refcount;
static struct uprobe *chain;
static unsigned all_events;

static void noop_free(struct urefcount *r) { (void)r; }

static const char *slot_name(int i)
{
    static char buf[4][40];
    static int flip;
    flip = (flip + 1) % 4;
    if (i == 0)
        snprintf(buf[flip], sizeof(buf[flip]), "%s (super-pipe)", fams[fam].name);
    else
        snprintf(buf[flip], sizeof(buf[flip]), "%s sub-pipe %d", fams[fam].name, i);
    return buf[flip];
}

static int root_catch(struct uprobe *uprobe, struct upipe *upipe, int event, va_list args)
{
    (void)uprobe; (void)upipe;
    if (event == UPROBE_LOG && sim_verbose) {
        va_list copy;
        va_copy(copy, args);
        struct ulog *ulog = va_arg(copy, struct ulog *);
        char msg[200];
        ulog_msg_print(ulog, msg, sizeof(msg));
        if (ulog->level >= UPROBE_LOG_DEBUG)
            printf("        log: %s\n", msg);
        va_end(copy);
    }
    return UBASE_ERR_UNHANDLED;
}

static int slot_catch(struct uprobe *uprobe, struct upipe *upipe, int event, va_list args)
{
    struct slot *s = container_of(uprobe, struct slot, uprobe);
    int i = (int)(s - slots);
    if (event == UPROBE_LOG || upipe == NULL)
        return uprobe_throw_next(uprobe, upipe, event, args);
    for (int j = 0; j < MAXSLOT; j++)
        if (upipe == &sinks[j].upipe)
            return uprobe_throw_next(uprobe, upipe, event, args);
    if (s->id == NULL)
        s->id = upipe;          /* ready is thrown from inside the allocator */
    if (upipe != s->id)
        return uprobe_throw_next(uprobe, upipe, event, args);      /* an inner pipe: not ours to judge */
    s->events++;
    all_events++;
    sim_ev("event", (uint64_t)i, (uint64_t)event);
    if (!s->first_seen) {
        s->first_seen = true;
        if (event != UPROBE_READY && checking())
            sim_violation(V_READY_ORDER, "%s: first event is %d, not ready", slot_name(i), event);
    }
    if (s->dead && checking())
        sim_violation(V_AFTER_DEAD, "%s throws event %d after dead", slot_name(i), event);
    switch (event) {
    case UPROBE_READY:
        s->ready++;
        if (s->ready > 1 && checking())
            sim_violation(V_READY_ORDER, "%s throws ready %u times", slot_name(i), s->ready);
        break;
    case UPROBE_DEAD:
        s->dead++;
        if (s->dead > 1 && checking())
            sim_violation(V_DEAD, "%s throws dead %u times", slot_name(i), s->dead);
        if (s->handle != NULL) {
            if (checking())
                sim_violation(V_DEAD_EARLY, "%s destroyed while the application still holds a reference", slot_name(i));
            s->handle = NULL;
            /* the library is running inside a freed pipe: leave the run */
            longjmp(run_abort, 1);
        }
        if (i == 0 && checking())
            for (int j = 1; j < MAXSLOT; j++)
                if (slots[j].allocated && !slots[j].dead) {
                    sim_violation(V_SUPER_FIRST, "%s died while its sub-pipe %d is still alive", slot_name(0), j);
                    break;
                }
        break;
    default:
        break;
    }
    return uprobe_throw_next(uprobe, upipe, event, args);
}

static void sink_input(struct upipe *upipe, struct uref *uref, struct upump **upump_p)
{
    struct sink *k = container_of(upipe, struct sink, upipe);
    int i = (int)(k - sinks);
    (void)upump_p;
    k->inputs++;
    sim_ev("sink_input", (uint64_t)i, 0);
    if (checking()) {
        if (slots[i].dead)
            sim_violation(V_AFTER_DEAD, "%s sends a buffer to its output after dead", slot_name(i));
        else if (!k->accepted)
            sim_violation(V_NO_FLOW_DEF, "%s sends a buffer to an output that %s", slot_name(i),
                          k->refuse ? "refused its flow definition" : "was given no flow definition");
    }
    /* the definition this output accepted is still the one the pipe calls its
     * current one (C04: again after every change of flow definition) */
    if (checking() && k->accepted && !slots[i].dead && slots[i].id != NULL && !fault_fired) {
        struct uref *cur = NULL;
        if (ubase_check(upipe_get_flow_def(slots[i].id, &cur)) && cur != NULL && dict_hash(cur) != k->fd_hash)
            sim_violation(V_STALE_FLOW_DEF, "%s delivers a buffer although its current flow definition (get_flow_def) is not the one "
                          "its output accepted last: a change was not announced", slot_name(i));
    }
    uint64_t sq = 0;
    int src = fams[fam].lanes == 2 ? 0 : i;
    if (fams[fam].lanes && plan->cfg[CFG_PROP] == 5 && checking() && !fault_fired &&
        ubase_check(uref_attr_get_unsigned(uref, &sq, UDICT_TYPE_UNSIGNED, "x.seq")) && sq < MAXSEQ) {
        if (k->any && sq <= k->last_seq)
            sim_violation(V_ORDER, "%s: buffer %" PRIu64 " comes out %s buffer %" PRIu64, slot_name(i), sq,
                          sq == k->last_seq ? "twice, like" : "after", k->last_seq);
        else if (sent_rec[src][sq].block) {
            unsigned size = 0;
            uint64_t h = payload_hash(uref, &size);
            if (size != sent_rec[src][sq].size || h != sent_rec[src][sq].hash)
                sim_violation(V_PAYLOAD, "%s: buffer %" PRIu64 " went in with %u octets and comes out with %u, or its content changed",
                              slot_name(i), sq, sent_rec[src][sq].size, size);
        }
        k->any = true;
        k->last_seq = sq;
    }
    uref_free(uref);
}

static int sink_control(struct upipe *upipe, int command, va_list args)
{
    struct sink *k = container_of(upipe, struct sink, upipe);
    int i = (int)(k - sinks);
    switch (command) {
    case UPIPE_SET_FLOW_DEF:
        if (slots[i].dead && checking())
            sim_violation(V_AFTER_DEAD, "%s sends a flow definition to its output after dead", slot_name(i));
        k->flow_defs++;
        if (k->refuse) {
            k->accepted = false;
            return UBASE_ERR_INVALID;
        }
        k->accepted = true;
        {
            va_list copy;
            va_copy(copy, args);
            k->fd_hash = dict_hash(va_arg(copy, struct uref *));
            va_end(copy);
        }
        return UBASE_ERR_NONE;
    case UPIPE_REGISTER_REQUEST: {
        struct urequest *rq = va_arg(args, struct urequest *);
        int err = upipe_throw_provide_request(upipe, rq);
        if (!ubase_check(err))
            provider_failed = true;
        return err;
    }
    case UPIPE_UNREGISTER_REQUEST:
        return UBASE_ERR_NONE;
    default:
        return UBASE_ERR_UNHANDLED;
    }
}

static struct upipe_mgr sink_mgr = {
    .refcount = NULL, .signature = 0, .upipe_input = sink_input, .upipe_control = sink_control,
};

/* ------------------------------------------------- flow definitions, buffers */
#define NTYPED 7
static bool incomplete_defs;
static struct uref *typed_def(uint64_t which, uint64_t x, int *kind_p)
{
    struct uref *fd = NULL;
    struct urational fps = { 25, 1 };
    switch (which % NTYPED) {
    case 0:
        fd = uref_pic_flow_alloc_def(uref_mgr, 1);
        if (fd != NULL) {
            uref_pic_flow_add_plane(fd, 1, 1, 1, "y8");
            uref_pic_flow_add_plane(fd, 2, 2, 1, "u8");
            uref_pic_flow_add_plane(fd, 2, 2, 1, "v8");
            uref_pic_flow_set_hsize(fd, 32);
            uref_pic_flow_set_vsize(fd, 16);
            uref_pic_flow_set_fps(fd, fps);
            if (x & 16) uref_pic_set_progressive(fd);
        }
        *kind_p = K_PIC;
        break;
    case 1:
        fd = uref_sound_flow_alloc_def(uref_mgr, "s16.", 2, 4);
        if (fd != NULL) {
            uref_sound_flow_add_plane(fd, "lr");
            uref_sound_flow_set_rate(fd, 48000);
        }
        *kind_p = K_S16;
        break;
    case 2:
        fd = uref_sound_flow_alloc_def(uref_mgr, "s32.", 2, 8);
        if (fd != NULL) {
            uref_sound_flow_add_plane(fd, "lr");
            uref_sound_flow_set_rate(fd, 48000);
        }
        *kind_p = K_S32;
        break;
    case 3:
        fd = uref_sound_flow_alloc_def(uref_mgr, "f32.", 2, 4);
        if (fd != NULL) {
            uref_sound_flow_add_plane(fd, "l");
            uref_sound_flow_add_plane(fd, "r");
            uref_sound_flow_set_rate(fd, 48000);
        }
        *kind_p = K_F32P;
        break;
    case 4:
        fd = uref_void_flow_alloc_def(uref_mgr);
        *kind_p = K_VOID;
        break;
    case 5:
        fd = uref_alloc(uref_mgr);
        if (fd != NULL)
            uref_flow_set_def(fd, "block.mpegts.");
        *kind_p = K_BLOCK;
        break;
    default:
        fd = uref_alloc(uref_mgr);
        if (fd != NULL)
            uref_flow_set_def(fd, "block.");
        *kind_p = K_BLOCK;
        break;
    }
    /* (one definition in four lacks what a picture or a sound needs - size, rate,
     * channels: whoever needs it has to refuse, and refuse cleanly) */
    if (fd != NULL && incomplete_defs && (x & 24) == 8) {
        unsigned w = which % NTYPED;
        if (w == 0) {
            if (x & 1) uref_pic_flow_delete_fps(fd);
            else { uref_pic_flow_delete_hsize(fd); uref_pic_flow_delete_vsize(fd); }
        } else if (w >= 1 && w <= 3) {
            if (x & 1) uref_sound_flow_delete_rate(fd);
            else uref_sound_flow_delete_channels(fd);
        }
    }
    if (fd != NULL) {
        if (x & 1) uref_clock_set_latency(fd, x * 1000 % 27000000);
        if (x & 2) uref_flow_set_id(fd, x % 100);
        if (x & 4) uref_block_flow_set_octetrate(fd, 1000 + x % 100000);
    }
    return fd;
}

static struct uref *typed_buffer(int kind, unsigned size, uint64_t content)
{
    struct uref *uref = NULL;
    if (kind == K_VOID)
        return uref_alloc(uref_mgr);
    if (kind == K_BLOCK) {
        uref = uref_block_alloc(uref_mgr, ubuf_mgr, (int)size);
        uint8_t *w;
        int s = -1;
        if (uref != NULL && size && ubase_check(uref_block_write(uref, 0, &s, &w))) {
            for (int i = 0; i < s; i++)
                w[i] = (uint8_t)(content * 31 + (uint64_t)i * 7);
            uref_block_unmap(uref, 0);
        }
        return uref;
    }
    if (kind == K_PIC) {
        uref = uref_pic_alloc(uref_mgr, kind_mgr[K_PIC], 32, 16);
        static const char *const planes[] = { "y8", "u8", "v8" };
        for (int p = 0; uref != NULL && p < 3; p++) {
            uint8_t *w;
            size_t stride = 0;
            uint8_t hsub = 1, vsub = 1;
            if (!ubase_check(uref_pic_plane_size(uref, planes[p], &stride, &hsub, &vsub, NULL)) ||
                !ubase_check(uref_pic_plane_write(uref, planes[p], 0, 0, -1, -1, &w)))
                continue;
            for (int y = 0; y < 16 / vsub; y++)
                for (int x = 0; x < 32 / hsub; x++)
                    w[(size_t)y * stride + (size_t)x] = (uint8_t)(content * 31 + (uint64_t)(x + y * 3 + p));
            uref_pic_plane_unmap(uref, planes[p], 0, 0, -1, -1);
        }
        return uref;
    }
    int samples = 1 + (int)(size % 96);
    uref = uref_sound_alloc(uref_mgr, kind_mgr[kind], samples);
    const char *const *planes = kind == K_F32P ? (const char *const []){ "l", "r", NULL }
                                               : (const char *const []){ "lr", NULL };
    size_t bytes = (size_t)samples * (kind == K_S32 ? 8 : 4);
    for (int p = 0; uref != NULL && planes[p] != NULL; p++) {
        uint8_t *w;
        if (!ubase_check(uref_sound_plane_write_uint8_t(uref, planes[p], 0, -1, &w)))
            continue;
        for (size_t i = 0; i < bytes; i++)
            w[i] = (uint8_t)(content * 13 + i + (size_t)p);
        uref_sound_plane_unmap(uref, planes[p], 0, -1);
    }
    return uref;
}

/* ------------------------------------------------------------ environment */
static void env_setup(void)
{
    static const uint16_t depth[] = { 0, 0, 1, 2, 8 };
    int pool = (int)((uint64_t)plan->cfg[CFG_POOL] % 5);
    sim_alloc_reset();
    static const char *const allow[] = { "uref_std_alloc_inner", "ubuf_block_mem_alloc_inner",
                                         "ubuf_mem_shared_alloc_inner", NULL };
    sim_alloc_set_allow_list(allow);
    umem = umem_sim_mgr_alloc(0);
    /* half of the runs: a dictionary storage that every attribute makes grow (growth can then fail) */
    bool small_dicts = ((uint64_t)plan->cfg[CFG_POOL] % 10) >= 5;
    udict_mgr = udict_inline_mgr_alloc(depth[pool], umem, small_dicts ? 1 : -1, small_dicts ? 1 : -1);
    uref_mgr = uref_std_mgr_alloc(depth[pool], udict_mgr, 0);
    ubuf_mgr = ubuf_block_mem_mgr_alloc(depth[pool], depth[pool], umem, 0, 0, 0, 0);
    memset(kind_mgr, 0, sizeof(kind_mgr));
    kind_mgr[K_PIC] = ubuf_pic_mem_mgr_alloc(depth[pool], depth[pool], umem, 1, 0, 0, 0, 0, 16, 0);
    ubuf_pic_mem_mgr_add_plane(kind_mgr[K_PIC], "y8", 1, 1, 1);
    ubuf_pic_mem_mgr_add_plane(kind_mgr[K_PIC], "u8", 2, 2, 1);
    ubuf_pic_mem_mgr_add_plane(kind_mgr[K_PIC], "v8", 2, 2, 1);
    kind_mgr[K_S16] = ubuf_sound_mem_mgr_alloc(depth[pool], depth[pool], umem, 4, 16);
    ubuf_sound_mem_mgr_add_plane(kind_mgr[K_S16], "lr");
    kind_mgr[K_S32] = ubuf_sound_mem_mgr_alloc(depth[pool], depth[pool], umem, 8, 16);
    ubuf_sound_mem_mgr_add_plane(kind_mgr[K_S32], "lr");
    kind_mgr[K_F32P] = ubuf_sound_mem_mgr_alloc(depth[pool], depth[pool], umem, 4, 16);
    ubuf_sound_mem_mgr_add_plane(kind_mgr[K_F32P], "l");
    ubuf_sound_mem_mgr_add_plane(kind_mgr[K_F32P], "r");
    upump_mgr = upump_sim_mgr_alloc(depth[pool], depth[pool]);
    upump_sim_mgr_set_horizon(upump_mgr, UINT64_C(27000000) * 3600);   /* an hour */
    uclock = uclock_sim_alloc();
    uprobe_init(&root, root_catch, NULL);
    urefcount_init(&root_refcount, noop_free);
    root.refcount = &root_refcount;
    chain = uprobe_use(&root);
    chain = uprobe_uref_mgr_alloc(chain, uref_mgr);
    chain = uprobe_ubuf_mem_alloc(chain, umem, depth[pool], depth[pool]);
    chain = uprobe_upump_mgr_alloc(chain, upump_mgr);
    chain = uprobe_uclock_alloc(chain, uclock);
    memset(slots, 0, sizeof(slots));
    memset(sinks, 0, sizeof(sinks));
    for (int i = 0; i < MAXSLOT; i++) {
        uprobe_init(&slots[i].uprobe, slot_catch, uprobe_use(chain));
        urefcount_init(&slots[i].refcount, noop_free);
        slots[i].uprobe.refcount = &slots[i].refcount;
        upipe_init(&sinks[i].upipe, &sink_mgr, uprobe_use(chain));
        urefcount_init(&sinks[i].refcount, noop_free);
        sinks[i].upipe.refcount = &sinks[i].refcount;
    }
    fault_fired = provider_failed = suppressed = false;
    all_events = 0;
}

static void env_teardown(void)
{
    for (int i = 0; i < MAXSLOT; i++) {
        if (checking() && !urefcount_single(&sinks[i].refcount))
            sim_violation(V_LEAK, "%s: its sink is still referenced after everything was released", slot_name(i));
        upipe_clean(&sinks[i].upipe);
        if (checking() && !urefcount_single(&slots[i].refcount))
            sim_violation(V_REFCOUNT, "%s: its probe is still referenced after everything was released", slot_name(i));
        uprobe_clean(&slots[i].uprobe);
    }
    uprobe_release(chain);
    uref_mgr_vacuum(uref_mgr);
    udict_mgr_vacuum(udict_mgr);
    ubuf_mgr_vacuum(ubuf_mgr);
    upump_mgr_vacuum(upump_mgr);
    for (int k = 0; k < K__N; k++)
        if (kind_mgr[k] != NULL) {
            ubuf_mgr_vacuum(kind_mgr[k]);
            if (checking() && !urefcount_single(kind_mgr[k]->refcount))
                sim_violation(V_REFCOUNT, "%s: a picture / sound buffer is still alive", fams[fam].name);
            ubuf_mgr_release(kind_mgr[k]);
        }
    if (checking()) {
        if (!urefcount_single(&root_refcount))
            sim_violation(V_REFCOUNT, "%s: the probe chain is still referenced after everything was released", fams[fam].name);
        else if (upump_sim_mgr_live_pumps(upump_mgr) != 0)
            sim_violation(V_LEAK, "%s: %u pump(s) left in the event loop", fams[fam].name, upump_sim_mgr_live_pumps(upump_mgr));
        else if (!urefcount_single(uref_mgr->refcount))
            sim_violation(V_REFCOUNT, "%s: a uref is still alive (uref manager not back to one reference)", fams[fam].name);
        else if (!urefcount_single(ubuf_mgr->refcount))
            sim_violation(V_REFCOUNT, "%s: a buffer is still alive (ubuf manager not back to one reference)", fams[fam].name);
        else if (!urefcount_single(upump_mgr->refcount))
            sim_violation(V_REFCOUNT, "%s: the upump manager is still referenced", fams[fam].name);
        else if (!urefcount_single(uclock->refcount))
            sim_violation(V_REFCOUNT, "%s: the clock is still referenced", fams[fam].name);
    }
    uclock_release(uclock);
    upump_mgr_release(upump_mgr);
    uref_mgr_release(uref_mgr);
    ubuf_mgr_release(ubuf_mgr);
    udict_mgr_release(udict_mgr);
    if (checking() && umem_sim_live() != 0)
        sim_violation(V_LEAK, "%s: %u memory area(s) left", fams[fam].name, umem_sim_live());
    umem_mgr_release(umem);
    if (checking() && sim_alloc_live() != 0) {
        char buf[160];
        sim_alloc_describe_live(buf, sizeof(buf));
        sim_violation(V_LEAK, "%s: %u allocation(s) left after releasing everything: %s", fams[fam].name,
                      sim_alloc_live(), buf);
    }
    if (checking() && sim_fd_open_count() != 0)
        sim_violation(V_LEAK, "%s: %d descriptor(s) left open", fams[fam].name, sim_fd_open_count());
}

/* families that use an allocation result untested in a control path (an assert
 * or a NULL dereference, no error path: DESIGN.md 2.3) run without failures */
static bool faults_allowed(void)
{
    static const char *const no_error_path[] = { "audio_merge", "blit", "sync", NULL };
    for (int i = 0; no_error_path[i] != NULL; i++)
        if (!strcmp(fams[fam].name, no_error_path[i]))
            return false;
    return ((uint64_t)plan->cfg[CFG_FAULTS] & 1) != 0;
}
static void arm(const struct sim_op *op)
{
    int f = (int)((uint64_t)op->a[5] % 6);
    if (f && faults_allowed())
        sim_alloc_arm(f);
}
static void disarm(const struct sim_op *op)
{
    int f = (int)((uint64_t)op->a[5] % 6);
    if (sim_alloc_disarm() == 0 && f && faults_allowed()) {
        fault_fired = true;
        provider_failed = true;
        SIM_PROBE("fault_alloc_in_operation");
    }
}

/* ---------------------------------------------------------------- structure */
static void check_structure(void)
{
    if (!checking() || slots[0].handle == NULL)
        return;
    struct upipe *super = slots[0].handle;
    for (int i = 1; i < MAXSLOT; i++) {
        if (slots[i].handle == NULL)
            continue;
        struct upipe *p = NULL;
        int err = upipe_sub_get_super(slots[i].handle, &p);
        if (ubase_check(err) && p != super) {
            sim_violation(V_STRUCTURE, "%s: sub_get_super does not return the super-pipe it was allocated from", slot_name(i));
            return;
        }
    }
    if (fams[fam].sub_alloc == SUB_GRID)
        return;                 /* (two lists of sub-pipes behind one command) */
    struct upipe *sub = NULL;
    unsigned listed = 0, expected = 0;
    bool seen[MAXSLOT] = { false };
    for (int guard = 0; guard < 32; guard++) {
        int err = upipe_iterate_sub(super, &sub);
        if (!ubase_check(err))
            return;             /* (the family does not list its sub-pipes) */
        if (sub == NULL)
            break;
        listed++;
        bool known = false;
        for (int i = 1; i < MAXSLOT; i++)
            if (slots[i].allocated && !slots[i].dead && slots[i].id == sub) {
                if (seen[i]) {
                    sim_violation(V_STRUCTURE, "%s is listed twice by iterate_sub", slot_name(i));
                    return;
                }
                seen[i] = known = true;
            }
        if (!known) {
            sim_violation(V_STRUCTURE, "%s: iterate_sub lists a pipe that is not one of its live sub-pipes", slot_name(0));
            return;
        }
    }
    for (int i = 1; i < MAXSLOT; i++)
        if (slots[i].allocated && !slots[i].dead && slots[i].id != NULL)
            expected++;
    if (listed != expected)
        sim_violation(V_STRUCTURE, "%s: iterate_sub lists %u sub-pipe(s), %u are alive", slot_name(0), listed, expected);
    else
        SIM_PROBE("fam_structure_checked");
}

/* --------------------------------------------------------------------- ops */
static void do_op(const struct sim_op *op)
{
    int i = (int)((uint64_t)op->a[0] % MAXSLOT);
    sim_ev(op_name(op->code), (uint64_t)op->a[0], (uint64_t)op->a[1]);
    struct slot *s = &slots[i];
    switch (op->code) {
    case OP_ALLOC_SUB: {
        if (i == 0 || s->allocated || slots[0].handle == NULL)
            break;
        struct upipe *super = slots[0].handle, *sub = NULL;
        arm(op);
        if (fams[fam].sub_alloc == SUB_GRID) {
            s->grid_out = ((uint64_t)op->a[1] & 1) != 0;
            sub = s->grid_out ? upipe_grid_alloc_output(super, uprobe_use(&s->uprobe))
                              : upipe_grid_alloc_input(super, uprobe_use(&s->uprobe));
        } else if (fams[fam].sub_alloc == SUB_FLOW) {
            int kind;
            struct uref *fd = typed_def(1 + (uint64_t)op->a[1] % 3, (uint64_t)op->a[1] >> 2, &kind);
            if (fd != NULL && fam == 8) {
                /* audio_split: which channels of the input this output takes */
                uref_audio_split_set_bitfield(fd, 1 + ((uint64_t)op->a[1] >> 4) % 3);
            }
            sub = fd != NULL ? upipe_flow_alloc_sub(super, uprobe_use(&s->uprobe), fd) : NULL;
            uref_free(fd);
        } else
            sub = upipe_void_alloc_sub(super, uprobe_use(&s->uprobe));
        disarm(op);
        if (sub == NULL) {
            SIM_PROBE("fam_sub_alloc_refused");
            /* the probe reference was consumed either way; an id learnt from an
             * event of a pipe that did not survive its allocator is forgotten */
            if (s->id != NULL && !s->dead && checking() && s->ready)
                sim_violation(V_DEAD, "%s threw ready from its allocator, the allocator failed and it never threw dead", slot_name(i));
            s->id = NULL;
            s->first_seen = false;
            s->ready = s->dead = 0;
            break;
        }
        SIM_PROBE("fam_sub_allocated");
        s->allocated = true;
        s->handle = sub;
        upipe_attach_uclock(sub);
        upipe_attach_upump_mgr(sub);
        if (s->id == NULL)
            s->id = sub;
        else if (s->id != sub && checking())
            sim_violation(V_STRUCTURE, "%s: the events of its allocation came from another pipe than the one returned", slot_name(i));
        break;
    }
    case OP_FLOW_DEF: {
        if (s->handle == NULL)
            break;
        int kind = K_BLOCK;
        incomplete_defs = fams[fam].only_def < 0;
        struct uref *fd = typed_def(fams[fam].only_def >= 0 ? (uint64_t)fams[fam].only_def : (uint64_t)op->a[1],
                                    (uint64_t)op->a[2], &kind);
        incomplete_defs = false;
        if (fd == NULL)
            break;
        if (i != 0) {
            /* the continuity pipes select their input by the name of its flow */
            char fname[8];
            snprintf(fname, sizeof(fname), "in%d", i);
            uref_flow_set_name(fd, fname);
        }
        arm(op);
        int err = upipe_set_flow_def(s->handle, fd);
        disarm(op);
        uref_free(fd);
        if (ubase_check(err)) {
            s->flow_def_accepted = true;
            s->kind = kind;
            SIM_PROBE("fam_flow_def_accepted");
        } else
            SIM_PROBE("fam_flow_def_refused");
        break;
    }
    case OP_INPUT: {
        if (s->handle == NULL || !s->flow_def_accepted || s->handle->mgr->upipe_input == NULL || provider_failed)
            break;
        unsigned burst = 1 + (unsigned)((uint64_t)op->a[4] % 3);
        for (unsigned k = 0; k < burst && s->handle != NULL; k++) {
            struct uref *uref = typed_buffer(s->kind, (unsigned)((uint64_t)op->a[1] % 200), (uint64_t)op->a[3] + k);
            if (uref == NULL)
                break;
            /* one way of dating per pipe, dates that increase (what a source does) */
            if (!s->dated) {
                s->dated = true;
                s->datemode = (uint64_t)op->a[2];
                s->t0 = sim_now();
            }
            uint64_t x = (s->datemode & 15) | ((uint64_t)op->a[2] & ~(uint64_t)15);
            uint64_t t = 27000000 + s->seq * 1080000;
            if (x & 1) uref_clock_set_cr_sys(uref, s->t0 + s->seq * 1080000);
            if (x & 2) { uref_clock_set_dts_prog(uref, t); uref_clock_set_dts_pts_delay(uref, 0); }
            if (x & 4) { uref_clock_set_dts_sys(uref, s->t0 + s->seq * 1080000 + 5000); uref_clock_set_dts_pts_delay(uref, s->datemode % 9000); }
            if (x & 8) uref_clock_set_duration(uref, 1080000);
            if (x & 16) uref_flow_set_discontinuity(uref);
            if (x & 32) uref_flow_set_random(uref);
            if (x & 64) uref_clock_set_dts_orig(uref, t);
            if (x & 128) uref_pic_set_progressive(uref);
            if (s->seq < MAXSEQ) {
                uref_attr_set_unsigned(uref, s->seq, UDICT_TYPE_UNSIGNED, "x.seq");
                sent_rec[i][s->seq].block = s->kind == K_BLOCK;
                sent_rec[i][s->seq].hash = payload_hash(uref, &sent_rec[i][s->seq].size);
            }
            s->seq++;
            SIM_PROBE("fam_input");
            upipe_input(s->handle, uref, NULL);
        }
        break;
    }
    case OP_SET_OUTPUT: {
        if (s->handle == NULL)
            break;
        struct upipe *out = ((uint64_t)op->a[1] & 1) ? &sinks[i].upipe : NULL;
        if (out != NULL)
            sinks[i].accepted = false;
        arm(op);
        int err = upipe_set_output(s->handle, out);
        disarm(op);
        if (ubase_check(err))
            s->has_output = out != NULL;
        break;
    }
    case OP_RELEASE: {
        if (s->handle == NULL)
            break;
        struct upipe *p = s->handle;
        s->handle = NULL;
        SIM_PROBE(i == 0 ? "fam_super_released_in_mid_run" : "fam_sub_released_in_mid_run");
        upipe_release(p);
        break;
    }
    case OP_RUN:
        upump_sim_mgr_set_budget(upump_mgr, 1 + (uint64_t)op->a[0] % 16);
        upump_mgr_run(upump_mgr, NULL);
        break;
    case OP_ADVANCE:
        sim_advance(1 + (uint64_t)op->a[0] % 27000000);
        break;
    case OP_SINK_MODE:
        sinks[i].refuse = ((uint64_t)op->a[1] & 1) != 0;
        break;
    case OP_STRUCTURE:
        check_structure();
        break;
    case OP_ATTACH:
        if (s->handle == NULL)
            break;
        if ((uint64_t)op->a[1] & 1) upipe_attach_upump_mgr(s->handle);
        if ((uint64_t)op->a[1] & 2) upipe_attach_uclock(s->handle);
        break;
    case OP_OPTION: {
        if (s->handle == NULL)
            break;
        uint64_t v = (uint64_t)op->a[1];
        const char *name = fams[fam].name;
        char in[8];
        snprintf(in, sizeof(in), "in%d", 1 + (int)(v % (MAXSLOT - 1)));
        arm(op);
        if (!strcmp(name, "trickplay") && i == 0) {
            struct urational rate = { (int64_t)(v % 4), 1 + v % 2 };
            upipe_trickp_set_rate(s->handle, rate);
        } else if (!strcmp(name, "grid") && s->grid_out) {
            /* which input feeds this output */
            int j = 1 + (int)(v % (MAXSLOT - 1));
            struct upipe *from = slots[j].handle != NULL && !slots[j].grid_out ? slots[j].handle : NULL;
            upipe_grid_out_set_input(s->handle, from);
        } else if (!strcmp(name, "audiocont")) {
            /* which input is played: by sub-pipe, or by the name of its flow */
            if (i != 0)
                upipe_audiocont_sub_set_input(s->handle);
            else if (v & 8)
                upipe_audiocont_set_crossblend(s->handle, v * 1000);
            else if (v & 16)
                upipe_audiocont_set_latency(s->handle, v * 27000);
            else
                upipe_audiocont_set_input(s->handle, (v & 32) ? NULL : in);
        } else if (!strcmp(name, "videocont")) {
            if (i != 0)
                upipe_videocont_sub_set_input(s->handle);
            else if (v & 8)
                upipe_videocont_set_tolerance(s->handle, v * 27000);
            else if (v & 16)
                upipe_videocont_set_latency(s->handle, v * 27000);
            else
                upipe_videocont_set_input(s->handle, (v & 32) ? NULL : in);
        } else if (!strcmp(name, "blit")) {
            if (i == 0)
                upipe_blit_prepare(s->handle, NULL);
            else if ((v & 3) == 0)
                upipe_blit_sub_set_rect(s->handle, v % 8, (v >> 3) % 8, v % 4, (v >> 2) % 4);
            else if ((v & 3) == 1)
                upipe_blit_sub_set_alpha(s->handle, (int)(v % 256));
            else if ((v & 3) == 2)
                upipe_blit_sub_set_z_index(s->handle, (int)(v % 5) - 2);
            else
                upipe_blit_sub_set_alpha_threshold(s->handle, (int)(v % 256));
        } else
            upipe_flush(s->handle);
        disarm(op);
        SIM_PROBE("fam_option");
        break;
    }
    default:
        break;
    }
}

static void run(const char *pr, const struct sim_plan *pl)
{
    (void)pr;
    plan = pl;
    fam = (int)((uint64_t)plan->cfg[CFG_FAM] % NFAMS);
    if (setjmp(run_abort)) {
        sim_alloc_disarm();
        sim_mark_nontrivial();
        return;
    }
    env_setup();
    struct upipe_mgr *mgr = fams[fam].mgr_alloc();
    struct slot *s0 = &slots[0];
    if (mgr != NULL && fams[fam].super_alloc == SA_FLOW) {
        int kind;
        uint64_t which = (uint64_t)plan->cfg[CFG_SUPERDEF];
        if ((which & 8) || fams[fam].only_def >= 0)
            which = (which & ~(uint64_t)15) | (uint64_t)fams[fam].super_def;
        struct uref *fd = typed_def(which & 7, which >> 4, &kind);
        s0->handle = fd != NULL ? upipe_flow_alloc(mgr, uprobe_use(&s0->uprobe), fd) : NULL;
        uref_free(fd);
    } else if (mgr != NULL)
        s0->handle = upipe_void_alloc(mgr, uprobe_use(&s0->uprobe));
    upipe_mgr_release(mgr);
    if (s0->handle == NULL) {
        SIM_PROBE("fam_super_alloc_refused");
        s0->id = NULL;
    } else {
        s0->allocated = true;
        if (s0->id == NULL)
            s0->id = s0->handle;
        /* what an application does with pipes that use a clock or the loop
         * (upipe_sync, upipe_trickplay ... read their clock without a test) */
        upipe_attach_uclock(s0->handle);
        upipe_attach_upump_mgr(s0->handle);
        for (int i = 0; i < plan->nops && checking(); i++)
            do_op(&plan->ops[i]);
        if (checking())
            check_structure();
        /* the application lets go of everything, in one of three orders */
        int order = (int)((uint64_t)plan->cfg[CFG_END_ORDER] % 3);
        for (int pass = 0; pass < 2; pass++)
            for (int k = 0; k < MAXSLOT; k++) {
                int i = order == 0 ? k : order == 1 ? MAXSLOT - 1 - k : (k * 5 + 3) % MAXSLOT;
                if (slots[i].handle != NULL) {
                    struct upipe *p = slots[i].handle;
                    slots[i].handle = NULL;
                    upipe_release(p);
                }
            }
        upump_sim_mgr_set_budget(upump_mgr, 64);
        upump_mgr_run(upump_mgr, NULL);
        if (provider_failed) {
            /* a pipe may wait for ever for what an injected failure kept from it */
            bool all_dead = true;
            for (int i = 0; i < MAXSLOT; i++)
                if (slots[i].allocated && !slots[i].dead)
                    all_dead = false;
            if (!all_dead) {
                SIM_PROBE("fam_pipe_waits_after_provider_failure");
                suppressed = true;
            }
        }
        for (int i = 0; i < MAXSLOT && checking(); i++)
            if (slots[i].allocated && slots[i].dead != 1)
                sim_violation(V_DEAD, "%s threw dead %u times after every reference was released and the loop ran dry",
                              slot_name(i), slots[i].dead);
            else if (slots[i].allocated && slots[i].ready != 1)
                sim_violation(V_READY_ORDER, "%s threw ready %u times", slot_name(i), slots[i].ready);
    }
    env_teardown();
    sim_mark_nontrivial();
    uint64_t sig = (uint64_t)fam;
    for (int i = 0; i < MAXSLOT; i++)
        sig = sim_mix(sig, sim_mix(slots[i].events, sinks[i].inputs));
    sim_sig_add(1, sig);
}

static void gen(const char *pr, struct sim_rng *r, struct sim_plan *p)
{
    p->cfg[CFG_PROP] = atoi(pr + 1);
    p->cfg[CFG_FAM] = sim_rng_below(r, NFAMS);
    if (p->cfg[CFG_PROP] == 5) {
        /* the families with pass-through lanes */
        static const int laned[] = { 0, 1, 2, 3, 4 };
        p->cfg[CFG_FAM] = laned[sim_rng_below(r, 5)];
    }
    p->cfg[CFG_POOL] = sim_rng_below(r, 10);
    p->cfg[CFG_FAULTS] = sim_rng_chance(r, 1, 3);
    p->cfg[CFG_SUPERDEF] = sim_rng_below(r, 256);
    p->cfg[CFG_END_ORDER] = sim_rng_below(r, 3);
    int nsub = 1 + (int)sim_rng_below(r, MAXSLOT - 1);
    /* a family is usually set up before it is used */
    uint32_t def = sim_rng_below(r, NTYPED);
    if (sim_rng_chance(r, 3, 4)) {
        sim_plan_add(p, 0, OP_FLOW_DEF, 0, def, sim_rng_below(r, 32), 0, 0, 0);
        sim_plan_add(p, 0, OP_SET_OUTPUT, 0, 1, 0, 0, 0, 0);
        for (int i = 1; i <= nsub; i++) {
            sim_plan_add(p, 0, OP_ALLOC_SUB, i, sim_rng_below(r, 64), 0, 0, 0, 0);
            sim_plan_add(p, 0, OP_FLOW_DEF, i, sim_rng_chance(r, 3, 4) ? def : sim_rng_below(r, NTYPED), sim_rng_below(r, 32), 0, 0, 0);
            sim_plan_add(p, 0, OP_SET_OUTPUT, i, 1, 0, 0, 0, 0);
            if (sim_rng_chance(r, 1, 2))
                sim_plan_add(p, 0, OP_OPTION, i, sim_rng_below(r, 64), 0, 0, 0, 0);
        }
    }
    int n = 4 + (int)sim_rng_below(r, 24);
    /* families that select among their sub-pipes (continuity pipes, grid, blit):
     * selection, release and data on the super-pipe are what their state is about */
    int f_ = (int)p->cfg[CFG_FAM];
    bool selects = !strcmp(fams[f_].name, "audiocont") || !strcmp(fams[f_].name, "videocont") ||
                   !strcmp(fams[f_].name, "grid") || !strcmp(fams[f_].name, "blit");
    for (int k = 0; k < n; k++) {
        uint32_t c = sim_rng_below(r, 100);
        int slot = (int)sim_rng_below(r, (uint32_t)nsub + 1);
        if (selects && c < 30) {
            if (c < 14) sim_plan_add(p, 0, OP_OPTION, slot, sim_rng_below(r, 64), 0, 0, 0, 0);
            else if (c < 22) sim_plan_add(p, 0, OP_INPUT, 0, sim_rng_below(r, 200), sim_rng_below(r, 256), sim_rng_below(r, 64), 0, 0);
            else sim_plan_add(p, 0, OP_RELEASE, 1 + sim_rng_below(r, (uint32_t)nsub), 0, 0, 0, 0, 0);
            continue;
        }
        int64_t f = p->cfg[CFG_FAULTS] && sim_rng_chance(r, 1, 5) ? 1 + sim_rng_below(r, 5) : 0;
        if (c < 38) sim_plan_add(p, 0, OP_INPUT, slot, sim_rng_below(r, 200), sim_rng_below(r, 256), sim_rng_below(r, 64), sim_rng_below(r, 3), 0);
        else if (c < 46) sim_plan_add(p, 0, OP_FLOW_DEF, slot, sim_rng_chance(r, 1, 2) ? def : sim_rng_below(r, NTYPED), sim_rng_below(r, 32), 0, 0, f);
        else if (c < 54) sim_plan_add(p, 0, OP_ALLOC_SUB, 1 + sim_rng_below(r, MAXSLOT - 1), sim_rng_below(r, 64), 0, 0, 0, f);
        else if (c < 64) sim_plan_add(p, 0, OP_RUN, sim_rng_below(r, 16), 0, 0, 0, 0, 0);
        else if (c < 72) sim_plan_add(p, 0, OP_ADVANCE, sim_rng_below(r, 27000000), 0, 0, 0, 0, 0);
        else if (c < 79) sim_plan_add(p, 0, OP_SET_OUTPUT, slot, sim_rng_below(r, 2), 0, 0, 0, f);
        else if (c < 86) sim_plan_add(p, 0, OP_RELEASE, slot, 0, 0, 0, 0, 0);
        else if (c < 90) sim_plan_add(p, 0, OP_OPTION, slot, sim_rng_below(r, 64), 0, 0, 0, f);
        else if (c < 91) sim_plan_add(p, 0, OP_SINK_MODE, slot, sim_rng_below(r, 2), 0, 0, 0, 0);
        else if (c < 95) sim_plan_add(p, 0, OP_STRUCTURE, 0, 0, 0, 0, 0, 0);
        else if (c < 97) sim_plan_add(p, 0, OP_ATTACH, slot, sim_rng_below(r, 4), 0, 0, 0, 0);
        else sim_plan_add(p, 0, OP_OPTION, slot, sim_rng_below(r, 64), 0, 0, 0, f);
    }
}

static const char *const props[] = { "C01", "C04", "C05", NULL };
const struct sim_engine sim_engine = {
    .name = "efam", .props = props, .gen = gen, .run = run,
    .class_name = class_name, .op_name = op_name,
};

int main(int argc, char **argv) { return sim_main(argc, argv); }
