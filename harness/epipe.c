/*
 * E-pipe: the single-thread pipeline simulator.
 *   C04  ready / flow definition / data / dead ordering
 *   C05  in-thread pipes neither lose, duplicate nor reorder
 *   C01  everything freed exactly once, nothing left
 *   C20  getters report setters and change nothing
 *   C12  requests (epipe_req.c)
 * Real code: the pipes of lib/upipe-modules in the catalogue below with their
 * helpers (upipe_helper_output/input/...), uref_std, udict_inline,
 * ubuf_block_mem, upump_common. Simulated: event loop and clock, allocator
 * (failures), the application around the pipes (mock source, mock sinks that
 * accept / reject flow definitions, recording probes), and the instants at
 * which the application re-plumbs, flushes, changes options or lets go.
 */
#include "epipe.h"

#include <upipe-modules/upipe_idem.h>
#include <upipe-modules/upipe_null.h>
#include <upipe-modules/upipe_dup.h>
#include <upipe-modules/upipe_skip.h>
#include <upipe-modules/upipe_htons.h>
#include <upipe-modules/upipe_setattr.h>
#include <upipe-modules/upipe_setflowdef.h>
#include <upipe-modules/upipe_delay.h>
#include <upipe-modules/upipe_match_attr.h>
#include <upipe-modules/upipe_probe_uref.h>
#include <upipe-modules/upipe_queue_sink.h>
#include <upipe-modules/upipe_queue_source.h>

#include <stdlib.h>
#include <string.h>
#include <inttypes.h>

static const char *class_name(int cls)
{
    switch (cls) {
    case V_READY_ORDER: return "event_before_ready";
    case V_DEAD_TWICE: return "dead_not_exactly_once";
    case V_AFTER_DEAD: return "activity_after_dead";
    case V_NO_FLOW_DEF: return "data_without_current_flow_def";
    case V_DATA_AFTER_REJECT: return "data_after_rejected_flow_def";
    case V_LOSS: return "buffer_lost";
    case V_DUPLICATE: return "buffer_duplicated";
    case V_REORDER: return "buffer_reordered";
    case V_CONTENT: return "buffer_content";
    case V_SPURIOUS: return "buffer_unexpected";
    case V_LEAK: return "leak";
    case V_REFCOUNT: return "refcount_not_single";
    case V_GETTER_VALUE: return "getter_value";
    case V_GETTER_EFFECT: return "getter_side_effect";
    case V_REQ_ROUTING: return "request_routing";
    case V_REQ_ANSWER: return "request_answer";
    case V_REQ_AFTER_UNREGISTER: return "callback_after_unregister";
    case V_HELD_ORDER: return "held_buffers_order";
    case V_FATAL_UNEXPECTED: return "unexpected_fatal";
    case V_CONTROL: return "control_failed";
    }
    return NULL;
}

enum {
    OP_SET_FLOW_DEF = 1, OP_INPUT, OP_SET_OUTPUT, OP_SINK_MODE, OP_OPTION,
    OP_GETTER, OP_FLUSH, OP_RUN, OP_RELEASE, OP_ADD_SUB, OP_REQ_REGISTER,
    OP_REQ_UNREGISTER, OP_REQ_PROVIDE, OP__LAST
};

static const char *op_name(int code)
{
    static const char *n[] = { "?", "set_flow_def", "input", "set_output", "sink_mode",
        "option", "getter", "flush", "run_loop", "release", "add_sub_output",
        "register_request", "unregister_request", "provide" };
    return code >= 1 && code < OP__LAST ? n[code] : "?";
}

enum { CFG_TOPO = 0, CFG_NPIPES, CFG_TYPES /* 4 slots */, CFG_UREF_POOL = 6, CFG_UDICT_POOL,
       CFG_UBUF_POOL, CFG_QLEN, CFG_FAULTS, CFG_TEARDOWN, CFG_PROP, CFG_NSUBS, CFG_NOLOOP, CFG_REACT };
enum { TOPO_CHAIN = 0, TOPO_DUP, TOPO_QUEUE };
enum { P_C04 = 4, P_C05 = 5, P_C01 = 1, P_C20 = 20, P_C12 = 12 };

enum ptype { T_IDEM = 0, T_SKIP, T_HTONS, T_SETATTR, T_SETFLOWDEF, T_DELAY, T_MATCH,
             T_PROBE_UREF, T__CHAIN_N, T_DUP = 20, T_DUPSUB, T_QSINK, T_QSRC };

static const char *type_name(int t)
{
    switch (t) {
    case T_IDEM: return "idem"; case T_SKIP: return "skip"; case T_HTONS: return "htons";
    case T_SETATTR: return "setattr"; case T_SETFLOWDEF: return "setflowdef";
    case T_DELAY: return "delay"; case T_MATCH: return "match_attr";
    case T_PROBE_UREF: return "probe_uref"; case T_DUP: return "dup";
    case T_DUPSUB: return "dup_output"; case T_QSINK: return "qsink"; case T_QSRC: return "qsrc";
    }
    return "?";
}

/* ------------------------------------------------------------ environment */
static struct umem_mgr *umem;
static struct udict_mgr *udict_mgr;
struct uref_mgr *uref_mgr;
static struct ubuf_mgr *ubuf_mgr;
static struct upump_mgr *upump_mgr;
static uint32_t evseq;
static int prop;
bool stop_checking;      /* a fault fired inside a control command */
static bool fault_in_op;        /* a fault fired during the current operation */
static bool skip_getters;
static int react_mode;            /* what probes do when a pipe signals the end of its source */
static bool noloop;             /* queue topology without any event loop */       /* second pass of the C20 differential */
static uint64_t obs_hash;       /* hash of everything the sinks and probes saw */

/* ---- model flow definition */
struct mfd { bool set; int def; uint64_t v; bool has_sfd; uint64_t sfd; };
static const char *const defs[] = { "block.a.", "block.b.", "pic.x." };

static bool mfd_equal(const struct mfd *a, const struct mfd *b)
{
    if (!a->set || !b->set)
        return a->set == b->set;
    return a->def == b->def && a->v == b->v && a->has_sfd == b->has_sfd &&
           (!a->has_sfd || a->sfd == b->sfd);
}

static struct uref *mfd_build(const struct mfd *f)
{
    struct uref *u = uref_alloc(uref_mgr);
    if (u == NULL)
        return NULL;
    if (!ubase_check(uref_flow_set_def(u, defs[f->def])) ||
        !ubase_check(uref_attr_set_unsigned(u, f->v, UDICT_TYPE_UNSIGNED, "x.v")) ||
        (f->has_sfd && !ubase_check(uref_attr_set_unsigned(u, f->sfd, UDICT_TYPE_UNSIGNED, "x.sfd")))) {
        uref_free(u);
        return NULL;
    }
    return u;
}

static bool mfd_matches_real(const struct mfd *f, struct uref *u)
{
    if (u == NULL)
        return !f->set;
    if (!f->set)
        return false;
    const char *def = NULL;
    uint64_t v = 0, sfd = 0;
    if (!ubase_check(uref_flow_get_def(u, &def)) || strcmp(def, defs[f->def]))
        return false;
    if (!ubase_check(uref_attr_get_unsigned(u, &v, UDICT_TYPE_UNSIGNED, "x.v")) || v != f->v)
        return false;
    bool has = ubase_check(uref_attr_get_unsigned(u, &sfd, UDICT_TYPE_UNSIGNED, "x.sfd"));
    return has == f->has_sfd && (!has || sfd == f->sfd);
}

/* ---- model buffer */
#define MAXLEN 96
struct mu {
    uint64_t seq;
    int len;
    uint8_t data[MAXLEN];
    bool has_sa; uint64_t sa;
    bool has_dts; uint64_t dts;
};

/* ---- recording probe */
#define MAXP 8
#define MAXS 6
struct tprobe {
    struct uprobe uprobe;
    struct urefcount refcount;
    int id;                     /* pipe slot or 100 + sink */
    bool ready, freed;
    int ndead;
    uint32_t dead_ev;
    int nfatal;
    int drop_mod;               /* probe_uref: drop when seq % drop_mod == 0 */
};

/* ---- mock sink (harness pipe) */
struct rec { uint32_t ev; struct mu u; bool optional; struct mfd fd; };
#define MAXREC 256
enum { SINK_ACCEPT = 0, SINK_REJECT_N, SINK_REJECT_ALL };
struct msink {
    bool live;                  /* structure allocated */
    struct upipe upipe;
    struct urefcount refcount;
    struct tprobe probe;
    int id;
    int mode, reject_left;
    struct uref *accepted;      /* last accepted flow def (dup) */
    bool last_rejected;         /* last set_flow_def was rejected */
    bool had_set;               /* received at least one set_flow_def */
    struct rec act[MAXREC]; int nact;
    struct rec exp[MAXREC]; int nexp;
    int checked;                /* entries of act/exp already compared */
    /* model side */
    struct mfd m_accepted; bool m_last_rejected;
    int m_mode, m_reject_left;
    /* requests lodged here (C12) */
    struct urequest *lodged[16]; int nlodged;
    int req_registers, req_unregisters;
    bool app_released;          /* the application let go of its own reference */
    bool answer_on_register;    /* provider that answers from inside register_request */
};
struct msink sinks[MAXS];
int nsinks;

/* ---- real pipes and their model */
enum { ST_NONE = 0, ST_VALID, ST_INVALID };
struct rpipe {
    bool exists;
    int type;
    struct upipe *upipe;        /* NULL once the harness let go */
    struct upipe *ident;        /* the pipe itself, for comparisons only */
    struct tprobe probe;
    /* model */
    struct mfd fd;              /* stored output flow def */
    struct mfd fd_in;           /* setflowdef: input flow def */
    int out;                    /* node: pipe index, 100 + sink, -1 */
    int orig_out;
    int state;
    uint64_t opt;               /* skip offset / setattr value / setflowdef value / delay */
    bool opt_set;
    uint64_t match_min, match_max; bool match_set;
    /* queue model (qsink) */
    bool q_fd_sent;
    unsigned max_length;
    int super;                  /* dup sub: index of super */
};
struct rpipe pipes[MAXP];
int npipes;
int topo;
/* model of the queue between qsink and qsrc: what was accepted */
static struct { bool is_fd; struct mfd fd; struct mu u; } mq[MAXREC];
static int mq_head, mq_tail;

static void tprobe_free(struct urefcount *r)
{
    struct tprobe *p = container_of(r, struct tprobe, refcount);
    p->freed = true;
}

static struct msink *sink_from_upipe(struct upipe *u) { return container_of(u, struct msink, upipe); }

static int node_of_upipe(struct upipe *u)
{
    for (int i = 0; i < MAXP; i++)
        if (pipes[i].exists && &pipes[i].probe.uprobe == u->uprobe)
            return i;
    for (int j = 0; j < MAXS; j++)
        if (sinks[j].live && &sinks[j].upipe == u)
            return 100 + j;
    return -1;
}

int req_probe_provide(struct tprobe *p, struct upipe *upipe, struct urequest *urequest);
static void req_sink_sync_answer(int sink, struct urequest *proxy);

static int tprobe_catch(struct uprobe *uprobe, struct upipe *upipe, int event, va_list args)
{
    struct tprobe *p = container_of(uprobe, struct tprobe, uprobe);
    if (event == UPROBE_LOG) {
        if (sim_verbose) {
            va_list copy;
            va_copy(copy, args);
            struct ulog *ulog = va_arg(copy, struct ulog *);
            if (ulog->level >= UPROBE_LOG_DEBUG) {
                char msg[256];
                ulog_msg_print(ulog, msg, sizeof(msg));
                printf("        %s[%d]: %s\n", p->id >= 100 ? "sink" : type_name(pipes[p->id].type),
                       p->id, msg);
            }
            va_end(copy);
        }
        /* log messages are allowed at any time before dead */
        if (p->ndead)
            sim_violation(V_AFTER_DEAD, "node %d logs after its dead event", p->id);
        return UBASE_ERR_NONE;
    }
    evseq++;
    if (sim_verbose)
        printf("      event %s from node %d\n", event < UPROBE_LOCAL ? uprobe_event_str(event) : "local", p->id);
    /* asking for an event loop again is what every control command of the
     * queue pipes does: not part of the observable history */
    if (event != UPROBE_NEED_UPUMP_MGR)
        obs_hash = sim_mix(obs_hash, ((uint64_t)p->id << 32) | (uint32_t)event);
    if (p->ndead && event != UPROBE_DEAD) {
        sim_violation(V_AFTER_DEAD, "node %d throws event %d after dead", p->id, event);
        return UBASE_ERR_NONE;
    }
    if (!p->ready && event != UPROBE_READY) {
        sim_violation(V_READY_ORDER, "node %d (%s) throws event %s before ready", p->id,
                      p->id < 100 ? type_name(pipes[p->id].type) : "sink",
                      event < UPROBE_LOCAL ? uprobe_event_str(event) : "local");
        return UBASE_ERR_NONE;
    }
    switch (event) {
    case UPROBE_READY:
        if (p->ready)
            sim_violation(V_READY_ORDER, "node %d throws ready twice", p->id);
        p->ready = true;
        return UBASE_ERR_NONE;
    case UPROBE_DEAD:
        if (p->ndead++)
            sim_violation(V_DEAD_TWICE, "node %d throws dead twice", p->id);
        p->dead_ev = evseq;
        return UBASE_ERR_NONE;
    case UPROBE_FATAL:
    case UPROBE_ERROR:
        p->nfatal++;
        if (!fault_in_op && !sim_alloc_failed() && event == UPROBE_FATAL)
            sim_violation(V_FATAL_UNEXPECTED, "node %d throws fatal although no fault was injected", p->id);
        return UBASE_ERR_NONE;
    case UPROBE_NEED_UPUMP_MGR: {
        if (noloop)
            return UBASE_ERR_UNHANDLED;
        struct upump_mgr **mgr_p = va_arg(args, struct upump_mgr **);
        *mgr_p = upump_mgr_use(upump_mgr);
        return UBASE_ERR_NONE;
    }
    case UPROBE_PROVIDE_REQUEST: {
        struct urequest *urequest = va_arg(args, struct urequest *);
        return req_probe_provide(p, upipe, urequest);
    }
    case UPROBE_SOURCE_END:
        /* an application that reacts to the end of a source by letting go of
         * another pipe it holds */
        if (react_mode && p->id < 100) {
            int other = react_mode == 1 ? p->id + 1 : p->id - 1;
            if (other > 0 && other < MAXP && pipes[other].exists && pipes[other].upipe != NULL) {
                struct upipe *u = pipes[other].upipe;
                pipes[other].upipe = NULL;
                SIM_PROBE("pipe_released_from_event_handler");
                upipe_release(u);
            }
        }
        return UBASE_ERR_NONE;
    default:
        break;
    }
    if (event >= UPROBE_LOCAL && p->id < 100 && pipes[p->id].type == T_PROBE_UREF) {
        va_list copy;
        va_copy(copy, args);
        struct uref *uref = NULL;
        bool *drop = NULL;
        if (uprobe_probe_uref_check(event, copy, &uref, NULL, &drop) && p->drop_mod) {
            uint64_t seq = 0;
            uref_attr_get_unsigned(uref, &seq, UDICT_TYPE_UNSIGNED, "x.seq");
            if (seq % (uint64_t)p->drop_mod == 0)
                *drop = true;
        }
        va_end(copy);
    }
    return UBASE_ERR_NONE;
}

static void tprobe_init(struct tprobe *p, int id)
{
    memset(p, 0, sizeof(*p));
    p->id = id;
    uprobe_init(&p->uprobe, tprobe_catch, NULL);
    urefcount_init(&p->refcount, tprobe_free);
    p->uprobe.refcount = &p->refcount;
}

/* ------------------------------------------------------------- mock sink */
static struct upipe_mgr sink_mgr;

static int upstream_of(int node)
{
    for (int i = 0; i < MAXP; i++)
        if (pipes[i].exists && pipes[i].out == node)
            return i;
    return -1;
}

static bool upstream_dead(int node)
{
    int up = upstream_of(node);
    return up >= 0 && pipes[up].probe.ndead > 0;
}

static void mu_from_uref(struct uref *uref, struct mu *u)
{
    memset(u, 0, sizeof(*u));
    uref_attr_get_unsigned(uref, &u->seq, UDICT_TYPE_UNSIGNED, "x.seq");
    u->has_sa = ubase_check(uref_attr_get_unsigned(uref, &u->sa, UDICT_TYPE_UNSIGNED, "x.sa"));
    u->has_dts = ubase_check(uref_clock_get_dts_sys(uref, &u->dts));
    size_t size = 0;
    if (uref->ubuf != NULL && ubase_check(uref_block_size(uref, &size))) {
        u->len = size > MAXLEN ? MAXLEN : (int)size;
        if (u->len)
            uref_block_extract(uref, 0, u->len, u->data);
        if (size > MAXLEN)
            u->len = -1;
    }
}

static void sink_input(struct upipe *upipe, struct uref *uref, struct upump **upump_p)
{
    struct msink *s = sink_from_upipe(upipe);
    evseq++;
    struct mu u;
    mu_from_uref(uref, &u);
    if (sim_verbose)
        printf("      sink %d receives seq %" PRIu64 " len %d\n", s->id, u.seq, u.len);
    obs_hash = sim_mix(obs_hash, sim_mix(u.seq, (uint64_t)u.len) ^ (uint64_t)s->id);
    if (upstream_dead(100 + s->id))
        sim_violation(V_AFTER_DEAD, "sink %d receives a buffer from a pipe that threw dead", s->id);
    /* C04: the last flow definition offered must have been accepted and be
     * the one the upstream pipe currently advertises */
    if (!s->had_set || s->accepted == NULL)
        sim_violation(V_NO_FLOW_DEF, "sink %d receives buffer %" PRIu64 " before accepting any flow definition",
                      s->id, u.seq);
    else if (s->last_rejected)
        sim_violation(V_DATA_AFTER_REJECT, "sink %d receives buffer %" PRIu64 " although it rejected the last "
                      "flow definition", s->id, u.seq);
    else {
        int up = upstream_of(100 + s->id);
        struct uref *cur = NULL;
        if (up >= 0 && pipes[up].upipe != NULL &&
            ubase_check(upipe_get_flow_def(pipes[up].upipe, &cur)) && cur != NULL &&
            cur->udict != NULL && s->accepted->udict != NULL &&
            udict_cmp(cur->udict, s->accepted->udict) != 0)
            sim_violation(V_NO_FLOW_DEF, "sink %d receives buffer %" PRIu64 " while the flow definition it accepted "
                          "is not the one its upstream %s advertises", s->id, u.seq, type_name(pipes[up].type));
    }
    /* model-free: sequence numbers only ever increase at a sink */
    if (s->nact > 0 && u.seq <= s->act[s->nact - 1].u.seq)
        sim_violation(u.seq == s->act[s->nact - 1].u.seq ? V_DUPLICATE : V_REORDER,
                      "sink %d receives buffer %" PRIu64 " after buffer %" PRIu64, s->id, u.seq,
                      s->act[s->nact - 1].u.seq);
    if (s->nact < MAXREC) {
        s->act[s->nact].ev = evseq;
        s->act[s->nact].u = u;
        struct mfd *f = &s->act[s->nact].fd;
        memset(f, 0, sizeof(*f));
        const char *def = NULL;
        if (s->accepted != NULL && ubase_check(uref_flow_get_def(s->accepted, &def))) {
            f->set = true;
            f->def = !strcmp(def, defs[0]) ? 0 : !strcmp(def, defs[1]) ? 1 : 2;
            uref_attr_get_unsigned(s->accepted, &f->v, UDICT_TYPE_UNSIGNED, "x.v");
            f->has_sfd = ubase_check(uref_attr_get_unsigned(s->accepted, &f->sfd, UDICT_TYPE_UNSIGNED, "x.sfd"));
        }
        s->nact++;
    }
    uref_free(uref);
}

static int sink_control(struct upipe *upipe, int command, va_list args)
{
    struct msink *s = sink_from_upipe(upipe);
    switch (command) {
    case UPIPE_SET_FLOW_DEF: {
        struct uref *fd = va_arg(args, struct uref *);
        evseq++;
        s->had_set = true;
        if (upstream_dead(100 + s->id))
            sim_violation(V_AFTER_DEAD, "sink %d receives a flow definition from a pipe that threw dead", s->id);
        bool accept = s->mode == SINK_ACCEPT || (s->mode == SINK_REJECT_N && s->reject_left == 0);
        if (s->mode == SINK_REJECT_N && s->reject_left > 0)
            s->reject_left--;
        const char *def = NULL;
        if (fd == NULL || !ubase_check(uref_flow_get_def(fd, &def)))
            accept = false;
        obs_hash = sim_mix(obs_hash, 0x5e7 + (uint64_t)accept + ((uint64_t)s->id << 8));
        if (sim_verbose)
            printf("      sink %d %s flow def %s\n", s->id, accept ? "accepts" : "rejects", def ? def : "?");
        if (!accept) {
            s->last_rejected = true;
            SIM_PROBE("pipe_sink_rejected_flow_def");
            return UBASE_ERR_INVALID;
        }
        s->last_rejected = false;
        uref_free(s->accepted);
        sim_alloc_suspend();    /* the mock sink itself never runs out of memory */
        s->accepted = uref_dup(fd);
        sim_alloc_resume();
        return UBASE_ERR_NONE;
    }
    case UPIPE_REGISTER_REQUEST: {
        struct urequest *r = va_arg(args, struct urequest *);
        if (upstream_dead(100 + s->id)) {
            sim_violation(V_AFTER_DEAD, "sink %d receives a request registration from a dead pipe", s->id);
            return UBASE_ERR_NONE;
        }
        if (s->nlodged < 16)
            s->lodged[s->nlodged++] = r;
        s->req_registers++;
        SIM_PROBE("pipe_request_lodged_at_sink");
        if (s->answer_on_register)
            req_sink_sync_answer(s->id, r);
        return UBASE_ERR_NONE;
    }
    case UPIPE_UNREGISTER_REQUEST: {
        /* allowed after dead: part of the link teardown (DESIGN.md C04) */
        struct urequest *r = va_arg(args, struct urequest *);
        for (int i = 0; i < s->nlodged; i++)
            if (s->lodged[i] == r) {
                s->lodged[i] = s->lodged[--s->nlodged];
                s->req_unregisters++;
                return UBASE_ERR_NONE;
            }
        sim_violation(V_REQ_ROUTING, "sink %d asked to unregister a request it does not hold", s->id);
        return UBASE_ERR_INVALID;
    }
    default:
        return UBASE_ERR_UNHANDLED;
    }
}

static void sink_free(struct urefcount *r)
{
    struct msink *s = container_of(r, struct msink, refcount);
    if (!s->app_released)
        sim_violation(V_REFCOUNT, "sink %d destroyed while the application still holds a reference to it "
                      "(somebody released it once too often)", s->id);
    upipe_throw_dead(&s->upipe);
    uref_free(s->accepted);
    s->accepted = NULL;
    if (s->nlodged)
        sim_violation(V_REQ_ROUTING, "sink %d destroyed with %d request(s) still lodged", s->id, s->nlodged);
    upipe_clean(&s->upipe);
    s->upipe.refcount = NULL;
}

static int sink_new(void)
{
    if (nsinks >= MAXS)
        return -1;
    int j = nsinks++;
    struct msink *s = &sinks[j];
    memset(s, 0, sizeof(*s));
    s->live = true;
    s->id = j;
    tprobe_init(&s->probe, 100 + j);
    upipe_init(&s->upipe, &sink_mgr, uprobe_use(&s->probe.uprobe));
    urefcount_init(&s->refcount, sink_free);
    s->upipe.refcount = &s->refcount;
    upipe_throw_ready(&s->upipe);
    return j;
}

static struct upipe_mgr sink_mgr = {
    .refcount = NULL, .signature = 0, .upipe_alloc = NULL,
    .upipe_input = sink_input, .upipe_control = sink_control,
};

/* --------------------------------------------------------------- the model */
static void exp_add(int sink, const struct mu *u)
{
    struct msink *s = &sinks[sink];
    if (s->nexp < MAXREC) {
        s->exp[s->nexp].u = *u;
        s->exp[s->nexp].optional = false;
        s->exp[s->nexp].fd = s->m_accepted;
        s->nexp++;
    }
}

static bool m_set_flow_def(int node, const struct mfd *fd);
static void m_output(int i, struct mu u);

static void m_input(int node, struct mu u)
{
    if (node >= 100) {
        exp_add(node - 100, &u);
        return;
    }
    struct rpipe *p = &pipes[node];
    switch (p->type) {
    case T_SKIP:
        if (p->opt_set && (int64_t)p->opt <= u.len) {
            memmove(u.data, u.data + p->opt, (size_t)(u.len - (int)p->opt));
            u.len -= (int)p->opt;
        }
        break;
    case T_HTONS:
        for (int k = 0; k + 1 < u.len; k += 2) {
            uint8_t t = u.data[k];
            u.data[k] = u.data[k + 1];
            u.data[k + 1] = t;
        }
        break;
    case T_SETATTR:
        if (p->opt_set) {
            u.has_sa = true;
            u.sa = p->opt;
        }
        break;
    case T_DELAY:
        if (p->opt_set && u.has_dts)
            u.dts += p->opt;
        break;
    case T_MATCH:
        if (p->match_set && !(u.seq >= p->match_min && u.seq <= p->match_max))
            return;
        break;
    case T_PROBE_UREF:
        if (p->probe.drop_mod && u.seq % (uint64_t)p->probe.drop_mod == 0)
            return;
        break;
    case T_DUP:
        for (int k = 0; k < MAXP; k++)
            if (pipes[k].exists && pipes[k].type == T_DUPSUB && pipes[k].super == node &&
                !pipes[k].probe.ndead)      /* an output the application let go of is gone */
                m_output(k, u);
        return;
    case T_QSINK:
        /* queue model: flow def first, then the buffer; with an event loop
         * everything is accepted (spooled while the queue is full), without
         * one whatever does not fit is dropped */
        if (!p->q_fd_sent && p->fd.set) {
            p->q_fd_sent = true;
            if (!noloop || mq_tail - mq_head < (int)pipes[1].max_length) {
                mq[mq_tail % MAXREC].is_fd = true;
                mq[mq_tail % MAXREC].fd = p->fd;
                mq_tail++;
            }
        }
        if (noloop && mq_tail - mq_head >= (int)pipes[1].max_length) {
            SIM_PROBE("pipe_queue_full_without_loop_drop");
            return;
        }
        mq[mq_tail % MAXREC].is_fd = false;
        mq[mq_tail % MAXREC].u = u;
        mq_tail++;
        return;
    default:
        break;
    }
    m_output(node, u);
}

static void m_output(int i, struct mu u)
{
    struct rpipe *p = &pipes[i];
    if (!p->fd.set || p->out < 0)
        return;                 /* dropped: no flow def / no output */
    if (p->state == ST_NONE)
        p->state = m_set_flow_def(p->out, &p->fd) ? ST_VALID : ST_INVALID;
    if (p->state == ST_VALID)
        m_input(p->out, u);
}

static void m_store(struct rpipe *p, const struct mfd *fd)
{
    if (p->fd.set && mfd_equal(&p->fd, fd))
        return;                 /* equal dictionaries: no renegotiation */
    p->fd = *fd;
    p->state = ST_NONE;
}

static bool m_set_flow_def(int node, const struct mfd *fd)
{
    if (node >= 100) {
        struct msink *s = &sinks[node - 100];
        bool accept = s->m_mode == SINK_ACCEPT || (s->m_mode == SINK_REJECT_N && s->m_reject_left == 0);
        if (s->m_mode == SINK_REJECT_N && s->m_reject_left > 0)
            s->m_reject_left--;
        s->m_last_rejected = !accept;
        if (accept)
            s->m_accepted = *fd;
        return accept;
    }
    struct rpipe *p = &pipes[node];
    switch (p->type) {
    case T_SKIP:
    case T_HTONS:
        if (fd->def == 2)
            return false;       /* expects "block." */
        m_store(p, fd);
        return true;
    case T_SETFLOWDEF: {
        p->fd_in = *fd;
        struct mfd out = *fd;
        if (p->opt_set) {
            out.has_sfd = true;
            out.sfd = p->opt;
        }
        m_store(p, &out);
        return true;
    }
    case T_DUP:
        m_store(p, fd);
        for (int k = 0; k < MAXP; k++)
            if (pipes[k].exists && pipes[k].type == T_DUPSUB && pipes[k].super == node)
                m_store(&pipes[k], fd);
        return true;
    case T_QSINK:
        p->fd = *fd;
        p->q_fd_sent = false;
        return true;
    default:
        m_store(p, fd);
        return true;
    }
}

/* the queue model delivers to the consumer side (qsrc) */
static void m_queue_deliver_all(int qsrc)
{
    while (mq_head < mq_tail) {
        if (mq[mq_head % MAXREC].is_fd)
            m_store(&pipes[qsrc], &mq[mq_head % MAXREC].fd);
        else
            m_output(qsrc, mq[mq_head % MAXREC].u);
        mq_head++;
    }
}

/* ---------------------------------------------------------- comparisons */
static bool mu_equal(const struct mu *a, const struct mu *b, char *why, size_t len)
{
    if (a->seq != b->seq) { snprintf(why, len, "sequence number %" PRIu64 " instead of %" PRIu64, a->seq, b->seq); return false; }
    if (a->len != b->len) { snprintf(why, len, "buffer %" PRIu64 ": size %d instead of %d", a->seq, a->len, b->len); return false; }
    if (a->len > 0 && memcmp(a->data, b->data, (size_t)a->len)) { snprintf(why, len, "buffer %" PRIu64 ": payload differs", a->seq); return false; }
    if (a->has_sa != b->has_sa || (a->has_sa && a->sa != b->sa)) { snprintf(why, len, "buffer %" PRIu64 ": attribute x.sa differs", a->seq); return false; }
    if (a->has_dts != b->has_dts || (a->has_dts && a->dts != b->dts)) { snprintf(why, len, "buffer %" PRIu64 ": dts differs", a->seq); return false; }
    return true;
}

/* compares what arrived with what the model delivers. `final`: everything
 * the model delivers must have arrived (synchronous pipelines: after every
 * operation; queues: at quiescence) */
static void compare_sink(int j, bool final)
{
    struct msink *s = &sinks[j];
    if (stop_checking || sim_violation_class())
        return;
    int a = s->checked, e = s->checked;
    /* s->checked counts matched pairs; optional expectations are removed
     * once skipped, so both arrays stay aligned */
    while (a < s->nact) {
        char why[160];
        if (e >= s->nexp) {
            sim_violation(V_SPURIOUS, "sink %d received buffer %" PRIu64 " that the reference model does not deliver "
                          "(dropped or never sent)", j, s->act[a].u.seq);
            return;
        }
        if (mu_equal(&s->act[a].u, &s->exp[e].u, why, sizeof(why))) {
            if (!mfd_equal(&s->act[a].fd, &s->exp[e].fd)) {
                sim_violation(V_NO_FLOW_DEF, "sink %d received buffer %" PRIu64 " under flow definition %s/v=%" PRIu64
                              " although the flow definition in force for it is %s/v=%" PRIu64, j, s->act[a].u.seq,
                              s->act[a].fd.set ? defs[s->act[a].fd.def] : "none", s->act[a].fd.v,
                              s->exp[e].fd.set ? defs[s->exp[e].fd.def] : "none", s->exp[e].fd.v);
                return;
            }
            a++; e++;
            continue;
        }
        if (s->exp[e].optional) {
            memmove(&s->exp[e], &s->exp[e + 1], (size_t)(s->nexp - e - 1) * sizeof(s->exp[0]));
            s->nexp--;
            continue;
        }
        /* classify */
        for (int k = 0; k < a; k++)
            if (s->act[k].u.seq == s->act[a].u.seq) {
                sim_violation(V_DUPLICATE, "sink %d received buffer %" PRIu64 " twice", j, s->act[a].u.seq);
                return;
            }
        for (int k = e + 1; k < s->nexp; k++)
            if (s->exp[k].u.seq == s->act[a].u.seq) {
                sim_violation(s->act[a].u.seq < s->exp[e].u.seq ? V_REORDER : V_LOSS,
                              "sink %d: expected buffer %" PRIu64 ", received %" PRIu64, j,
                              s->exp[e].u.seq, s->act[a].u.seq);
                return;
            }
        if (s->act[a].u.seq == s->exp[e].u.seq)
            sim_violation(V_CONTENT, "sink %d: %s", j, why);
        else
            sim_violation(V_SPURIOUS, "sink %d: %s", j, why);
        return;
    }
    s->checked = a;
    if (final) {
        while (e < s->nexp && s->exp[e].optional) {
            memmove(&s->exp[e], &s->exp[e + 1], (size_t)(s->nexp - e - 1) * sizeof(s->exp[0]));
            s->nexp--;
        }
        if (e < s->nexp)
            sim_violation(V_LOSS, "sink %d never received buffer %" PRIu64 " (%d delivered, the reference model "
                          "delivers %d)", j, s->exp[e].u.seq, s->nact, s->nexp);
    }
}

static void compare_all(bool final)
{
    for (int j = 0; j < nsinks; j++)
        compare_sink(j, final);
}

/* ------------------------------------------------------------ real pipes */
static struct upipe *node_upipe(int node)
{
    if (node < 0)
        return NULL;
    if (node >= 100)
        return sinks[node - 100].live && sinks[node - 100].upipe.refcount ? &sinks[node - 100].upipe : NULL;
    return pipes[node].ident;
}

static int match_seq(struct uref *uref, uint64_t min, uint64_t max)
{
    uint64_t seq = 0;
    if (!ubase_check(uref_attr_get_unsigned(uref, &seq, UDICT_TYPE_UNSIGNED, "x.seq")))
        return UBASE_ERR_INVALID;
    return seq >= min && seq <= max ? UBASE_ERR_NONE : UBASE_ERR_INVALID;
}

static struct upipe *alloc_pipe(int slot, int type, int super_or_qsrc, unsigned qlen)
{
    struct rpipe *p = &pipes[slot];
    memset(p, 0, sizeof(*p));
    p->exists = true;
    p->type = type;
    p->out = p->orig_out = -1;
    p->super = -1;
    tprobe_init(&p->probe, slot);
    struct uprobe *probe = uprobe_use(&p->probe.uprobe);
    struct upipe *u = NULL;
    switch (type) {
    case T_IDEM: u = upipe_void_alloc(upipe_idem_mgr_alloc(), probe); break;
    case T_SKIP: u = upipe_void_alloc(upipe_skip_mgr_alloc(), probe); break;
    case T_HTONS: u = upipe_void_alloc(upipe_htons_mgr_alloc(), probe); break;
    case T_SETATTR: u = upipe_void_alloc(upipe_setattr_mgr_alloc(), probe); break;
    case T_SETFLOWDEF: u = upipe_void_alloc(upipe_setflowdef_mgr_alloc(), probe); break;
    case T_DELAY: u = upipe_void_alloc(upipe_delay_mgr_alloc(), probe); break;
    case T_MATCH: u = upipe_void_alloc(upipe_match_attr_mgr_alloc(), probe); break;
    case T_PROBE_UREF: u = upipe_void_alloc(upipe_probe_uref_mgr_alloc(), probe); break;
    case T_DUP: u = upipe_void_alloc(upipe_dup_mgr_alloc(), probe); break;
    case T_DUPSUB:
        u = upipe_void_alloc_sub(pipes[super_or_qsrc].upipe, probe);
        p->super = super_or_qsrc;
        break;
    case T_QSRC: u = upipe_qsrc_alloc(upipe_qsrc_mgr_alloc(), probe, qlen); break;
    case T_QSINK: u = upipe_qsink_alloc(upipe_qsink_mgr_alloc(), probe, pipes[super_or_qsrc].upipe); break;
    }
    p->upipe = p->ident = u;
    if (u == NULL) {
        p->exists = false;
        return NULL;
    }
    if (type == T_MATCH) {
        upipe_match_attr_set_uint64_t(u, match_seq);
        p->match_set = true;    /* boundaries default to [0, 0] */
    }
    if (type == T_DUPSUB) {
        /* a new output inherits the flow definition of the dup pipe */
        if (pipes[super_or_qsrc].fd.set) {
            p->fd = pipes[super_or_qsrc].fd;
            p->state = ST_NONE;
        }
    }
    return u;
}

static void connect(int i, int node)
{
    struct rpipe *p = &pipes[i];
    /* the model first: providers may answer from inside set_output and the
     * requester may send data from its callback */
    p->out = node;
    if (p->type != T_QSINK)
        p->state = ST_NONE;
    int ret = upipe_set_output(p->upipe, node_upipe(node));
    if (!ubase_check(ret))
        sim_violation(V_CONTROL, "set_output on %s failed (%d)", type_name(p->type), ret);
}

/* ------------------------------------------------------------- operations */
static uint64_t next_seq;

static struct uref *build_uref(const struct sim_op *op, struct mu *u)
{
    memset(u, 0, sizeof(*u));
    u->seq = ++next_seq;
    static const int sizes[] = { 0, 1, 2, 3, 4, 8, 15, 16, 31, 64 };
    u->len = sizes[(uint64_t)op->a[1] % 10];
    for (int i = 0; i < u->len; i++)
        u->data[i] = (uint8_t)(u->seq * 31 + (uint64_t)i * 7 + 1);
    struct uref *uref;
    bool segmented = ((uint64_t)op->a[2] & 1) && u->len >= 2;
    if (!segmented) {
        uref = uref_block_alloc(uref_mgr, ubuf_mgr, u->len);
        if (uref == NULL)
            return NULL;
        if (u->len) {
            int sz = -1;
            uint8_t *w;
            if (!ubase_check(uref_block_write(uref, 0, &sz, &w))) { uref_free(uref); return NULL; }
            memcpy(w, u->data, (size_t)u->len);
            uref_block_unmap(uref, 0);
        }
    } else {
        int cut = 1 + (int)(((uint64_t)op->a[2] >> 1) % (uint64_t)(u->len - 1));
        uref = uref_block_alloc(uref_mgr, ubuf_mgr, cut);
        struct ubuf *tail = ubuf_block_alloc(ubuf_mgr, u->len - cut);
        if (uref == NULL || tail == NULL) {
            if (uref) uref_free(uref);
            if (tail) ubuf_free(tail);
            return NULL;
        }
        int sz = -1;
        uint8_t *w;
        uref_block_write(uref, 0, &sz, &w);
        memcpy(w, u->data, (size_t)cut);
        uref_block_unmap(uref, 0);
        sz = -1;
        ubuf_block_write(tail, 0, &sz, &w);
        memcpy(w, u->data + cut, (size_t)(u->len - cut));
        ubuf_block_unmap(tail, 0);
        uref_block_append(uref, tail);
        SIM_PROBE("pipe_segmented_input");
    }
    uref_attr_set_unsigned(uref, u->seq, UDICT_TYPE_UNSIGNED, "x.seq");
    if ((uint64_t)op->a[3] & 1) {
        u->has_dts = true;
        u->dts = 27000000ULL * u->seq;
        uref_clock_set_dts_sys(uref, u->dts);
    }
    return uref;
}

static bool usable(int i)
{
    return i >= 0 && i < MAXP && pipes[i].exists && pipes[i].upipe != NULL;
}

static int pick_pipe(int64_t sel)
{
    int cand[MAXP], n = 0;
    for (int i = 0; i < MAXP; i++)
        if (usable(i))
            cand[n++] = i;
    if (n == 0)
        return -1;
    return cand[(uint64_t)sel % (uint64_t)n];
}

static bool has_output_helper(int type) { return type != T_QSINK; }

static void mark_new_expectations_optional(int from[MAXS])
{
    for (int j = 0; j < nsinks; j++)
        for (int k = from[j]; k < sinks[j].nexp; k++)
            sinks[j].exp[k].optional = true;
}

static void run_loop(unsigned budget)
{
    upump_sim_mgr_set_budget(upump_mgr, budget);
    upump_mgr_run(upump_mgr, NULL);
}

/* queue topology: brings the real pipeline and the reference model to the
 * same point (queue empty, nothing held), then compares */
static void queue_sync(void)
{
    if (noloop)
        return;                 /* nothing moves before the queue source is destroyed */
    run_loop(1000);
    if (!stop_checking)
        m_queue_deliver_all(1);
    compare_all(true);
}

static int req_actions_left;
static void do_getter(int i, int which);
static void do_option(int i, const struct sim_op *op);
void req_do_op(const struct sim_op *op);

static void do_op(const struct sim_op *op)
{
    int from[MAXS];
    for (int j = 0; j < MAXS; j++)
        from[j] = sinks[j].nexp;
    unsigned failed0 = sim_alloc_failed();
    fault_in_op = false;
    bool control_op = false;
    req_actions_left = 2;
    if (topo == TOPO_QUEUE && op->code != OP_INPUT && op->code != OP_RUN && op->code != OP_SET_FLOW_DEF) {
        /* the reference model of the queue does not predict when the
         * consumer side runs: bring both sides to the same point before
         * anything is re-plumbed, inspected or flushed */
        queue_sync();
        for (int j = 0; j < MAXS; j++)
            from[j] = sinks[j].nexp;
    }
    switch (op->code) {
    case OP_SET_FLOW_DEF: {
        if (!usable(0)) break;
        control_op = true;
        struct mfd fd = { true, (int)((uint64_t)op->a[0] % 3), (uint64_t)op->a[1] % 3, false, 0 };
        struct uref *u = mfd_build(&fd);
        if (u == NULL) break;
        if (op->a[5] > 0) sim_alloc_arm((int)op->a[5]);
        int ret = upipe_set_flow_def(pipes[0].upipe, u);
        sim_alloc_disarm();
        uref_free(u);
        fault_in_op = sim_alloc_failed() != failed0;
        if (fault_in_op) break;
        /* the model decides what the pipe must answer */
        struct rpipe saved[MAXP];
        memcpy(saved, pipes, sizeof(saved));
        bool accept = m_set_flow_def(0, &fd);
        if (accept != ubase_check(ret)) {
            memcpy(pipes, saved, sizeof(saved));
            sim_violation(V_CONTROL, "%s %s flow definition %s (error %d)", type_name(pipes[0].type),
                          ubase_check(ret) ? "accepted" : "rejected", defs[fd.def], ret);
        }
        break;
    }
    case OP_INPUT: {
        if (!usable(0)) break;
        int n = 1 + (int)((uint64_t)op->a[0] % 4);
        for (int k = 0; k < n && !sim_violation_class(); k++) {
            struct mu u;
            struct uref *uref = build_uref(op, &u);
            if (uref == NULL) break;
            m_input(0, u);
            if (op->a[5] > 0 && k == 0) sim_alloc_arm((int)op->a[5]);
            upipe_input(pipes[0].upipe, uref, NULL);
            sim_alloc_disarm();
        }
        fault_in_op = sim_alloc_failed() != failed0;
        break;
    }
    case OP_SET_OUTPUT: {
        int i = pick_pipe(op->a[0]);
        if (i >= 0 && pipes[i].type == T_QSINK) {
            /* the pseudo-output of a queue sink never sees data */
            struct upipe *target = NULL;
            if ((uint64_t)op->a[1] % 2) {
                int j = sink_new();
                if (j >= 0) target = &sinks[j].upipe;
            }
            int ret = upipe_set_output(pipes[i].upipe, target);
            if (!ubase_check(ret))
                sim_violation(V_CONTROL, "set_output on qsink failed (%d)", ret);
            SIM_PROBE("pipe_qsink_set_output");
            break;
        }
        if (i < 0 || !has_output_helper(pipes[i].type) || pipes[i].type == T_DUP) break;
        control_op = true;
        int target;
        switch ((uint64_t)op->a[1] % 4) {
        case 0: target = -1; break;
        case 1: case 2: target = pipes[i].orig_out; break;
        default: {
            int j = sink_new();
            if (j < 0) { target = pipes[i].orig_out; break; }
            sinks[j].mode = sinks[j].m_mode = (int)((uint64_t)op->a[2] % 3);
            sinks[j].reject_left = sinks[j].m_reject_left = 1 + (int)((uint64_t)op->a[3] % 2);
            sinks[j].answer_on_register = ((uint64_t)op->a[3] >> 1) & 1;
            target = 100 + j;
            SIM_PROBE("pipe_output_replaced_by_new_sink");
        }
        }
        if (target >= 0 && target < 100 && !usable(target)) target = -1;
        /* a node has one upstream at most */
        if (target >= 0 && upstream_of(target) >= 0 && upstream_of(target) != i) break;
        if (target == -1) SIM_PROBE("pipe_output_set_to_null");
        connect(i, target);
        break;
    }
    case OP_SINK_MODE: {
        if (nsinks == 0) break;
        struct msink *s = &sinks[(uint64_t)op->a[0] % (uint64_t)nsinks];
        s->mode = s->m_mode = (int)((uint64_t)op->a[1] % 3);
        s->reject_left = s->m_reject_left = 1 + (int)((uint64_t)op->a[2] % 2);
        break;
    }
    case OP_OPTION: {
        int i = pick_pipe(op->a[0]);
        if (i < 0) break;
        control_op = true;
        do_option(i, op);
        fault_in_op = sim_alloc_failed() != failed0;
        break;
    }
    case OP_GETTER: {
        int i = pick_pipe(op->a[0]);
        if (i < 0 || skip_getters) break;
        do_getter(i, (int)((uint64_t)op->a[1] % 4));
        break;
    }
    case OP_FLUSH: {
        int i = pick_pipe(op->a[0]);
        if (i < 0) break;
        if (pipes[i].type != T_QSINK || !usable(0) || stop_checking || noloop) {
            upipe_flush(pipes[i].upipe);
            break;
        }
        /* queue sink: the queue is empty and nothing is held (synchronised
         * above). A burst now fills the queue and stalls the sink; flush then
         * drops exactly what does not fit: the packets beyond the queue
         * length, the flow definition counting as one packet. */
        if ((uint64_t)op->a[1] & 1) {
            struct mfd fd = { true, (int)(((uint64_t)op->a[1] >> 1) % 2), ((uint64_t)op->a[1] >> 2) % 3, false, 0 };
            struct uref *u = mfd_build(&fd);
            if (u != NULL) {
                upipe_set_flow_def(pipes[0].upipe, u);
                uref_free(u);
                m_set_flow_def(0, &fd);
            }
        }
        int burst = (int)((uint64_t)op->a[2] % 6);
        for (int k = 0; k < burst; k++) {
            struct mu u;
            struct uref *uref = build_uref(op, &u);
            if (uref == NULL) break;
            m_input(0, u);
            upipe_input(pipes[0].upipe, uref, NULL);
        }
        int pending = mq_tail - mq_head;
        int fits = (int)pipes[1].max_length;
        upipe_flush(pipes[i].upipe);
        if (pending > fits) {
            mq_tail = mq_head + fits;       /* the rest was held, now dropped */
            pipes[0].q_fd_sent = false;     /* the flow definition is announced again */
            SIM_PROBE("pipe_qsink_flush_dropped_held");
        }
        SIM_PROBE("pipe_qsink_flushed");
        break;
    }
    case OP_RUN:
        if (topo == TOPO_QUEUE) {
            if ((uint64_t)op->a[0] % 4 == 0)
                queue_sync();
            else
                run_loop(1 + (unsigned)((uint64_t)op->a[0] % 12));
            sim_mark_nontrivial();
        }
        break;
    case OP_RELEASE: {
        int i = pick_pipe(op->a[0]);
        if (i <= 0) break;      /* the head stays until the teardown */
        control_op = true;
        struct upipe *u = pipes[i].upipe;
        pipes[i].upipe = NULL;
        SIM_PROBE("pipe_released_mid_run");
        upipe_release(u);
        break;
    }
    case OP_ADD_SUB: {
        if (topo != TOPO_DUP || !usable(0)) break;
        control_op = true;
        int slot = -1;
        for (int k = 1; k < MAXP; k++)
            if (!pipes[k].exists) { slot = k; break; }
        int j = slot >= 0 ? sink_new() : -1;
        if (j < 0) break;
        if (op->a[5] > 0) sim_alloc_arm((int)op->a[5]);
        struct upipe *u = alloc_pipe(slot, T_DUPSUB, 0, 0);
        sim_alloc_disarm();
        fault_in_op = sim_alloc_failed() != failed0;
        if (u == NULL) break;
        sinks[j].mode = sinks[j].m_mode = (int)((uint64_t)op->a[1] % 3) == 2 ? SINK_REJECT_N : SINK_ACCEPT;
        sinks[j].reject_left = sinks[j].m_reject_left = 1;
        pipes[slot].orig_out = 100 + j;
        connect(slot, 100 + j);
        SIM_PROBE("pipe_dup_output_added");
        break;
    }
    case OP_REQ_REGISTER:
    case OP_REQ_UNREGISTER:
    case OP_REQ_PROVIDE:
        req_do_op(op);
        break;
    }
    if (sim_alloc_failed() != failed0) {
        /* an allocation failed somewhere inside the operation: the pipe may
         * have dropped the buffer, refused the flow definition or left the
         * negotiation in another state than the reference model predicts.
         * From here on only the model-free oracles stay armed: ordering and
         * exactly-once at the sinks, flow definition before data, ready/dead
         * ordering, nothing left allocated. */
        fault_in_op = true;
        SIM_PROBE("pipe_fault_fired_in_operation");
        (void)control_op;
        (void)mark_new_expectations_optional;
        stop_checking = true;
    }
    if (topo != TOPO_QUEUE)
        compare_all(true);
    /* queues are compared at synchronisation points only; in between the
     * model-free ordering check at the sinks stays armed */
}

/* ---------------------------------------------------- options and getters */
static void do_option(int i, const struct sim_op *op)
{
    struct rpipe *p = &pipes[i];
    uint64_t v = (uint64_t)op->a[1] % 7;
    int ret = UBASE_ERR_NONE;
    switch (p->type) {
    case T_SKIP:
        ret = upipe_skip_set_offset(p->upipe, (size_t)v);
        p->opt = v; p->opt_set = true;
        break;
    case T_DELAY:
        ret = upipe_delay_set_delay(p->upipe, (int64_t)v * 1000);
        p->opt = v * 1000; p->opt_set = v != 0;
        break;
    case T_SETATTR:
    case T_SETFLOWDEF: {
        struct uref *d = uref_alloc(uref_mgr);
        if (d == NULL) return;
        uref_attr_set_unsigned(d, 100 + v, UDICT_TYPE_UNSIGNED, p->type == T_SETATTR ? "x.sa" : "x.sfd");
        if (op->a[5] > 0) sim_alloc_arm((int)op->a[5]);
        ret = p->type == T_SETATTR ? upipe_setattr_set_dict(p->upipe, d)
                                   : upipe_setflowdef_set_dict(p->upipe, d);
        sim_alloc_disarm();
        uref_free(d);
        if (ubase_check(ret)) {
            p->opt = 100 + v; p->opt_set = true;
            if (p->type == T_SETFLOWDEF && p->fd_in.set) {
                struct mfd out = p->fd_in;
                out.has_sfd = true;
                out.sfd = p->opt;
                m_store(p, &out);
            }
        }
        break;
    }
    case T_MATCH:
        p->match_min = v; p->match_max = v + (uint64_t)op->a[2] % 50; p->match_set = true;
        ret = upipe_match_attr_set_boundaries(p->upipe, p->match_min, p->match_max);
        break;
    case T_PROBE_UREF:
        p->probe.drop_mod = (int)v < 2 ? 0 : (int)v;
        break;
    case T_QSINK:
        ret = upipe_set_max_length(p->upipe, (unsigned)v);
        p->max_length = (unsigned)v;
        break;
    default:
        return;
    }
    if (!ubase_check(ret) && !(sim_alloc_failed() && ret == UBASE_ERR_ALLOC))
        sim_violation(V_CONTROL, "option setter of %s failed (%d)", type_name(p->type), ret);
}

static void do_getter(int i, int which)
{
    struct rpipe *p = &pipes[i];
    SIM_PROBE("pipe_getter_called");
    if (which == 0 && has_output_helper(p->type)) {
        struct upipe *out = (struct upipe *)(intptr_t)-1;
        int ret = upipe_get_output(p->upipe, &out);
        if (!ubase_check(ret))
            sim_violation(V_GETTER_VALUE, "get_output of %s failed (%d)", type_name(p->type), ret);
        else if (out != node_upipe(p->out) && p->type != T_DUP)
            sim_violation(V_GETTER_VALUE, "get_output of %s does not return the output that was set", type_name(p->type));
        return;
    }
    if (which == 1 && has_output_helper(p->type)) {
        struct uref *fd = NULL;
        int ret = upipe_get_flow_def(p->upipe, &fd);
        if (!ubase_check(ret))
            sim_violation(V_GETTER_VALUE, "get_flow_def of %s failed (%d)", type_name(p->type), ret);
        else if (!stop_checking && !mfd_matches_real(&p->fd, fd))
            sim_violation(V_GETTER_VALUE, "get_flow_def of %s does not return the current flow definition", type_name(p->type));
        return;
    }
    switch (p->type) {
    case T_SKIP: {
        size_t off = 12345;
        int ret = upipe_skip_get_offset(p->upipe, &off);
        if (!ubase_check(ret) || off != (p->opt_set ? p->opt : 0))
            sim_violation(V_GETTER_VALUE, "skip: get_offset returns %zu (error %d), %" PRIu64 " was set",
                          off, ret, p->opt_set ? p->opt : 0);
        break;
    }
    case T_DELAY: {
        int64_t d = -1;
        int ret = upipe_delay_get_delay(p->upipe, &d);
        if (!ubase_check(ret) || d != (int64_t)(p->opt_set ? p->opt : 0))
            sim_violation(V_GETTER_VALUE, "delay: get_delay returns %" PRId64 ", %" PRIu64 " was set", d, p->opt);
        break;
    }
    case T_SETATTR:
    case T_SETFLOWDEF: {
        struct uref *d = NULL;
        int ret = p->type == T_SETATTR ? upipe_setattr_get_dict(p->upipe, &d)
                                       : upipe_setflowdef_get_dict(p->upipe, &d);
        uint64_t v = 0;
        bool has = d != NULL && ubase_check(uref_attr_get_unsigned(d, &v, UDICT_TYPE_UNSIGNED,
                                            p->type == T_SETATTR ? "x.sa" : "x.sfd"));
        if (!ubase_check(ret) || has != p->opt_set || (has && v != p->opt))
            sim_violation(V_GETTER_VALUE, "%s: get_dict does not return the dictionary that was set", type_name(p->type));
        break;
    }
    case T_QSINK: {
        unsigned l = 999;
        int ret = upipe_get_max_length(p->upipe, &l);
        if (!ubase_check(ret) || l != p->max_length)
            sim_violation(V_GETTER_VALUE, "qsink: get_max_length returns %u, %u was set", l, p->max_length);
        break;
    }
    case T_QSRC: {
        unsigned l = 999;
        int ret = upipe_qsrc_get_max_length(p->upipe, &l);
        if (!ubase_check(ret) || l != p->max_length)
            sim_violation(V_GETTER_VALUE, "qsrc: get_max_length returns %u, the queue was allocated with %u", l, p->max_length);
        upipe_qsrc_get_length(p->upipe, &l);
        break;
    }
    default:
        break;
    }
}

/* ------------------------------------------------------------- one pass */
static void env_setup(const struct sim_plan *plan)
{
    static const uint16_t depth[] = { 0, 0, 1, 2, 8 };
    sim_alloc_reset();
    static const char *const allow[] = { "uref_std_alloc_inner", "ubuf_block_mem_alloc_inner",
                                         "ubuf_mem_shared_alloc_inner", NULL };
    sim_alloc_set_allow_list(allow);
    umem = umem_sim_mgr_alloc(3);
    udict_mgr = udict_inline_mgr_alloc(depth[(uint64_t)plan->cfg[CFG_UDICT_POOL] % 5], umem, -1, -1);
    uref_mgr = uref_std_mgr_alloc(depth[(uint64_t)plan->cfg[CFG_UREF_POOL] % 5], udict_mgr, 0);
    ubuf_mgr = ubuf_block_mem_mgr_alloc(depth[(uint64_t)plan->cfg[CFG_UBUF_POOL] % 5],
                                        depth[(uint64_t)plan->cfg[CFG_UBUF_POOL] % 5], umem, 8, 0, 0, 0);
    upump_mgr = upump_sim_mgr_alloc(depth[(uint64_t)plan->cfg[CFG_UREF_POOL] % 5],
                                    depth[(uint64_t)plan->cfg[CFG_UDICT_POOL] % 5]);
    memset(pipes, 0, sizeof(pipes));
    memset(sinks, 0, sizeof(sinks));
    nsinks = 0;
    npipes = 0;
    evseq = 0;
    next_seq = 0;
    mq_head = mq_tail = 0;
    stop_checking = false;
    obs_hash = 0x0b5;
}

void req_reset(void);
void req_teardown(void);
void req_pre_teardown(bool unregister_first);
bool req_check_quiescent(const char *when);

static void build_topology(const struct sim_plan *plan)
{
    topo = (int)((uint64_t)plan->cfg[CFG_TOPO] % 3);
    noloop = topo == TOPO_QUEUE && ((uint64_t)plan->cfg[CFG_NOLOOP] & 1);
    react_mode = (int)((uint64_t)plan->cfg[CFG_REACT] % 3);
    if (topo == TOPO_CHAIN) {
        npipes = 1 + (int)((uint64_t)(plan->cfg[CFG_NPIPES] - 1) % 4);
        for (int i = 0; i < npipes; i++)
            alloc_pipe(i, (int)((uint64_t)plan->cfg[CFG_TYPES + i] % T__CHAIN_N), 0, 0);
        int j = sink_new();
        for (int i = npipes - 1; i >= 0; i--) {
            pipes[i].orig_out = i == npipes - 1 ? 100 + j : i + 1;
            connect(i, pipes[i].orig_out);
        }
    } else if (topo == TOPO_DUP) {
        alloc_pipe(0, T_DUP, 0, 0);
        npipes = 1;
        int nsubs = 1 + (int)((uint64_t)plan->cfg[CFG_NSUBS] % 3);
        for (int k = 0; k < nsubs; k++) {
            int j = sink_new();
            alloc_pipe(1 + k, T_DUPSUB, 0, 0);
            pipes[1 + k].orig_out = 100 + j;
            connect(1 + k, 100 + j);
        }
    } else {
        unsigned qlen = 1 + (unsigned)((uint64_t)plan->cfg[CFG_QLEN] % 4);
        alloc_pipe(1, T_QSRC, 0, qlen);
        pipes[1].max_length = qlen;
        alloc_pipe(0, T_QSINK, 1, 0);
        int j = sink_new();
        pipes[1].orig_out = 100 + j;
        connect(1, 100 + j);
        pipes[0].out = -1;      /* the queue is not an output in the helper's sense */
        npipes = 2;
        /* attach the event loop on both sides (or on none) */
        if (!noloop) {
            upipe_attach_upump_mgr(pipes[1].upipe);
            upipe_attach_upump_mgr(pipes[0].upipe);
        } else
            SIM_PROBE("pipe_queue_without_event_loop");
    }
}

static void teardown_and_audit(const struct sim_plan *plan)
{
    bool clean = !sim_violation_class();
    req_pre_teardown((uint64_t)plan->cfg[CFG_TEARDOWN] & 2);
    /* let go of every handle, in one of two orders */
    if ((uint64_t)plan->cfg[CFG_TEARDOWN] & 1) {
        for (int i = MAXP - 1; i >= 0; i--)
            if (pipes[i].exists && pipes[i].upipe != NULL) {
                struct upipe *u = pipes[i].upipe;
                pipes[i].upipe = NULL;
                upipe_release(u);
            }
    } else {
        for (int i = 0; i < MAXP; i++)
            if (pipes[i].exists && pipes[i].upipe != NULL) {
                struct upipe *u = pipes[i].upipe;
                pipes[i].upipe = NULL;
                upipe_release(u);
            }
    }
    if (topo == TOPO_QUEUE) {
        /* the consumer side drains the queue and learns the end of source */
        run_loop(1000);
        if (clean && !stop_checking && !sim_violation_class()) {
            m_queue_deliver_all(1);
            compare_all(true);
        }
    }
    req_teardown();
    for (int j = 0; j < nsinks; j++)
        if (sinks[j].live && sinks[j].upipe.refcount != NULL) {
            sinks[j].app_released = true;
            upipe_release(&sinks[j].upipe);
        }
    if (clean && !sim_violation_class()) {
        for (int i = 0; i < MAXP; i++)
            if (pipes[i].exists && pipes[i].probe.ndead != 1)
                sim_violation(V_DEAD_TWICE, "%s (node %d) threw dead %d times after every handle was released",
                              type_name(pipes[i].type), i, pipes[i].probe.ndead);
        for (int j = 0; j < nsinks && !sim_violation_class(); j++)
            if (sinks[j].probe.ndead != 1)
                sim_violation(V_LEAK, "sink %d is still referenced after every pipe was released", j);
        for (int i = 0; i < MAXP && !sim_violation_class(); i++)
            if (pipes[i].exists && !urefcount_single(&pipes[i].probe.refcount))
                sim_violation(V_REFCOUNT, "probe of %s (node %d) is still referenced", type_name(pipes[i].type), i);
    }
    uref_mgr_vacuum(uref_mgr);
    udict_mgr_vacuum(udict_mgr);
    ubuf_mgr_vacuum(ubuf_mgr);
    upump_mgr_vacuum(upump_mgr);
    if (clean && !sim_violation_class()) {
        if (upump_sim_mgr_live_pumps(upump_mgr) != 0)
            sim_violation(V_LEAK, "%u pump(s) left in the event loop", upump_sim_mgr_live_pumps(upump_mgr));
        else if (!urefcount_single(uref_mgr->refcount))
            sim_violation(V_REFCOUNT, "uref manager not back to a single reference (a uref is still alive)");
        else if (!urefcount_single(ubuf_mgr->refcount))
            sim_violation(V_REFCOUNT, "ubuf manager not back to a single reference (a buffer is still alive)");
        else if (!urefcount_single(upump_mgr->refcount))
            sim_violation(V_REFCOUNT, "upump manager not back to a single reference");
        else if (umem_sim_live() != 0)
            sim_violation(V_LEAK, "%u memory area(s) left", umem_sim_live());
    }
    upump_mgr_release(upump_mgr);
    uref_mgr_release(uref_mgr);
    ubuf_mgr_release(ubuf_mgr);
    udict_mgr_release(udict_mgr);
    umem_mgr_release(umem);
    if (clean && !sim_violation_class() && sim_alloc_live() != 0) {
        char buf[160];
        sim_alloc_describe_live(buf, sizeof(buf));
        sim_violation(V_LEAK, "%u allocation(s) left after releasing everything: %s", sim_alloc_live(), buf);
    }
    if (clean && !sim_violation_class() && sim_fd_open_count() != 0)
        sim_violation(V_LEAK, "%d event descriptor(s) left open", sim_fd_open_count());
}

static uint64_t one_pass(const struct sim_plan *plan)
{
    env_setup(plan);
    req_reset();
    build_topology(plan);
    for (int i = 0; i < plan->nops && !sim_violation_class(); i++) {
        const struct sim_op *op = &plan->ops[i];
        if (sim_verbose)
            printf("    op %d: %s %" PRId64 " %" PRId64 " %" PRId64 " fault=%" PRId64 "\n", i, op_name(op->code),
                   op->a[0], op->a[1], op->a[2], op->a[5]);
        sim_ev(op_name(op->code), (uint64_t)op->a[0], (uint64_t)op->a[1]);
        do_op(op);
        if (prop == P_C12 && !sim_violation_class())
            req_check_quiescent(op_name(op->code));
        uint64_t st = (uint64_t)topo;
        for (int k = 0; k < MAXP; k++)
            st = sim_mix(st, pipes[k].exists ? ((uint64_t)pipes[k].type | (uint64_t)pipes[k].state << 8 |
                         (uint64_t)(pipes[k].out + 1) << 12 | (uint64_t)pipes[k].fd.set << 24 |
                         (uint64_t)(pipes[k].upipe != NULL) << 25) : 0);
        sim_sig_add(1, st);
    }
    teardown_and_audit(plan);
    sim_mark_nontrivial();
    return obs_hash;
}

/* C12 lives in its own file, compiled as part of this unit */
#include "epipe_req.c"

/* ---------------------------------------------------------------- engine */

static void gen_common(struct sim_rng *r, struct sim_plan *p, int which)
{
    p->cfg[CFG_PROP] = which;
    uint32_t t = sim_rng_below(r, 10);
    p->cfg[CFG_TOPO] = t < 6 ? TOPO_CHAIN : t < 8 ? TOPO_DUP : TOPO_QUEUE;
    p->cfg[CFG_NPIPES] = 1 + sim_rng_below(r, 4);
    for (int i = 0; i < 4; i++)
        p->cfg[CFG_TYPES + i] = sim_rng_below(r, T__CHAIN_N);
    p->cfg[CFG_UREF_POOL] = sim_rng_below(r, 5);
    p->cfg[CFG_UDICT_POOL] = sim_rng_below(r, 5);
    p->cfg[CFG_UBUF_POOL] = sim_rng_below(r, 5);
    p->cfg[CFG_QLEN] = sim_rng_below(r, 4);
    p->cfg[CFG_TEARDOWN] = sim_rng_below(r, 4);
    p->cfg[CFG_NSUBS] = sim_rng_below(r, 3);
    p->cfg[CFG_NOLOOP] = sim_rng_chance(r, 1, 4);
    p->cfg[CFG_REACT] = sim_rng_chance(r, 1, 3) ? 1 + sim_rng_below(r, 2) : 0;
    bool faults = which != P_C20 && which != P_C12 && sim_rng_chance(r, which == P_C01 ? 2 : 1, 3);
    p->cfg[CFG_FAULTS] = faults;
    int n = 5 + (int)sim_rng_below(r, 36);
    /* most runs negotiate a flow first, some deliberately do not */
    if (sim_rng_chance(r, 5, 6))
        sim_plan_add(p, 0, OP_SET_FLOW_DEF, sim_rng_below(r, 2), sim_rng_below(r, 3), 0, 0, 0, 0);
    for (int i = 0; i < n; i++) {
        int64_t f = faults && sim_rng_chance(r, 1, 5) ? 1 + sim_rng_below(r, 4) : 0;
        uint32_t c = sim_rng_below(r, 100);
        int pp = (int)sim_rng_below(r, MAXP);
        if (p->cfg[CFG_TOPO] == TOPO_QUEUE) {
            /* queues: bursts that stall the sink, few loop runs, flushes and
             * flow definition changes in the middle of a stall */
            if (c < 40) sim_plan_add(p, 0, OP_INPUT, sim_rng_below(r, 4), sim_rng_below(r, 10), sim_rng_below(r, 64), sim_rng_below(r, 2), 0, f);
            else if (c < 52) sim_plan_add(p, 0, OP_SET_FLOW_DEF, sim_rng_below(r, 2), sim_rng_below(r, 3), 0, 0, 0, f);
            else if (c < 64) sim_plan_add(p, 0, OP_RUN, sim_rng_below(r, 12), 0, 0, 0, 0, 0);
            else if (c < 73) sim_plan_add(p, 0, OP_FLUSH, 0, sim_rng_below(r, 24), sim_rng_below(r, 6), 0, 0, 0);
            else if (c < 79) sim_plan_add(p, 0, OP_OPTION, pp, sim_rng_below(r, 7), 0, 0, 0, 0);
            else if (c < (which == P_C20 ? 92 : 84)) sim_plan_add(p, 0, OP_GETTER, pp, sim_rng_below(r, 4), 0, 0, 0, 0);
            else if (c < 93) sim_plan_add(p, 0, OP_SET_OUTPUT, pp, sim_rng_below(r, 4), sim_rng_below(r, 3), sim_rng_below(r, 4), 0, 0);
            else if (c < 98) sim_plan_add(p, 0, OP_SINK_MODE, sim_rng_below(r, MAXS), sim_rng_below(r, 3), sim_rng_below(r, 2), 0, 0, 0);
            else sim_plan_add(p, 0, OP_RELEASE, pp, 0, 0, 0, 0, 0);
            continue;
        }
        if (which != P_C20 && sim_rng_chance(r, 1, 12)) {
            /* the data plane with requests registered, answered from inside
             * register / set_output, and requesters that send from their callback */
            uint32_t q = sim_rng_below(r, 4);
            if (q < 2) sim_plan_add(p, 0, OP_REQ_REGISTER, sim_rng_below(r, 4), sim_rng_below(r, 2), sim_rng_below(r, 4), sim_rng_below(r, 3), 0, 0);
            else if (q < 3) sim_plan_add(p, 0, OP_REQ_UNREGISTER, sim_rng_below(r, 4), 0, 0, 0, 0, 0);
            else sim_plan_add(p, 0, OP_REQ_PROVIDE, sim_rng_below(r, MAXS), sim_rng_below(r, 8), sim_rng_below(r, 1000), 0, 0, 0);
            continue;
        }
        if (c < 38) sim_plan_add(p, 0, OP_INPUT, sim_rng_below(r, 4), sim_rng_below(r, 10), sim_rng_below(r, 64), sim_rng_below(r, 2), 0, f);
        else if (c < 46) sim_plan_add(p, 0, OP_SET_FLOW_DEF, sim_rng_below(r, 12) == 0 ? 2 : sim_rng_below(r, 2), sim_rng_below(r, 3), 0, 0, 0, f);
        else if (c < 56) sim_plan_add(p, 0, OP_SET_OUTPUT, pp, sim_rng_below(r, 4), sim_rng_below(r, 3), sim_rng_below(r, 4), 0, 0);
        else if (c < 63) sim_plan_add(p, 0, OP_SINK_MODE, sim_rng_below(r, MAXS), sim_rng_below(r, 3), sim_rng_below(r, 2), 0, 0, 0);
        else if (c < 74) sim_plan_add(p, 0, OP_OPTION, pp, sim_rng_below(r, 7), sim_rng_below(r, 50), 0, 0, f);
        else if (c < (which == P_C20 ? 92 : 78)) sim_plan_add(p, 0, OP_GETTER, pp, sim_rng_below(r, 4), 0, 0, 0, 0);
        else if (c < 94) sim_plan_add(p, 0, OP_RUN, sim_rng_below(r, 12), 0, 0, 0, 0, 0);
        else if (c < 96) sim_plan_add(p, 0, OP_FLUSH, pp, sim_rng_below(r, 24), sim_rng_below(r, 6), 0, 0, 0);
        else if (c < 98) sim_plan_add(p, 0, OP_ADD_SUB, 0, sim_rng_below(r, 3), 0, 0, 0, f);
        else sim_plan_add(p, 0, OP_RELEASE, pp, 0, 0, 0, 0, 0);
    }
    if (which == P_C01) {
        /* lifetime edges: re-plumb to nothing, release in the middle */
        for (int i = 0; i < 3; i++)
            sim_plan_add(p, 0, sim_rng_chance(r, 1, 2) ? OP_SET_OUTPUT : OP_RELEASE,
                         sim_rng_below(r, MAXP), sim_rng_below(r, 4), 0, 0, 0, 0);
    }
}

static void gen(const char *pr, struct sim_rng *r, struct sim_plan *p)
{
    int which = atoi(pr + 1);
    if (which == P_C12)
        gen_req(r, p);
    else
        gen_common(r, p, which);
}

static void run(const char *pr, const struct sim_plan *plan)
{
    prop = atoi(pr + 1);
    skip_getters = false;
    if (prop == P_C20)
        sim_set_fixed_choices(true);    /* both passes must take the same choices */
    uint64_t h1 = one_pass(plan);
    if (prop == P_C20 && !sim_violation_class()) {
        /* perturbation differential: the same plan without the getter calls
         * must show the sinks and the probes exactly the same history */
        bool any = false;
        for (int i = 0; i < plan->nops; i++)
            any = any || plan->ops[i].code == OP_GETTER;
        if (any) {
            skip_getters = true;
            uint64_t h2 = one_pass(plan);
            skip_getters = false;
            if (!sim_violation_class() && h1 != h2)
                sim_violation(V_GETTER_EFFECT, "the history seen by sinks and probes differs when the getter calls "
                              "are left out (%016" PRIx64 " vs %016" PRIx64 ")", h1, h2);
        }
    }
}

static const char *const props[] = { "C01", "C04", "C05", "C12", "C20", NULL };
const struct sim_engine sim_engine = {
    .name = "epipe", .props = props, .gen = gen, .run = run,
    .class_name = class_name, .op_name = op_name,
};

int main(int argc, char **argv) { return sim_main(argc, argv); }
