#!/bin/sh
# usage: tools/seed_confirm.sh <scratch-name> <property> <seeded-id> [seconds]
# confirms a sub-agent's seeded change: demo fails with / passes without the change in the scratch copy,
# the suite passes with it, then runs our check with the patch applied to /repo (and undoes it).
set -u
d=/tmp/wt-$1; prop=$2; id=$3; secs=${4:-30}
out=/verif/seeded/$id; mkdir -p $out
cd $d || exit 2
cp _seeded/patch.diff $out/patch.diff
for f in demo.c run.sh notes.md; do [ -f _seeded/$f ] && cp _seeded/$f $out/; done
for sd in include standin; do [ -d _seeded/$sd ] && cp -r _seeded/$sd $out/; done
echo "== demo with the change applied"; (sh _seeded/run.sh >/tmp/seed_with.log 2>&1; echo "exit=$?") | tee $out/confirm.log
echo "== make check with the change"; make -j16 check >/tmp/seed_make.log 2>&1; grep -h "^# \(TOTAL\|PASS\|FAIL\)" tests/test-suite.log | tr '\n' ' ' | tee -a $out/confirm.log; echo | tee -a $out/confirm.log
git diff -- include lib > /tmp/seed_patch.diff
git checkout -q -- include lib
make -j8 >/dev/null 2>&1   # (a demo that links the built libraries needs them without the change)
echo "== demo without the change"; (sh _seeded/run.sh >/tmp/seed_without.log 2>&1; echo "exit=$?") | tee -a $out/confirm.log
git apply /tmp/seed_patch.diff
make -j8 >/dev/null 2>&1
echo "== our check on /repo with the patch"
git -C /repo diff --quiet || { echo "repo dirty"; exit 2; }
if git -C /repo apply $out/patch.diff; then
  VERIF_EVIDENCE=/verif/build/evidence_scratch python3 /verif/tools/check.py $prop --time $secs > /tmp/seed_check.log 2>&1; rc=$?
  git -C /repo checkout -- .
  echo "check exit=$rc $(grep -c '^VIOLATION' /tmp/seed_check.log) violation(s)" | tee -a $out/confirm.log
  grep -A1 '^VIOLATION' /tmp/seed_check.log | head -6 | cut -c1-250 | tee -a $out/confirm.log
else
  echo "patch does not apply to /repo HEAD" | tee -a $out/confirm.log
fi
