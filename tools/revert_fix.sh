#!/bin/sh
# usage: tools/revert_fix.sh <commit> <property> [seconds]
# reverts one "fix:" commit of /repo in the working tree, runs the check (it must raise a VIOLATION), restores the tree
set -u
c=$1; prop=$2; secs=${3:-20}
git -C /repo diff --quiet || { echo "repo dirty"; exit 2; }
git -C /repo show "$c" | git -C /repo apply -R || { echo "cannot revert $c"; exit 2; }
VERIF_EVIDENCE=/verif/build/evidence_scratch python3 /verif/tools/check.py "$prop" --time "$secs" > /tmp/revert.out 2>&1
rc=$?
git -C /repo checkout -- .
echo "reverted=$c ($(git -C /repo log --format=%s -1 $c | cut -c1-70)) property=$prop exit=$rc $(grep -c '^VIOLATION' /tmp/revert.out) violation(s)"
grep -A1 '^VIOLATION' /tmp/revert.out | head -2 | cut -c1-200
exit $rc
