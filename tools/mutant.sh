#!/bin/sh
# usage: tools/mutant.sh <patch.diff> <property> [seconds]
# applies a mutant of /repo, runs the check, reverts. Prints the check's verdict.
set -u
patch=$(readlink -f "$1"); prop=$2; secs=${3:-15}
git -C /repo diff --quiet || { echo "repo dirty"; exit 2; }
git -C /repo apply "$patch" || { echo "patch does not apply"; exit 2; }
VERIF_EVIDENCE=/verif/build/evidence_scratch python3 /verif/tools/check.py "$prop" --time "$secs" > /tmp/mutant.out 2>&1
rc=$?
git -C /repo checkout -- .
echo "mutant=$(basename $patch) property=$prop exit=$rc $(grep -c '^VIOLATION' /tmp/mutant.out) violation(s)"
grep -A1 '^VIOLATION' /tmp/mutant.out | head -4 | cut -c1-220
tail -1 /tmp/mutant.out | cut -c1-200
exit $rc
