#!/bin/sh
# usage: tools/dbg.sh <engine> <prop> <seed> <index>   -> shrinks, then replays verbosely
exe=/verif/build/$1/$1
mkdir -p /verif/replays
$exe shrink $2 $3 $4 /verif/replays/dbg.replay | tail -2
$exe replay /verif/replays/dbg.replay -v 2>&1 | tail -${5:-80}
