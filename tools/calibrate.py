#!/usr/bin/env python3
"""Calibrates the fixed work of the quick tier: runs every property time-based for its nominal quick time on
an otherwise idle sandbox and writes tools/budgets.json with, per property and engine, a share of the runs that
fitted (default 0.5: a fresh restore under some load still reaches the same numbers before the time cap).
usage: tools/calibrate.py [share] [property...]"""
import os, sys, json, subprocess
ROOT = os.path.dirname(os.path.dirname(os.path.abspath(__file__)))
sys.path.insert(0, os.path.join(ROOT, 'tools'))
from catalogue import PROPS
share = float(sys.argv[1]) if len(sys.argv) > 1 else 0.5
props = sys.argv[2:] or sorted(PROPS)
path = os.path.join(ROOT, 'tools', 'budgets.json')
budgets = json.load(open(path)) if os.path.exists(path) else {}
evdir = os.path.join(ROOT, 'build', 'evidence_calibrate')
for p in props:
    t = PROPS[p].get('quick_time', 30)
    subprocess.run(['python3', os.path.join(ROOT, 'tools', 'check.py'), p, '--time', str(t)],
                   env=dict(os.environ, VERIF_EVIDENCE=evdir), capture_output=True)
    ev = json.load(open(os.path.join(evdir, p + '.json')))
    per = ev['coverage']['runs_per_engine']
    budgets[p] = {e: max(16, int(n * share) // 16 * 16) for e, n in per.items()}
    print(p, per, '->', budgets[p], flush=True)
    json.dump(budgets, open(path, 'w'), indent=1, sort_keys=True)
