#!/bin/sh
# usage: tools/determinism.sh <engine> <prop> [count-per-process] [processes]
# runs the same seeds twice in separate processes (and once more while the
# other processes load the machine) and compares the event-log / schedule hashes
exe=/verif/build/$1/$1; prop=$2; n=${3:-500}; procs=${4:-16}
d=$(mktemp -d /verif/build/det.XXXXXX)
i=0
while [ $i -lt $procs ]; do
  first=$((i * 1000003))
  ( $exe run $prop 7 $first $n --hashes 2>/dev/null | grep '^H ' > $d/a.$i ) &
  i=$((i+1))
done
wait
i=0
while [ $i -lt $procs ]; do
  first=$((i * 1000003))
  $exe run $prop 7 $first $n --hashes 2>/dev/null | grep '^H ' > $d/b.$i
  i=$((i+1))
done
bad=0; tot=0
i=0
while [ $i -lt $procs ]; do
  tot=$((tot + $(wc -l < $d/a.$i)))
  cmp -s $d/a.$i $d/b.$i || { bad=$((bad+1)); diff $d/a.$i $d/b.$i | head -3; }
  i=$((i+1))
done
echo "determinism $1/$prop: $tot runs x2 (16-way parallel vs sequential), $bad mismatching process(es)"
rm -rf $d
[ $bad -eq 0 ]
