#!/usr/bin/env python3
"""Regenerates MANIFEST.json from tools/catalogue.py (claimed checks) and the
not-applicable / not-yet-claimed reasons below."""
import json, os, sys, subprocess
ROOT = os.path.dirname(os.path.dirname(os.path.abspath(__file__)))
sys.path.insert(0, os.path.join(ROOT, 'tools'))
from catalogue import ENGINES, PROPS, NOT_APPLICABLE, LEVEL_TEXT

def hook_commits():
    out = subprocess.run(['git', '-C', '/repo', 'log', '--format=%H %s'], capture_output=True, text=True).stdout
    return [l.split()[0] for l in out.splitlines() if ' verif hook:' in l]

m = {
 'version': 1,
 'setup_cmd': 'python3 tools/check.py --setup',
 'hooks': {
  'guard': 'UPIPE_VERIF_SIM',
  'enable': '-DUPIPE_VERIF_SIM on the compiler command line of the harness builds only (tools/check.py compiles the needed /repo sources directly with gcc; the autotools build of /repo never defines it)',
  'baseline_off_cmd': 'make -C /repo -j16 check',
  'source_commits': hook_commits(),
  'add_only': True,
 },
 'engines': [{'name': n, 'path': e['src'][0], 'serves_properties': sorted(p for p in PROPS if n in (PROPS[p].get('engines') or [PROPS[p]['engine']])),
              'kind_free_text': e.get('kind', 'deterministic simulation harness (C, fibers, seeded scheduler, fault injection)')}
             for n, e in ENGINES.items()],
 'checks': [],
 'notes': 'All claimed checks are decided by deterministic simulation with fault injection (DESIGN.md). baseline_off_cmd exits non-zero by construction: tests/upipe_m3u_reader_test.sh always fails (BASELINE.json always_fail); compare per-test results (82 PASS).',
 'not_applicable': [{'property_id': k, 'reason': v} for k, v in sorted(NOT_APPLICABLE.items()) if k not in PROPS],
}
for p in sorted(PROPS):
    info = PROPS[p]
    m['checks'].append({
        'property_id': p,
        'quick_cmd': 'python3 tools/check.py %s --tier quick' % p,
        'thorough_cmd': 'python3 tools/check.py %s --tier thorough' % p,
        'evidence_file': 'evidence/%s.json' % p,
        'replay_cmd_template': 'python3 tools/check.py %s --replay {path} -v' % p,
        'engine': info['engine'],
        'level_claimed': {'category': 'exploration', 'text': LEVEL_TEXT[p], 'design_ref': info.get('design_ref', 'DESIGN.md section 5')},
        'level_note': info['level_note'],
        'technique': info['technique'],
    })
json.dump(m, open(os.path.join(ROOT, 'MANIFEST.json'), 'w'), indent=1)
print('checks:', [c['property_id'] for c in m['checks']], 'n/a:', [n['property_id'] for n in m['not_applicable']])
