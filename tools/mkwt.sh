#!/bin/sh
# usage: tools/mkwt.sh <name>   -> creates scratch copy /tmp/wt-<name> of /repo (with its build), wrappers removed
set -e
d=/tmp/wt-$1
rm -rf "$d"
cp -a /repo "$d"
# libtool wrapper scripts embed absolute library paths: force a relink of every test
find "$d/tests" -maxdepth 1 -type f -name '*_test' -delete
rm -rf "$d/tests/.libs"
git -C "$d" checkout -q -- . 2>/dev/null || true
mkdir -p "$d/_seeded"
echo "$d"
