#!/usr/bin/env python3
"""Driver of the deterministic-simulation checks: build, run, shrink, gate, evidence.

  python3 tools/check.py --setup
  python3 tools/check.py <property> [--tier quick|thorough] [--seed N] [--time S] [--jobs N]
  python3 tools/check.py <property> --replay <file> [-v]

Exit status: 0 = the property held on everything explored (KNOWN-FINDING lines
possible), 1 = at least one "VIOLATION property=<id> replay=<path>" line,
2 = infrastructure error (nothing reported is to be believed).
"""
import os, sys, json, time, subprocess, hashlib, struct, array, shutil, re
from concurrent.futures import ThreadPoolExecutor

ROOT = os.path.dirname(os.path.dirname(os.path.abspath(__file__)))
REPO = os.environ.get('VERIF_REPO', '/repo')
BUILD = os.environ.get('VERIF_BUILD', os.path.join(ROOT, 'build'))
FAST = os.environ.get('VERIF_FAST') == '1'      # sensitivity runs: one unshrunk replay per class
sys.path.insert(0, os.path.join(ROOT, 'tools'))
from catalogue import ENGINES, PROPS   # noqa: E402

CC = 'gcc'
CFLAGS = ['-std=gnu11', '-O1', '-g', '-fsanitize=address,undefined',
          '-fno-sanitize-recover=undefined', '-fno-omit-frame-pointer',
          '-fno-common', '-DUPIPE_VERIF_SIM', '-D_GNU_SOURCE',
          '-Wall', '-Wno-unused-parameter', '-Wno-unused-function',
          '-Wno-misleading-indentation']
WRAP_FD = ['eventfd', 'eventfd_read', 'eventfd_write', 'close']


def log(*a):
    print(*a, file=sys.stderr, flush=True)


# --------------------------------------------------------------------- build
def needs_rebuild(obj, dep, stamp, flags_id):
    if not (os.path.exists(obj) and os.path.exists(dep) and os.path.exists(stamp)):
        return True
    if open(stamp).read() != flags_id:
        return True
    mt = os.path.getmtime(obj)
    try:
        txt = open(dep).read().replace('\\\n', ' ')
        deps = txt.split(':', 1)[1].split()
    except Exception:
        return True
    for d in deps:
        try:
            if os.path.getmtime(d) > mt:
                return True
        except OSError:
            return True
    return False


def compile_one(job):
    src, obj, dep, stamp, flags, flags_id = job
    os.makedirs(os.path.dirname(obj), exist_ok=True)
    redefine = flags and flags[0] == '@redefine'
    if redefine:
        flags = flags[1:]
    cmd = [CC] + flags + ['-MMD', '-MF', dep, '-c', src, '-o', obj]
    r = subprocess.run(cmd, capture_output=True, text=True)
    if r.returncode != 0:
        return (src, r.stderr)
    if redefine:
        # route the allocator calls of this object through sim/alloc.c
        args = []
        for f in ('malloc', 'calloc', 'realloc', 'free', 'strdup', 'strndup'):
            args += ['--redefine-sym', '%s=sim_repo_%s' % (f, f)]
        r = subprocess.run(['objcopy'] + args + [obj], capture_output=True, text=True)
        if r.returncode != 0:
            return (src, r.stderr)
    open(stamp, 'w').write(flags_id)
    return None


def build_engine(name, jobs=16):
    e = ENGINES[name]
    odir = os.path.join(BUILD, name)
    os.makedirs(odir, exist_ok=True)
    incs = ['-I' + os.path.join(ROOT, p) for p in e.get('inc_first', [])]
    incs += ['-I' + os.path.join(REPO, 'include'), '-I' + os.path.join(REPO, 'lib'),
             '-I' + ROOT]
    flags = CFLAGS + e.get('cflags', []) + incs
    flags_id = hashlib.sha1(' '.join(flags).encode()).hexdigest()
    sim_srcs = [os.path.join(ROOT, 'sim', 'sim.c'), os.path.join(ROOT, 'sim', 'main.c')]
    sim_srcs += [os.path.join(ROOT, s) for s in e.get('sim_src', [])]
    srcs = list(sim_srcs)
    srcs += [os.path.join(ROOT, s) for s in e['src']]
    srcs += [os.path.join(REPO, s) for s in e.get('repo_src', [])]
    todo, objs = [], []
    base_flags, base_id = flags, flags_id
    for s in srcs:
        flags, flags_id = base_flags, base_id
        if e.get('track_alloc') and s not in sim_srcs:
            flags = ['@redefine'] + base_flags
            flags_id = base_id + 'R'
        tag = hashlib.sha1(s.encode()).hexdigest()[:8]
        base = os.path.join(odir, os.path.basename(s)[:-2] + '.' + tag)
        obj, dep, stamp = base + '.o', base + '.d', base + '.flags'
        objs.append(obj)
        if needs_rebuild(obj, dep, stamp, flags_id):
            todo.append((s, obj, dep, stamp, flags, flags_id))
    exe = os.path.join(odir, name)
    if todo:
        with ThreadPoolExecutor(max_workers=jobs) as ex:
            errs = [r for r in ex.map(compile_one, todo) if r]
        if errs:
            for src, err in errs:
                log('BUILD ERROR in', src)
                log(err)
            return None
    link_id = hashlib.sha1((' '.join(objs) + ' '.join(e.get('wrap', []))).encode()).hexdigest()
    link_stamp = exe + '.link'
    if (todo or not os.path.exists(exe) or not os.path.exists(link_stamp)
            or open(link_stamp).read() != link_id):
        wraps = WRAP_FD + e.get('wrap', [])
        cmd = [CC] + ['-fsanitize=address,undefined', '-g'] + objs + \
              ['-Wl,' + ','.join('--wrap=' + w for w in wraps)] + e.get('ldflags', []) + \
              ['-o', exe]
        r = subprocess.run(cmd, capture_output=True, text=True)
        if r.returncode != 0:
            log('LINK ERROR', name)
            log(r.stderr)
            return None
        open(link_stamp, 'w').write(link_id)
    return exe


# ----------------------------------------------------------- known findings
def load_known():
    known = []
    path = os.path.join(ROOT, 'known_findings.txt')
    if not os.path.exists(path):
        return known
    for line in open(path):
        line = line.strip()
        if not line.startswith('known:'):
            continue
        body, _, what = line[6:].partition(' -- ')
        m = re.match(r'\s*property=(\S+)\s+class=(\S+)\s+match=(.*)$', body)
        if m:
            known.append({'property': m.group(1), 'class': m.group(2),
                          'match': m.group(3).strip(), 'what': what.strip()})
    return known


def match_known(known, prop, cls, msg):
    for k in known:
        if k['property'] == prop and k['class'] == cls and k['match'] in msg:
            return k
    return None


# ----------------------------------------------------------------- running
class Worker:
    def __init__(self, exe, prop, base, wid, first, count, tlimit, tmpdir):
        self.exe, self.prop, self.base, self.wid = exe, prop, base, wid
        self.first, self.count, self.tlimit, self.tmpdir = first, count, tlimit, tmpdir
        self.progress = os.path.join(tmpdir, 'progress.%d' % wid)
        self.sigs = os.path.join(tmpdir, 'sigs.%d' % wid)
        self.proc = None
        self.deadline = time.time() + tlimit
        self.out_chunks = []
        self.restarts = 0
        self.start(first)

    def start(self, first):
        left = self.deadline - time.time()
        cnt = self.first + self.count - first
        if left <= 0.5 or cnt <= 0:
            self.proc = None
            return
        try:
            os.unlink(self.progress)
        except OSError:
            pass
        cmd = [self.exe, 'run', self.prop, str(self.base), str(first), str(cnt),
               '--progress', self.progress, '--sigs', '%s.r%d' % (self.sigs, self.restarts),
               '--time', '%.1f' % left]
        self.outpath = os.path.join(self.tmpdir, 'out.%d.%d' % (self.wid, self.restarts))
        self.outf = open(self.outpath, 'w')
        self.proc = subprocess.Popen(cmd, stdout=self.outf, stderr=subprocess.DEVNULL)
        self.last_progress = (None, time.time())

    def read_progress(self):
        try:
            d = open(self.progress, 'rb').read(16)
            return struct.unpack('QQ', d)
        except Exception:
            return None


def run_batch(exe, prop, base, tlimit, jobs, tmpdir, hang_s=15, count=None):
    """runs the workers; returns (lines, dead) where dead = [(index, kind)].
    count = number of runs per worker (None: as many as fit in tlimit)"""
    span = 1 << 40
    workers = [Worker(exe, prop, base, w, w * span, count or span, tlimit, tmpdir) for w in range(jobs)]
    dead = []
    outs = []
    lost_runs = 0
    while any(w.proc is not None for w in workers):
        time.sleep(0.2)
        for w in workers:
            if w.proc is None:
                continue
            rc = w.proc.poll()
            now = time.time()
            if rc is None:
                p = w.read_progress()
                if p is not None and p[0] != 0xffffffffffffffff:
                    if w.last_progress[0] != p[0]:
                        w.last_progress = (p[0], now)
                    elif now - w.last_progress[1] > hang_s:
                        w.proc.kill()
                        w.proc.wait()
                        w.outf.close()
                        outs.append(w.outpath)
                        dead.append((p[0], 'hang'))
                        lost_runs += p[1]
                        w.restarts += 1
                        w.start(p[0] + 1)
                continue
            w.outf.close()
            outs.append(w.outpath)
            if rc == 0:
                w.proc = None
                continue
            p = w.read_progress()
            if p is None or p[0] == 0xffffffffffffffff:
                dead.append((None, 'worker exit %d without progress' % rc))
                w.proc = None
                continue
            dead.append((p[0], 'crash'))
            lost_runs += p[1]
            w.restarts += 1
            if w.restarts > 50:
                w.proc = None
            else:
                w.start(p[0] + 1)
    lines = []
    for o in outs:
        lines += open(o).read().splitlines()
    if lost_runs:
        lines.append('DONE runs=%d' % lost_runs)
    return lines, dead


def merge_sigs(tmpdir, setno):
    s = set()
    n_files = 0
    for f in os.listdir(tmpdir):
        if f.startswith('sigs.') and f.endswith('.%d' % setno):
            a = array.array('Q')
            data = open(os.path.join(tmpdir, f), 'rb').read()
            a.frombytes(data[:len(data) // 8 * 8])
            s.update(a)
            n_files += 1
    return len(s)


def check(prop, tier, seed, tlimit, jobs, keep=False):
    t0 = time.time()
    pinfo = PROPS[prop]
    enames = pinfo.get('engines') or [pinfo['engine']]
    exes = []
    for en in enames:
        exe = build_engine(en, jobs)
        if exe is None:
            return 2
        exes.append(exe)
    ename = enames[0]
    build_s = time.time() - t0
    # the quick tier does a fixed amount of work (runs per engine, calibrated
    # on this sandbox to about the nominal time): the batch explored under one
    # seed is then the same whatever the load of the machine; the time limit
    # only caps it. An explicit --time and the thorough tier are time-based.
    budgets = {}
    if tlimit is None and tier == 'quick':
        try:
            budgets = json.load(open(os.path.join(ROOT, 'tools', 'budgets.json'))).get(prop, {})
        except Exception:
            budgets = {}
    if tlimit is None:
        tlimit = pinfo.get(tier + '_time', 30 if tier == 'quick' else 600)
    os.makedirs(os.path.join(ROOT, 'replays'), exist_ok=True)
    os.makedirs(os.path.join(ROOT, 'evidence'), exist_ok=True)
    known = load_known()

    t1 = time.time()
    tot = {}
    stats = {}
    per_engine = {}
    viols = []
    dead_all = []
    tmpdirs = []
    for exe in exes:
        tmpdir = os.path.join(BUILD, 'run.%s.%s.%d' % (prop, os.path.basename(exe), os.getpid()))
        shutil.rmtree(tmpdir, ignore_errors=True)
        os.makedirs(tmpdir)
        tmpdirs.append(tmpdir)
        nruns = budgets.get(os.path.basename(exe))
        if nruns:
            lines, dead = run_batch(exe, prop, seed, 4.0 * tlimit / len(exes), jobs, tmpdir,
                                    count=(int(nruns) + jobs - 1) // jobs)
        else:
            lines, dead = run_batch(exe, prop, seed, tlimit / len(exes), jobs, tmpdir)
        eruns = 0
        for ln in lines:
            if ln.startswith('DONE '):
                eruns += sum(int(kv.split('=')[1]) for kv in ln.split()[1:] if kv.startswith('runs='))
        per_engine[os.path.basename(exe)] = eruns
        for ln in lines:
            if ln.startswith('DONE '):
                for kv in ln.split()[1:]:
                    k, v = kv.split('=')
                    if k in ('hashxor',):
                        continue
                    tot[k] = tot.get(k, 0) + (float(v) if '.' in v else int(v))
            elif ln.startswith('STAT '):
                _, k, v = ln.split()
                stats[k] = stats.get(k, 0) + int(v)
            elif ln.startswith('VIOL '):
                f = ln.split(' ', 5)
                viols.append({'index': int(f[1]), 'seed': int(f[2]), 'cls': int(f[3]),
                              'cls_name': f[4], 'msg': f[5] if len(f) > 5 else '', 'exe': exe})
        for index, kind in dead:
            dead_all.append((index, kind, exe))
    run_s = time.time() - t1
    dead = dead_all

    infra = []
    reported = []      # (kind, cls_name, msg, replay)
    # crashed / hung workers: reproduce in a fresh process, else infrastructure
    for index, kind, dexe in dead:
        if index is None:
            infra.append(kind)
            continue
        viols.append({'index': index, 'seed': None, 'cls': 900 if kind == 'crash' else 901,
                      'cls_name': kind, 'msg': 'worker died (%s) at index %d' % (kind, index), 'exe': dexe})

    # shrink + gate a few violations per class
    per_class = {}
    for v in sorted(viols, key=lambda v: v['index']):
        c = v['cls_name']
        k = match_known(known, prop, c, v['msg'])
        # one replay per known finding, three per class for anything else
        key = ('known', k['match']) if k else c
        per_class.setdefault(key, 0)
        limit = 1 if (k or v['cls'] >= 900 or FAST) else 3
        if per_class[key] >= limit:
            continue
        per_class[key] += 1
        exe = v['exe']
        rp = os.path.join(ROOT, 'replays', '%s-%s-%d-%d.replay' % (prop, os.path.basename(exe), seed, v['index']))
        r = subprocess.run([exe, 'shrink', prop, str(seed), str(v['index']), rp] + (['--no-shrink'] if FAST else []),
                           capture_output=True, text=True)
        out = r.stdout.strip().splitlines()
        if r.returncode != 0:
            infra.append('shrink of index %d failed: %s' % (v['index'], ' | '.join(out[-2:])))
            continue
        # gate (b): the minimised file reproduces the same class in a fresh process
        r2 = subprocess.run([exe, 'replay', rp], capture_output=True, text=True)
        m = re.search(r'recorded=(\S+) got=(\S+) hash=\S+ msg=(.*)$', r2.stdout.strip().splitlines()[-1]
                      if r2.stdout.strip() else '')
        if r2.returncode != 1 or not m or m.group(1) != m.group(2):
            infra.append('replay of %s does not reproduce: %s' % (rp, r2.stdout.strip()[-300:]))
            continue
        cls_name, msg = m.group(2), m.group(3)
        k = match_known(known, prop, cls_name, msg)
        if k:
            reported.append(('known', cls_name, k['what'] or msg, rp))
        else:
            reported.append(('violation', cls_name, msg, rp))

    n_viol = 0
    met = set(r[2] for r in reported if r[0] == 'known')
    for k in known:
        # every listed finding of this property is announced, met in this batch or not
        if k['property'] == prop and (k['what'] or k['match']) not in met:
            print('KNOWN-FINDING: property=%s %s (class %s; not met in this batch)' % (prop, k['what'] or k['match'], k['class']))
    for kind, cls_name, msg, rp in reported:
        if kind == 'known':
            print('KNOWN-FINDING: property=%s %s (class %s, replay %s)' % (prop, msg, cls_name, rp))
        else:
            n_viol += 1
            print('VIOLATION property=%s replay=%s' % (prop, rp))
            print('  class=%s %s' % (cls_name, msg))

    # -------------------------------------------------------------- evidence
    samples = []
    try:
        for sexe in exes:
            g = subprocess.run([sexe, 'gen', prop, str(seed), '0', '3'], capture_output=True, text=True)
            for ln in g.stdout.splitlines():
                samples.append(json.loads(ln))
    except Exception as ex:    # samples are mandatory for the schema
        infra.append('cannot produce samples: %r' % ex)
    distinct = sum(merge_sigs(t, 0) for t in tmpdirs)
    states = sum(merge_sigs(t, 1) for t in tmpdirs)
    runs = int(tot.get('runs', 0))
    faults = {k: v for k, v in stats.items() if k.startswith('fault_')}
    probes = {k: v for k, v in stats.items()
              if not k.startswith('fault_') and not k.startswith('strategy_')
              and not k.startswith('viol_') and not k.startswith('sig')}
    ev = {
        'property_id': prop, 'tier': tier, 'seed': seed, 'level': 'exploration',
        'coverage': {
            'evaluations': runs,
            'distinct_nontrivial': distinct,
            'rule': pinfo['rule'],
            'samples': samples,
            'simulated_runs_per_hour': int(runs / run_s * 3600) if run_s > 0 else 0,
            'simulated_time_s': tot.get('simtime', 0) / 27e6,
            'yield_points': int(tot.get('steps', 0)),
            'context_switches': int(tot.get('switches', 0)),
            'inconclusive_runs': int(tot.get('inconclusive', 0)),
            'faults_fired': faults,
            'reach_probes': probes,
            'schedule_strategies': {k: v for k, v in stats.items() if k.startswith('strategy_')},
            'distinct_abstract_states': states,
            'signature_set_overflow': stats.get('sig0_overflow', 0),
            'violations_by_class': {k[5:]: v for k, v in stats.items() if k.startswith('viol_')},
            'workers': jobs, 'worker_restarts': len(dead),
            'engines': enames,
            'runs_per_engine': per_engine,
            'budget': ('fixed number of runs per engine (tools/budgets.json), capped at 4 x the nominal time' if budgets
                       else 'time-based: %.0f s' % tlimit),
            'real_code': sorted(set(sum((ENGINES[e].get('real', []) for e in enames), []))),
            'stubs': sorted(set(sum((ENGINES[e].get('stubs', []) for e in enames), []))),
            'known_findings_matched': [r[2] for r in reported if r[0] == 'known'],
        },
        'assumptions': pinfo.get('assumptions', []),
        'wall_s': round(time.time() - t0, 2),
        'violations': n_viol,
        'build_s': round(build_s, 2), 'run_s': round(run_s, 2),
        'infrastructure_errors': infra,
    }
    evdir = os.environ.get('VERIF_EVIDENCE') or (os.path.join(BUILD, 'evidence_fast') if FAST else os.path.join(ROOT, 'evidence'))
    os.makedirs(evdir, exist_ok=True)
    with open(os.path.join(evdir, prop + '.json'), 'w') as f:
        json.dump(ev, f, indent=1)
    log('%s %s: %d runs in %.1fs (%d/h), %d distinct non-trivial, %d violations, %d known, infra=%d'
        % (prop, tier, runs, run_s, ev['coverage']['simulated_runs_per_hour'], distinct, n_viol,
           sum(1 for r in reported if r[0] == 'known'), len(infra)))
    if not keep:
        for t in tmpdirs:
            shutil.rmtree(t, ignore_errors=True)
    for i in infra:
        log('INFRASTRUCTURE:', i)
    if n_viol:
        return 1
    if infra:
        return 2
    if runs == 0:
        log('INFRASTRUCTURE: no run executed')
        return 2
    return 0


def main():
    args = sys.argv[1:]
    if not args:
        print(__doc__)
        return 2
    if args[0] == '--setup':
        ok = True
        for name in ENGINES:
            t = time.time()
            exe = build_engine(name)
            log('built %s in %.1fs' % (name, time.time() - t) if exe else 'FAILED ' + name)
            ok = ok and exe is not None
        return 0 if ok else 2
    prop = args[0]
    if prop not in PROPS:
        log('unknown property', prop)
        return 2
    tier = os.environ.get('VERIF_TIER', 'quick')
    seed = int(os.environ.get('VERIF_SEED', '1'))
    tlimit, jobs, replay, verbose, keep = None, 16, None, False, False
    i = 1
    while i < len(args):
        a = args[i]
        if a == '--tier': tier = args[i + 1]; i += 1
        elif a == '--seed': seed = int(args[i + 1]); i += 1
        elif a == '--time': tlimit = float(args[i + 1]); i += 1
        elif a == '--jobs': jobs = int(args[i + 1]); i += 1
        elif a == '--replay': replay = args[i + 1]; i += 1
        elif a == '-v': verbose = True
        elif a == '--keep': keep = True
        i += 1
    if tier not in ('quick', 'thorough'):
        tier = 'quick'
    if replay:
        en = PROPS[prop].get('engine') or PROPS[prop]['engines'][0]
        try:
            for ln in open(replay):
                if ln.startswith('engine '):
                    en = ln.split()[1]
                    break
        except OSError:
            pass
        exe = build_engine(en)
        if exe is None:
            return 2
        r = subprocess.run([exe, 'replay', replay] + (['-v'] if verbose else []))
        return r.returncode
    return check(prop, tier, seed & 0xffffffffffffffff, tlimit, jobs, keep)


if __name__ == '__main__':
    sys.exit(main())
