#!/usr/bin/env python3
"""Regenerates the table of DESIGN.md section 8 from evidence/sensitivity.json.
usage: tools/senstable.py [other-sensitivity.json ...]   (entries of the other files override those of the first by change name;
the merged result is written back to evidence/sensitivity.json)"""
import json, os, sys, re
ROOT = os.path.dirname(os.path.dirname(os.path.abspath(__file__)))
main = os.path.join(ROOT, 'evidence', 'sensitivity.json')
d = json.load(open(main))
by = {e['change']: e for e in d['changes']}
for f in sys.argv[1:]:
    for e in json.load(open(f))['changes']:
        by[e['change']] = e
d['changes'] = sorted(by.values(), key=lambda e: e['change'])
json.dump(d, open(main, 'w'), indent=1)
rows = []
for e in sorted(d['changes'], key=lambda e: (e['property'], e['change'])):
    if 'caught' not in e:
        res = e.get('result', '?')
    else:
        res = ('yes: ' + ', '.join(e['classes'])) if e['caught'] else 'NO (exit %d)' % e['exit']
    rows.append('| %s | `%s` | %s | %s |' % (e['property'], e['change'], e['origin'], res))
p = os.path.join(ROOT, 'DESIGN.md')
s = open(p).read()
head = '| property | change | origin | caught |\n|---|---|---|---|\n'
i = s.index(head) + len(head)
j = s.index('\nChecks strengthened because', i)
s = s[:i] + '\n'.join(rows) + '\n' + s[j:]
open(p, 'w').write(s)
n = len(d['changes']); seeded = sum(1 for e in d['changes'] if e['origin'].startswith('seeded'))
caught = sum(1 for e in d['changes'] if e.get('caught'))
print('%d changes (%d seeded, %d hand-made), %d caught' % (n, seeded, n - seeded, caught))
for e in d['changes']:
    if not e.get('caught'):
        print('NOT CAUGHT:', e['change'], e.get('exit'), e.get('result'))
