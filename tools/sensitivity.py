#!/usr/bin/env python3
"""Runs every hand mutant (mutants/*.diff) and every seeded change (seeded/<id>/patch.diff)
against the check of its property and records whether it is caught.
usage: tools/sensitivity.py [seconds-per-run | quick] [only-prefix]   (quick = the registered quick tier, fixed work)
Writes evidence/sensitivity.json. /repo must be clean; every patch is undone right after its run."""
import os, sys, json, subprocess, glob, re, time
ROOT = os.path.dirname(os.path.dirname(os.path.abspath(__file__)))
REPO = os.environ.get('VERIF_REPO', '/repo')
secs = sys.argv[1] if len(sys.argv) > 1 else '20'
only = sys.argv[2] if len(sys.argv) > 2 else ''
items = []
for f in sorted(glob.glob(os.path.join(ROOT, 'mutants', '*.diff'))):
    m = re.match(r'c(\d\d)', os.path.basename(f))
    items.append((os.path.basename(f)[:-5], 'C' + m.group(1), f, 'hand-made'))
for d in sorted(glob.glob(os.path.join(ROOT, 'seeded', '*'))):
    meta = json.load(open(os.path.join(d, 'meta.json')))
    items.append((os.path.basename(d), meta['property'], os.path.join(d, 'patch.diff'), 'seeded by a sub-agent'))
res = []
if subprocess.run(['git', '-C', REPO, 'diff', '--quiet']).returncode != 0:
    sys.exit('repo dirty')
for name, prop, patch, origin in items:
    if only and not name.lower().startswith(only.lower()):
        continue
    r = subprocess.run(['git', '-C', REPO, 'apply', patch], capture_output=True, text=True)
    if r.returncode != 0:
        res.append({'change': name, 'property': prop, 'origin': origin, 'result': 'patch does not apply to the current tree'})
        print(name, prop, 'DOES NOT APPLY', flush=True)
        continue
    t = time.time()
    try:
        c = subprocess.run(['python3', os.path.join(ROOT, 'tools', 'check.py'), prop] + ([] if secs == 'quick' else ['--time', secs]),
                           capture_output=True, text=True, env=dict(os.environ, VERIF_FAST='1'))
    finally:
        subprocess.run(['git', '-C', REPO, 'checkout', '--', '.'])
    classes = re.findall(r'^  class=(\S+)', c.stdout, re.M)
    m = re.search(r'(\d+) runs in', c.stderr)
    caught = c.returncode == 1 and 'VIOLATION' in c.stdout
    res.append({'change': name, 'property': prop, 'origin': origin, 'caught': caught, 'exit': c.returncode,
                'classes': sorted(set(classes)), 'runs': int(m.group(1)) if m else None,
                'seconds': round(time.time() - t, 1)})
    print(name, prop, 'CAUGHT' if caught else 'MISSED(exit %d)' % c.returncode, sorted(set(classes)), flush=True)
out = os.path.join(ROOT, 'evidence', 'sensitivity.json')
old = []
if only and os.path.exists(out):
    old = [e for e in json.load(open(out))['changes'] if not e['change'].lower().startswith(only.lower())]
json.dump({'budget_s_per_change': (secs if secs == 'quick' else float(secs)), 'changes': sorted(old + res, key=lambda e: e['change'])}, open(out, 'w'), indent=1)
print('caught %d of %d' % (sum(1 for e in res if e.get('caught')), len(res)))
