"""Engines (harness binaries) and properties served; data only."""

SIM_STUBS = ['kernel eventfd (descriptor table in sim/sim.c)',
             'threads (ucontext fibers scheduled from the seed)']

ENGINES = {
    'estruct': {
        'src': ['harness/estruct.c'],
        'sim_src': ['sim/upump_sim.c', 'sim/alloc.c', 'sim/umem_sim.c'],
        'repo_src': ['lib/upipe/upump_common.c', 'lib/upipe/ubuf_block_mem.c', 'lib/upipe/ubuf_mem_common.c',
                     'lib/upipe/ubuf_pic_mem.c', 'lib/upipe/ubuf_pic_common.c', 'lib/upipe/ubuf_sound_mem.c',
                     'lib/upipe/ubuf_sound_common.c', 'lib/upipe/ubuf_mem.c', 'lib/upipe/ubuf_pic.c',
                     'lib/upipe/uref_pic_flow.c', 'lib/upipe/udict_inline.c'],
        'track_alloc': True,
        'real': ['include/upipe/uatomic.h', 'include/upipe/uring.h', 'include/upipe/ufifo.h',
                 'include/upipe/ulifo.h', 'include/upipe/upool.h', 'include/upipe/uqueue.h',
                 'include/upipe/ueventfd.h', 'include/upipe/urefcount.h', 'include/upipe/udeal.h',
                 'lib/upipe/upump_common.c', 'lib/upipe/ubuf_block_mem.c', 'include/upipe/ubuf_mem_common.h'],
        'stubs': SIM_STUBS + ['event loop (sim/upump_sim.c in place of libev, over the real upump_common.c)'],
    },
}

ENGINES['eloop'] = {
    'src': ['harness/eloop.c'],
    'sim_src': ['sim/upump_sim.c', 'sim/alloc.c'],
    'repo_src': ['lib/upipe/upump_common.c'],
    'track_alloc': True,
    'real': ['lib/upipe/upump_common.c', 'include/upipe/upump.h', 'include/upipe/upump_blocker.h',
             'include/upipe/upump_common.h', 'include/upipe/upool.h'],
    'stubs': ['event loop back end (sim/upump_sim.c in place of libev)', 'kernel eventfd', 'clock (simulated 27 MHz counter)',
              'malloc of the repo objects (sim/alloc.c: accounting + injected failures)'],
}

ENGINES['ebuf'] = {
    'src': ['harness/ebuf.c', 'harness/ebuf_dict.c'],
    'sim_src': ['sim/alloc.c', 'sim/umem_sim.c'],
    'repo_src': ['lib/upipe/ubuf_block_mem.c', 'lib/upipe/ubuf_mem_common.c', 'lib/upipe/ubuf_pic_mem.c',
                 'lib/upipe/ubuf_pic_common.c', 'lib/upipe/ubuf_sound_mem.c', 'lib/upipe/ubuf_sound_common.c',
                 'lib/upipe/ubuf_mem.c', 'lib/upipe/ubuf_pic.c', 'lib/upipe/uref_pic_flow.c',
                 'lib/upipe/udict_inline.c'],
    'track_alloc': True,
    'real': ['include/upipe/ubuf_block.h', 'include/upipe/ubuf_block_common.h', 'include/upipe/ubuf_mem_common.h',
             'lib/upipe/ubuf_block_mem.c', 'lib/upipe/ubuf_mem_common.c', 'lib/upipe/udict_inline.c', 'include/upipe/udict.h',
             'include/upipe/upool.h'],
    'stubs': ['buffer memory allocator (sim/umem_sim.c behind struct umem_mgr: accounting, red zones, injected failures)',
              'malloc of the repo objects (sim/alloc.c: accounting + injected failures at allow-listed callers)'],
}

MODULES = ['idem', 'null', 'dup', 'skip', 'htons', 'setattr', 'setflowdef', 'delay', 'match_attr', 'probe_uref',
           'queue_sink', 'queue_source', 'queue']
ENGINES['epipe'] = {
    'src': ['harness/epipe.c'],   # includes harness/epipe_req.c
    'sim_src': ['sim/alloc.c', 'sim/umem_sim.c', 'sim/upump_sim.c'],
    'repo_src': ['lib/upipe/ubuf_block_mem.c', 'lib/upipe/ubuf_mem_common.c', 'lib/upipe/ubuf_pic_mem.c',
                 'lib/upipe/ubuf_pic_common.c', 'lib/upipe/ubuf_sound_mem.c', 'lib/upipe/ubuf_sound_common.c',
                 'lib/upipe/ubuf_mem.c', 'lib/upipe/ubuf_pic.c', 'lib/upipe/uref_pic_flow.c',
                 'lib/upipe/udict_inline.c', 'lib/upipe/uref_std.c', 'lib/upipe/upump_common.c',
                 'lib/upipe/uprobe.c'] +
                ['lib/upipe-modules/upipe_%s.c' % m for m in MODULES],
    'track_alloc': True,
    'real': ['lib/upipe-modules/upipe_%s.c' % m for m in MODULES] +
            ['include/upipe/upipe_helper_output.h', 'include/upipe/upipe_helper_input.h', 'include/upipe/upipe_helper_subpipe.h',
             'include/upipe/upipe.h', 'include/upipe/urequest.h', 'lib/upipe/uref_std.c', 'lib/upipe/udict_inline.c',
             'lib/upipe/ubuf_block_mem.c', 'lib/upipe/upump_common.c', 'include/upipe/uqueue.h'],
    'stubs': ['event loop (sim/upump_sim.c) and clock', 'kernel eventfd', 'allocator (umem_sim + malloc layer with injected failures)',
              'application side: mock source, mock sinks (accept / reject flow definitions, lodge requests), recording probes'],
}

ENGINES['estream'] = {
    'src': ['harness/estream.c'],
    'sim_src': ['sim/alloc.c', 'sim/umem_sim.c'],
    'inc_first': ['shim'],
    'repo_src': ['lib/upipe/ubuf_block_mem.c', 'lib/upipe/ubuf_mem_common.c', 'lib/upipe/ubuf_pic_mem.c',
                 'lib/upipe/ubuf_pic_common.c', 'lib/upipe/ubuf_sound_mem.c', 'lib/upipe/ubuf_sound_common.c',
                 'lib/upipe/ubuf_mem.c', 'lib/upipe/ubuf_pic.c', 'lib/upipe/uref_pic_flow.c',
                 'lib/upipe/udict_inline.c', 'lib/upipe/uref_std.c', 'lib/upipe/uprobe.c',
                 'lib/upipe-modules/upipe_aggregate.c', 'lib/upipe-modules/upipe_chunk_stream.c',
                 'lib/upipe-ts/upipe_ts_sync.c', 'lib/upipe-ts/upipe_ts_check.c'],
    'track_alloc': True,
    'real': ['lib/upipe-modules/upipe_aggregate.c', 'lib/upipe-modules/upipe_chunk_stream.c', 'lib/upipe-ts/upipe_ts_sync.c',
             'lib/upipe-ts/upipe_ts_check.c', 'include/upipe/upipe_helper_uref_stream.h', 'include/upipe/upipe_helper_output_size.h',
             'include/upipe/ubuf_block.h', 'lib/upipe/ubuf_block_mem.c', 'lib/upipe/uref_std.c'],
    'stubs': ['transport that cuts the byte stream into buffers (seeded fragmentation, segmentation, discontinuities)',
              'allocator (umem_sim + malloc layer with injected failures)', 'mock sink collecting the units',
              'bitstream/mpeg/ts.h replaced by shim/bitstream/mpeg/ts.h (TS_SIZE only is used here)'],
}

THREAD_MODULES = ['idem', 'queue_sink', 'queue_source', 'queue', 'transfer', 'worker']
PTHREAD_WRAPS = ['pthread_create', 'pthread_join', 'pthread_self', 'pthread_equal', 'pthread_setname_np',
                 'pthread_sigmask', 'pthread_setcanceltype', 'setpriority', 'pthread_key_create', 'pthread_key_delete',
                 'pthread_getspecific', 'pthread_setspecific', 'pthread_mutex_init', 'pthread_mutex_destroy',
                 'pthread_mutex_lock', 'pthread_mutex_unlock']
ENGINES['ethread'] = {
    'src': ['harness/ethread.c'],   # includes harness/ethread_queue.c
    'sim_src': ['sim/alloc.c', 'sim/umem_sim.c', 'sim/upump_sim.c', 'sim/pthread_sim.c'],
    'repo_src': ['lib/upipe/ubuf_block_mem.c', 'lib/upipe/ubuf_mem_common.c', 'lib/upipe/ubuf_pic_mem.c',
                 'lib/upipe/ubuf_pic_common.c', 'lib/upipe/ubuf_sound_mem.c', 'lib/upipe/ubuf_sound_common.c',
                 'lib/upipe/ubuf_mem.c', 'lib/upipe/ubuf_pic.c', 'lib/upipe/uref_pic_flow.c',
                 'lib/upipe/udict_inline.c', 'lib/upipe/uref_std.c', 'lib/upipe/upump_common.c',
                 'lib/upipe/uprobe.c', 'lib/upipe/uprobe_transfer.c', 'lib/upipe/uprobe_prefix.c'] +
                ['lib/upipe-modules/upipe_%s.c' % m for m in THREAD_MODULES] +
                ['lib/upipe-pthread/upipe_pthread_transfer.c', 'lib/upipe-pthread/uprobe_pthread_upump_mgr.c',
                 'lib/upipe-pthread/umutex_pthread.c'],
    'track_alloc': True,
    'wrap': PTHREAD_WRAPS,
    'real': ['lib/upipe-modules/upipe_%s.c' % m for m in THREAD_MODULES] +
            ['lib/upipe-pthread/upipe_pthread_transfer.c', 'lib/upipe-pthread/uprobe_pthread_upump_mgr.c',
             'lib/upipe-pthread/umutex_pthread.c', 'lib/upipe/uprobe_transfer.c', 'include/upipe/uqueue.h',
             'include/upipe/ueventfd.h', 'include/upipe/upipe_helper_input.h', 'include/upipe/upipe_helper_output.h',
             'include/upipe/upipe_helper_bin_input.h', 'include/upipe/upipe_helper_bin_output.h',
             'lib/upipe/upump_common.c', 'lib/upipe/uref_std.c', 'lib/upipe/ubuf_block_mem.c', 'lib/upipe/udict_inline.c'],
    'stubs': SIM_STUBS + ['POSIX threads, mutexes and thread-specific keys (sim/pthread_sim.c, linked with --wrap)',
                          'event loops (sim/upump_sim.c in place of libev, one per simulated thread) and clock',
                          'allocator (umem_sim + malloc accounting)',
                          'application side: driver pump running the plan, mock remote pipes (source / linear / sink), application sinks, recording probes'],
}

BUF_SRC = ['lib/upipe/ubuf_block_mem.c', 'lib/upipe/ubuf_mem_common.c', 'lib/upipe/ubuf_pic_mem.c',
           'lib/upipe/ubuf_pic_common.c', 'lib/upipe/ubuf_sound_mem.c', 'lib/upipe/ubuf_sound_common.c',
           'lib/upipe/ubuf_mem.c', 'lib/upipe/ubuf_pic.c', 'lib/upipe/uref_pic_flow.c',
           'lib/upipe/udict_inline.c', 'lib/upipe/uref_std.c', 'lib/upipe/uprobe.c']
ENGINES['ets'] = {
    'src': ['harness/ets.c'],
    'sim_src': ['sim/alloc.c', 'sim/umem_sim.c'],
    'inc_first': ['shim'],
    'repo_src': BUF_SRC + ['lib/upipe-ts/upipe_ts_psi_merge.c', 'lib/upipe-ts/upipe_ts_psi_split.c',
                           'lib/upipe-ts/upipe_ts_psi_join.c'],
    'track_alloc': True,
    'real': ['lib/upipe-ts/upipe_ts_psi_merge.c', 'lib/upipe-ts/upipe_ts_psi_split.c', 'lib/upipe-ts/upipe_ts_psi_join.c',
             'include/upipe-ts/uref_ts_flow.h', 'include/upipe/ubuf_block.h', 'include/upipe/upipe_helper_output.h',
             'include/upipe/upipe_helper_subpipe.h', 'lib/upipe/ubuf_block_mem.c', 'lib/upipe/uref_std.c', 'lib/upipe/udict_inline.c'],
    'stubs': ['transport: seeded packetiser cutting sections into TS payloads (pointer fields, stuffing, several sections per payload), '
              'channel that loses payloads, flags discontinuities, corrupts octets',
              'allocator (umem_sim + malloc layer with injected failures)', 'recording sinks',
              'bitstream/mpeg/psi.h replaced by shim/bitstream/mpeg/psi.h (section length, syntax indicator)'],
}

ENGINES['etspes'] = {
    'src': ['harness/ets_pes.c'],
    'sim_src': ['sim/alloc.c', 'sim/umem_sim.c'],
    'inc_first': ['shim'],
    'repo_src': BUF_SRC + ['lib/upipe-ts/upipe_ts_decaps.c', 'lib/upipe-ts/upipe_ts_pes_decaps.c',
                           'lib/upipe-ts/upipe_ts_pes_encaps.c', 'lib/upipe-ts/upipe_ts_encaps.c', 'lib/upipe-ts/upipe_ts_split.c'],
    'track_alloc': True,
    'real': ['lib/upipe-ts/upipe_ts_decaps.c', 'lib/upipe-ts/upipe_ts_pes_decaps.c', 'include/upipe/ubuf_block.h',
             'include/upipe/uref_clock.h', 'include/upipe/upipe_helper_output.h', 'lib/upipe/ubuf_block_mem.c', 'lib/upipe/uref_std.c',
             'lib/upipe/udict_inline.c'],
    'stubs': ['transport: reference PES / TS packetiser written from ISO/IEC 13818-1 (adaptation fields, PCR, stuffing), channel that duplicates, '
              'inserts adaptation-only packets, loses and corrupts packets',
              'allocator (umem_sim + malloc layer with injected failures)', 'recording sink',
              'bitstream/mpeg/ts.h and pes.h replaced by shim/bitstream/mpeg/{ts,pes}.h'],
}

SWEEP_MODULES = ['buffer', 'burst', 'convert_to_block', 'dejitter', 'delay', 'discard_blocking', 'dump', 'genaux', 'htons', 'idem',
                 'match_attr', 'multicat_probe', 'noclock', 'nodemux', 'null', 'probe_uref', 'rate_limit', 'setattr', 'setflowdef',
                 'setrap', 'skip', 'time_limit', 'dtsdi', 'ntsc_prepend', 'aggregate', 'chunk_stream', 'm3u_reader', 'rtp_h264',
                 'rtp_mpeg4']
SWEEP_MODULES2 = ['crop', 'separate_fields', 'row_join', 'rtp_pcm_pack', 'rtp_pcm_unpack', 'sine_wave_source', 'audio_blank', 'audio_copy',
                  'block_to_sound', 'video_blank', 'row_split', 'void_source', 'blank_source']
SWEEP_FILTERS = ['filter_blend', 'audio_max', 'audio_bar', 'audio_graph', 'zoneplate', 'zoneplate_source', 'filter_format']
SWEEP_TS = ['ts_align', 'ts_metadata_generator', 'ts_pcr_interpolator', 'ts_pid_filter', 'ts_tstd', 'ts_sync', 'ts_check']
ENGINES['esweep'] = {
    'src': ['harness/esweep.c', 'shim/simd_stubs.c'],
    'inc_first': ['shim'],
    'sim_src': ['sim/alloc.c', 'sim/umem_sim.c', 'sim/upump_sim.c'],
    'repo_src': BUF_SRC + ['lib/upipe/upump_common.c', 'lib/upipe/uprobe_upump_mgr.c', 'lib/upipe/uprobe_uref_mgr.c',
                           'lib/upipe/uprobe_ubuf_mem.c', 'lib/upipe/uprobe_ubuf_mem_pool.c', 'lib/upipe/uprobe_uclock.c', 'lib/upipe/uprobe_prefix.c', 'lib/upipe/ustring.c',
                           'lib/upipe/uuri.c'] +
                ['lib/upipe-modules/upipe_%s.c' % m for m in SWEEP_MODULES + SWEEP_MODULES2] +
                ['lib/upipe-filters/upipe_%s.c' % m for m in SWEEP_FILTERS] + ['lib/upipe-filters/zoneplate/videotestsrc.c'] +
                ['lib/upipe-ts/upipe_%s.c' % m for m in SWEEP_TS] + ['lib/upipe-modules/upipe_auto_inner.c'] +
                ['lib/upipe-v210/upipe_v210enc.c', 'lib/upipe-v210/v210enc.c', 'lib/upipe-hls/upipe_hls_buffer.c'],
    'ldflags': ['-lm'],
    'track_alloc': True,
    'real': ['lib/upipe-modules/upipe_%s.c' % m for m in SWEEP_MODULES + SWEEP_MODULES2] +
            ['lib/upipe-filters/upipe_%s.c' % m for m in SWEEP_FILTERS] + ['lib/upipe-ts/upipe_%s.c' % m for m in SWEEP_TS[:5]] +
            ['lib/upipe-v210/upipe_v210enc.c', 'lib/upipe-hls/upipe_hls_buffer.c'] +
            ['include/upipe/upipe_helper_output.h', 'include/upipe/upipe_helper_input.h', 'lib/upipe/uprobe_upump_mgr.c',
             'lib/upipe/uprobe_uref_mgr.c', 'lib/upipe/uprobe_ubuf_mem.c', 'lib/upipe/uprobe_uclock.c', 'lib/upipe/upump_common.c',
             'lib/upipe/uref_std.c', 'lib/upipe/udict_inline.c', 'lib/upipe/ubuf_block_mem.c'],
    'stubs': ['event loop (sim/upump_sim.c) and clock', 'allocator (umem_sim + malloc layer with injected failures)',
              'application side: mock sinks (accept / refuse flow definitions), recording probe',
              'the assembly variants of the v210 packing loops resolve to the C reference functions (shim/simd_stubs.c)'],
}

FAM_MODULES = ['dup', 'even', 'play', 'trickplay', 'dejitter', 'audiocont', 'videocont', 'audio_merge', 'audio_split', 'grid', 'blit',
               'sync', 'subpic_schedule', 'stream_switcher']
ENGINES['efam'] = {
    'src': ['harness/efam.c'],
    # upipe_subpic_schedule reads a bool of a sub-pipe that was given no flow definition yet (never initialised, only
    # used to walk an empty list): not a lifetime matter, the load-of-invalid-bool report is switched off for this engine
    'cflags': ['-fno-sanitize=bool'],
    'sim_src': ['sim/alloc.c', 'sim/umem_sim.c', 'sim/upump_sim.c'],
    'repo_src': BUF_SRC + ['lib/upipe/upump_common.c', 'lib/upipe/uprobe_upump_mgr.c', 'lib/upipe/uprobe_uref_mgr.c',
                           'lib/upipe/uprobe_ubuf_mem.c', 'lib/upipe/uprobe_uclock.c', 'lib/upipe/uprobe_prefix.c'] +
                ['lib/upipe-modules/upipe_%s.c' % m for m in FAM_MODULES],
    'ldflags': ['-lm'],
    'track_alloc': True,
    'real': ['lib/upipe-modules/upipe_%s.c' % m for m in FAM_MODULES] +
            ['include/upipe/upipe_helper_subpipe.h', 'include/upipe/upipe_helper_output.h', 'include/upipe/upipe_helper_input.h',
             'lib/upipe/uprobe_upump_mgr.c', 'lib/upipe/uprobe_uref_mgr.c', 'lib/upipe/uprobe_ubuf_mem.c', 'lib/upipe/uprobe_uclock.c',
             'lib/upipe/upump_common.c', 'lib/upipe/uref_std.c', 'lib/upipe/udict_inline.c', 'lib/upipe/ubuf_block_mem.c',
             'lib/upipe/ubuf_pic_mem.c', 'lib/upipe/ubuf_sound_mem.c'],
    'stubs': ['event loop (sim/upump_sim.c) and clock', 'allocator (umem_sim + malloc layer with injected failures)',
              'application side: one mock sink and one recording probe per pipe of the family'],
}

ENGINES['ebufps'] = {
    'src': ['harness/ebufps.c'],
    'sim_src': ['sim/alloc.c', 'sim/umem_sim.c'],
    'repo_src': ['lib/upipe/ubuf_mem_common.c', 'lib/upipe/ubuf_pic_mem.c', 'lib/upipe/ubuf_pic_common.c',
                 'lib/upipe/ubuf_sound_mem.c', 'lib/upipe/ubuf_sound_common.c', 'lib/upipe/ubuf_mem.c', 'lib/upipe/ubuf_pic.c',
                 'lib/upipe/ubuf_block_mem.c', 'lib/upipe/uref_pic_flow.c', 'lib/upipe/udict_inline.c'],
    'track_alloc': True,
    'real': ['lib/upipe/ubuf_pic_mem.c', 'lib/upipe/ubuf_pic_common.c', 'lib/upipe/ubuf_sound_mem.c', 'lib/upipe/ubuf_sound_common.c',
             'lib/upipe/ubuf_mem_common.c', 'include/upipe/ubuf_pic.h', 'include/upipe/ubuf_sound.h', 'include/upipe/ubuf_mem_common.h'],
    'stubs': ['buffer memory allocator (sim/umem_sim.c: accounting, red zones, injected failures)',
              'malloc of the repo objects (sim/alloc.c: accounting + injected failures at allow-listed callers)'],
}

SC = ('interleavings are explored under sequential consistency at the yield points of DESIGN.md 2.1 '
      '(every uatomic operation, every plain ring-element access, every descriptor read/write)')

PROPS = {
    'C07': {
        'engine': 'estruct', 'quick_time': 25, 'thorough_time': 600,
        'rule': ('one case = (client program, schedule): 2-3 simulated threads with 1-4 push/pop (or pool '
                 'alloc/free) operations each on a ulifo / ufifo / upool of capacity 1-4, pre-aged so that '
                 'tags wrap, under a seeded schedule (random, sticky, PCT, starvation). Non-trivial = at least '
                 'one preemption inside an operation; distinct = distinct (plan hash, decision-tape hash).'),
        'assumptions': [SC, 'histories are checked with a Wing-Gong search against the sequential bounded '
                        'FIFO/LIFO specification of DESIGN.md C07 (push may fail when stored + overlapping operations reach capacity)',
                        'a task parked while another reuses one slot 256 (FIFO) / 65536 (LIFO) times is not searched'],
    },
    'C08': {
        'engine': 'estruct', 'quick_time': 25, 'thorough_time': 600,
        'rule': ('one case = (producers 1-3 with 1-4 items each, consumers 1-2, queue length 1-8, EINTR and '
                 'spurious wake-up rates, schedule); clients sleep on the simulated descriptors like the queue pipes do. '
                 'Non-trivial = at least one preemption inside an operation; distinct = distinct (plan hash, decision-tape hash).'),
        'assumptions': [SC, 'waiters are level-triggered on descriptor readability, as upump fd-read watchers are'],
    },
    'C09': {
        'engine': 'estruct', 'quick_time': 20, 'thorough_time': 300,
        'rule': ('one case = (2-3 holders with 1-2 initial references and 1-5 use/release operations each on one urefcount, or 1-2 buffers each and 1-4 '
                 'ubuf_dup / ubuf_block_splice / ubuf_free operations on buffers sharing one memory area of the real ubuf_block_mem manager with pool depths 0/2/8; schedule). '
                 'Non-trivial = at least one preemption inside an operation; distinct = distinct (plan hash, decision-tape hash).'),
        'assumptions': [SC],
    },
}

PROPS['C13'] = {
    'engine': 'eloop', 'quick_time': 20, 'thorough_time': 300,
    'rule': ('one case = a history of 5-25 operations (start, stop, restart, set_status, blocker alloc/free, run the loop for n '
             'dispatches, advance the clock, make a descriptor readable, free, re-alloc, choose what the callback does to itself or '
             'another pump) on 1-3 pumps (idler, one-shot and repeating timer, fd-read) with pump/blocker pool depths {0,2,8}, plus the '
             'recorded choices taken while it runs (dispatch order, spurious fd dispatch, timer lateness, allocation failure). '
             'Non-trivial = the loop was run at least once; distinct = distinct (plan hash, decision-tape hash).'),
    'assumptions': ['the back end is sim/upump_sim.c (same call structure as lib/upump-ev/upump_ev.c); libev itself is not exercised',
                    'restart is exercised on timers only (it is only specified for timers)'],
}

BUF_ASSUME = ['one simulated thread; the explored nondeterminism is the allocator (which allocation fails, inside which operation; '
              'whether a pooled structure is recycled: pool depths 0/1/2/8) and the manager configuration (prepend, append, align, sub-offset)',
              'operations whose validity the documentation leaves open (offset exactly at the end, empty results, negative offsets where not '
              'documented) are not generated; out-of-range requests must be refused and leave every handle unchanged',
              'allocation failures are injected only at callers that test the result (ubuf_block_mem_alloc_inner, ubuf_mem_shared_alloc_inner, umem)']
PROPS['C03'] = {
    'engine': 'ebuf', 'quick_time': 25, 'thorough_time': 600,
    'rule': ('one case = a history of 10-60 operations on up to 6 block handles (alloc, append, insert, delete, truncate, resize, prepend, '
             'splice, split, merge, copy, dup, free, accessor sweeps: size/read/peek/extract/iovec/scan/find/compare/equal/match) with '
             'offsets and sizes drawn from {0, inside, segment boundary, negative, end, out of range}, plus allocation faults attached to '
             'operations and a manager configuration. Distinct = distinct plan hash (every run executes its whole plan).'),
    'assumptions': BUF_ASSUME,
}
PROPS['C02'] = {
    'engine': 'ebuf', 'quick_time': 25, 'thorough_time': 600,
    'rule': ('as C03 with map-for-write operations (15% of the plan): a granted write changes the byte string of that handle only, every '
             'other handle must still read its own byte string; a handle that is the only owner of never-sliced memory must be granted. '
             'Distinct = distinct plan hash.'),
    'assumptions': BUF_ASSUME + ['second engine (ebufps): picture (planar 4:2:0, grey) and sound (planar 16-bit) buffers: alloc, dup, resize inside the area and into the margins, write mappings of sub-rectangles, copy, replace, free; model = grid of known octets per memory area + owner count; resize requests whose meaning is window arithmetic (negative sizes, offsets beyond the end of a sound buffer) are not generated'],
}
PROPS['C10'] = {
    'engine': 'ebuf', 'quick_time': 25, 'thorough_time': 600,
    'rule': ('one case = a history of 8-48 operations on up to 4 dictionaries (set of every base type, named and shorthand, values of '
             '0..65000 octets, names that are prefixes of one another, set from the dictionary\'s own storage, delete, get, dup, import, copy, cmp, '
             'iterate, free) with storage-growth failures attached to operations; initial sizes 0..69, pool depth and growth increments per run. '
             'Distinct = distinct plan hash.'),
    'assumptions': ['one simulated thread; the explored nondeterminism is the allocator (umem_realloc / umem_alloc failure inside an operation) and the manager configuration',
                    'relaxation under an injected failure: a set that reports an allocation error may leave its key with the previous value or absent, every other key unchanged (DESIGN.md C10)',
                    'udict structure allocation (unchecked in udict_inline_alloc) is never failed'],
}

PIPE_RULE = ('one case = (pipeline, history, choices): a chain of 1-4 pipes drawn from {idem, skip, htons, setattr, setflowdef, delay, '
             'match_attr, probe_uref}, or a dup pipe with 1-3 outputs, or queue_sink -> queue_source in one event loop (queue length 1-4), '
             'between a mock source and mock sinks; 5-40 operations (input bursts of sequence-numbered, possibly empty or segmented buffers; '
             'set_flow_def with accepted and rejected definitions; set_output to NULL / back / a new sink at any position; sink switches to '
             'reject once/for a while/for ever; option setters; getters; flush; run the loop; add a dup output; release a handle), allocation faults attached to '
             'operations, pool depths 0/1/2/8, teardown order. Distinct = distinct (plan hash, decision-tape hash).')
PIPE_ASSUME = ['one simulated thread; nondeterminism = order of ready pumps, allocator failures, and the instants chosen by the plan',
               'the reference model of upipe_helper_output (drop without flow def / output, negotiate before sending, renegotiate after a change, invalid after a rejection) is the specification the real pipes are compared with',
               'once an injected allocation failure fired in a run, only the model-free oracles stay armed (order and exactly-once at sinks, flow def before data, ready/dead ordering, nothing left allocated)',
               'reference models exist for the 12 pipe types of the E-pipe catalogue; the sweep engine (esweep) adds 56 more pipe types (29 block pass-through / buffering / packetising types, 20 picture and sound filters, sources and bins (filter_format among them, with the inner chains it builds without swscale), 5 transport stream pipes, v210enc and hls_buffer fed complete flow definitions and real picture / sound buffers) under model-free oracles: lifecycle (C01, C04), order / same payload / immediate delivery where the pipe type promises them, completeness after a drain (sinks that block the pump they are fed from and let go again, loop run dry, clock far ahead) and release of the blocked source pump for the 16 types documented never to drop (C05), option read-back plus a twin execution of the same history without its getters and without the setters the pipe rejected, whose outputs and events must be identical (C20)']
for _p in ('C01', 'C04', 'C05', 'C20'):
    PROPS[_p] = {'engine': 'epipe', 'quick_time': 30, 'thorough_time': 600, 'rule': PIPE_RULE, 'assumptions': list(PIPE_ASSUME)}
PROPS['C12'] = {'engine': 'epipe', 'engines': ['epipe', 'ethread', 'esweep'], 'quick_time': 30, 'thorough_time': 600,
    'rule': ('one case = a chain of 1-4 catalogue pipes (or a dup pipe) between the application and mock sinks, and a history of 5-30 operations: '
             'register / unregister up to 4 requests (sink latency, flow format) on the head pipe, provide an answer at a sink where a proxy is lodged '
             '(once or twice), set_output anywhere to NULL / back / a new sink, release a handle, data; probe providers answer at once or never; '
             'teardown with requests still registered or unregistered first. Distinct = distinct plan hash.'),
    'assumptions': ['three engines: exact routing model over chains of the 12 E-pipe types (in-thread), worker pipes across queues (ethread), and bounds over the 55 sweep types: lodged at the current output between the requests seen travelling and those registered, nothing elsewhere, nothing after death, answers delivered once, no callback after unregister',
                    'request types exercised: sink latency and flow format']}
PROPS['C20']['engines'] = ['epipe', 'estream', 'esweep']
PROPS['C20']['quick_time'] = 45
PROPS['C02']['engines'] = ['ebuf', 'ebufps']
PROPS['C02']['quick_time'] = 30
PROPS['C01']['engines'] = ['epipe', 'ethread', 'esweep', 'efam']
PROPS['C01']['quick_time'] = 45
PROPS['C04']['engines'] = ['epipe', 'esweep', 'efam']
PROPS['C05']['engines'] = ['epipe', 'esweep', 'efam']
PROPS['C05']['quick_time'] = 40
PROPS['C04']['quick_time'] = 40
FAM_NOTE = (' Family engine (efam): one of 14 sub-pipe families (dup, even, play, trickplay, dejitter, audiocont, videocont, audio_merge, audio_split, '
            'grid, blit, sync, subpic_schedule, stream_switcher): super-pipe plus up to 5 sub-pipes, each with its own probe and sink, 4-27 operations '
            '(allocate a sub-pipe, flow definitions, typed inputs, set_output, refusing sinks, release of any pipe at any point, loop runs, clock jumps, '
            'attach, a family option, allocation failures in control commands), everything released at the end in one of three orders.')
for _p in ('C01', 'C04', 'C05'):
    PROPS[_p]['rule'] += FAM_NOTE
    PROPS[_p]['assumptions'].append('family engine: lifecycle, structure (sub_get_super, iterate_sub, super-pipe outlives its sub-pipes) and leak oracles only, no model of what a family does with its data; audio_merge, blit and sync run without allocation failures (they assert on a failed duplication)')
PROPS['C05']['assumptions'][-1] = 'family engine (C05): order and unchanged block payload per pass-through lane (sub-pipes of even, play, trickplay, dejitter; every output of dup); completeness is not judged there (lanes hold or drop by date)'
PROPS['C01']['quick_time'] = 60
PROPS['C04']['quick_time'] = 45
PROPS['C20']['rule'] += (' Second engine (estream): the size / mtu+align / sync-count options of aggregate, chunk_stream, ts_sync, ts_check set in mid-stream '
                        'with allocation failures inside the setter, getters at random instants.')
PROPS['C20']['assumptions'].append('sweep engine: the twin executions run ready watchers in allocation order from the same clock origin, so that they differ in nothing but the skipped calls; events thrown from inside a getter or a rejected setter are not counted as later behaviour')
PROPS['C20']['assumptions'].append('getter side effects are decided by a differential run: the same plan is executed with and without its getter calls (same choices) and the histories seen by sinks and probes must be identical')

PROPS['C14'] = {
    'engine': 'estream', 'quick_time': 30, 'thorough_time': 600,
    'rule': ('one case = (pipe in {aggregate, chunk_stream, ts_sync, ts_check}, configuration: output size / mtu+align / sync count, a generated byte '
             'stream - for TS: aligned packets, garbage, sync octets inside payloads at packet distance - and a fragmentation schedule: 3-24 buffers that are '
             'empty, one octet, exactly / almost / several units long, segmented into up to 3 segments, with discontinuity flags, option changes and getters in '
             'between, allocation faults attached to buffers), released at that point of the stream; stream parsers are then replayed under 3 further '
             'fragmentation schedules of the same octets. Distinct = distinct plan hash.'),
    'assumptions': ['one simulated thread; nondeterminism = how the transport cuts the stream, when the application changes options or lets go, allocator failures',
                    'ts_align (a bin choosing ts_sync / ts_check / idem by flow definition) is not driven directly',
                    'after an injected allocation failure only lifecycle and leak oracles stay armed',
                    'termination of release is decided by the driver watchdog (a run that does not come back is reproduced in a fresh process and reported as class hang)'],
}

PROPS['C06'] = {
    'engine': 'ethread', 'quick_time': 40, 'thorough_time': 900,
    'rule': ('one case = (topology, configuration, plan, schedule): a sink / linear / source worker pipe (real upipe_worker.c, upipe_transfer.c, '
             'queue sink and source, upipe_pthread_transfer.c) around mock remote pipes (optionally chained with idem), or one or two queue sinks on '
             'producer threads feeding one queue source on the application thread; queue lengths 1-4 (sometimes 258), with or without a freeze mutex, '
             'slow remote sink blocking the queue pump, late attach, EINTR on descriptors; the application plan (3-28 operations: input bursts of '
             'sequence-numbered block buffers, flow definition changes, waits, set_output, commands through an automatic or explicit freeze, flush, '
             'set_max_length, request register/provide, release at any time) runs from a pump of its own event loop; every thread runs a simulated '
             'event loop and is preempted at the yield points by the seeded scheduler. Distinct = distinct (plan hash, decision-tape hash).'),
    'assumptions': [SC, 'threads are fibers: POSIX threads, mutexes and keys are simulated (sim/pthread_sim.c)',
                    '"no unsynchronised access between the two threads" is decided only through its observable consequences: confinement of every '
                    'entry into transferred pipes (thread id + mutex owner recorded by the mock pipes), sanitizer-visible corruption and use after free, '
                    'assertions; a data race that is benign under every sequentially consistent interleaving is invisible',
                    'flow definition changes are not driven when two sinks feed one source (whichever was queued last wins by design)',
                    'a run that exhausts its step budget is counted inconclusive, never as a violation'],
    'technique': 'deterministic simulation with fault injection: real worker / transfer / queue pipes on simulated threads (fibers behind wrapped pthread calls), one simulated event loop per thread, seeded scheduler preempting at every atomic operation, ring access, descriptor I/O and mutex operation; sequence-number, flow-definition, end-of-source, thread-confinement, liveness (quiescence = deadlock) and leak oracles; minimised replay files',
    'level_note': 'sequential consistency at the announced yield points; sampling, not enumeration; data races without observable consequence are out of reach (see assumptions); trusted base = sim/*, harness/ethread*.c',
    'design_ref': 'DESIGN.md section 5, E-thread / C06',
}

PROPS['C16'] = {
    'engine': 'ets', 'quick_time': 30, 'thorough_time': 600,
    'rule': ('one case = merge: 1-8 generated sections (3..4096 octets, with and without the syntax indicator, 0xff and header-like octets in the body) cut into '
             'TS payloads of 1..184 octets by a seeded packetiser (pointer fields, several sections per payload, cuts anywhere including inside the 3-octet header, '
             'stuffing, buffers of up to 3 segments), a channel that loses payloads (next one flagged discontinuity), flags discontinuities or silently corrupts octets, '
             'allocation failures inside inputs, release at any payload; split: 1-6 sections sent through 0-4 outputs with 1-8 octet filter/mask sets, outputs added and '
             'removed between sections; join: sections into 1-4 inputs added and removed between sections. Distinct = distinct plan hash.'),
    'assumptions': ['one simulated thread; nondeterminism = how the transport cuts, loses and damages the stream, when outputs come and go, when the application lets go, allocator failures',
                    'bitstream/mpeg/psi.h is a hand-written stand-in (section_length, section_syntax_indicator, minimum length 9 with the syntax indicator)',
                    'under silent corruption (no discontinuity flag) only well-formedness of every output, termination and leak freedom are decided; the resynchronisation clause is decided for damage the transport layer flags (lost payload -> discontinuity on the next one, as upipe_ts_decaps does on a continuity gap)',
                    'filters are generated inside their mask (filter & ~mask == 0)',
                    'after an injected allocation failure only lifecycle and leak oracles stay armed'],
    'technique': 'deterministic simulation with fault injection: a simulated transport cuts generated PSI sections into TS payloads (seeded packetiser), loses / flags / corrupts them, fails allocations, adds and removes outputs and inputs, releases in mid-stream; independent reference merger and matcher as oracle, compared octet for octet; minimised replay files',
    'level_note': 'sampling, not enumeration; trusted base = sim/*, the packetiser and reference merger in harness/ets.c, shim/bitstream/mpeg/psi.h',
    'design_ref': 'DESIGN.md section 5, C16',
}

PROPS['C15'] = {
    'engine': 'etspes', 'quick_time': 30, 'thorough_time': 600,
    'rule': ('one case = 1-8 generated access units (1..4000 octets, start codes / sync octets / 0xff runs inside) wrapped by a reference packetiser into PES packets '
             '(5 stream ids, no timestamp / PTS / PTS+DTS incl. values next to the 33-bit wrap, 0-29 header stuffing octets, bounded and unbounded length) and 188-octet TS packets '
             '(adaptation fields of every length 0..183, PCR, random access indicator, PES header cut across packets), a channel that duplicates packets, inserts adaptation-only packets, '
             'loses runs of 1-13 packets or overwrites 1-6 octets anywhere, buffers of up to 3 segments, allocation failures inside inputs, release at any packet; through '
             'ts_decaps -> pes_decaps into a recording sink. Two further scenarios put the real encapsulation in front: (a) the units go through pes_encaps (stream id, minimum header size, PTS / DTS from 27 MHz dates with sub-90 kHz remainders) and the reference TS packetiser; (b) the harness plays the mux and pulls packet after packet out of ts_encaps along the simulated mux clock (PES alignment on/off, PCR interval, octet rate, mux step, continuity counter start), every packet and PES header is checked by a reference parser, then the sequence goes through the same channel and decapsulation. Loss bursts of 15 and 16 packets. Distinct = distinct plan hash.'),
    'assumptions': ['one simulated thread; nondeterminism = what the channel does to the packet sequence, how packets are segmented in memory, when the application lets go, allocator failures',
                    'round trip through ts_encaps is compared unit by unit with PES alignment; without alignment (units overlap PES packets) only the elementary stream as a whole and the well-formedness of every packet and PES header are decided',
                    'ts_encaps is driven without allocation failures (its error paths leave a half-detached buffer behind; out of scope of C15); upipe_ts_pid_filter.c is not driven; upipe_ts_split.c sits in front of the decapsulation in half of the runs (one or two outputs, packets of another PID or null packets mixed in)',
                    'a gap of exactly 16 packets is invisible in a 4-bit counter: no flag is demanded then',
                    'bitstream/mpeg/ts.h and pes.h are hand-written stand-ins; the packets fed are produced by an independent reference packetiser in the harness, so a layout error in the stand-ins shows as a mismatch',
                    'with corrupt packets only memory safety (ASan, umem red zones), termination, leak freedom and "no more octets out than payload octets in" are decided',
                    'a gap must be flagged on the next buffer that reaches the sink; the first buffer ever delivered may or may not be flagged',
                    'after an injected allocation failure only lifecycle and leak oracles stay armed'],
    'technique': 'deterministic simulation with fault injection: generated access units go through a reference PES/TS packetiser, or through the real pes_encaps, or through the real ts_encaps pulled by a simulated mux clock, then through a simulated channel (duplicates, adaptation-only packets, lost runs, corrupt octets, segmented buffers, allocation failures, release in mid-stream) into the real ts_decaps and pes_decaps; reference parser for every emitted packet and PES header; recovered units, timestamps, markers and discontinuity flags compared with what was carried; minimised replay files',
    'level_note': 'sampling, not enumeration; pid_filter not driven, ts_encaps without allocation faults; trusted base = sim/*, the packetiser and parsers in harness/ets_pes.c, shim/bitstream/mpeg/{ts,pes}.h',
    'design_ref': 'DESIGN.md section 5, C15',
}

TECH = 'deterministic simulation with fault injection: seeded search over schedules / fault sequences, reference-model oracle, minimised replay files'

PROPS['C07'].update({
    'technique': TECH + ' (fiber scheduler at atomic-operation granularity + Wing-Gong linearizability check)',
    'level_note': 'sequential consistency at the announced yield points; sampling, not enumeration; trusted base = sim/sim.c scheduler, the linearizability checker in harness/estruct.c, the two guarded hook commits',
    'design_ref': 'DESIGN.md section 5, C07'})
PROPS['C08'].update({
    'technique': TECH + ' (simulated event descriptors, quiescence = lost wake-up oracle)',
    'level_note': 'sequential consistency at the announced yield points; kernel eventfd and the waiting loop are simulated (level-triggered readability); sampling, not enumeration',
    'design_ref': 'DESIGN.md section 5, C08'})
PROPS['C09'].update({
    'technique': TECH + ' (fiber scheduler at atomic-operation granularity, harness-side reference count as oracle)',
    'level_note': 'sequential consistency at the announced yield points; sampling, not enumeration',
    'design_ref': 'DESIGN.md section 5, C09'})

PROPS['C13'].update({
    'technique': 'deterministic simulation with fault injection: seeded operation histories on the real upump_common.c over a simulated event loop and clock, reference automaton (started, blockers, status) checked after every operation and at every back-end call, minimised replay files',
    'level_note': 'sampling, not enumeration; the event-loop back end is simulated (libev replaced); trusted base = sim/upump_sim.c and the automaton in harness/eloop.c',
    'design_ref': 'DESIGN.md section 5, C13'})

for _p, _d in (('C02', 'C02'), ('C03', 'C03'), ('C10', 'C10')):
    PROPS[_p].update({
        'technique': 'deterministic simulation with fault injection: seeded operation histories on the real buffer / dictionary managers over a simulated allocator (failures at the k-th allocation of an operation, pool recycling), byte-string / typed-map reference model compared after every operation, minimised replay files',
        'level_note': 'sampling, not enumeration; single simulated thread; trusted base = sim/umem_sim.c, sim/alloc.c and the models in harness/ebuf*.c',
        'design_ref': 'DESIGN.md section 5, ' + _d})

for _p in ('C01', 'C04', 'C05', 'C20'):
    PROPS[_p].update({
        'technique': 'deterministic simulation with fault injection: seeded pipelines of real pipes between a mock source and mock sinks over a simulated event loop, clock and allocator; reference model of the output helper and per-pipe transforms (12 pipe types), model-free oracles over 55 more pipe types and 14 sub-pipe families (lifecycle, leak, order, completeness after a drain, twin execution without getters and rejected setters, stale flow definition); allocation failures, refusing and blocking sinks, release at any point; minimised replay files',
        'level_note': 'sampling, not enumeration; one simulated thread except the worker-pipe engine that also serves C01; reference models for 12 pipe types, model-free oracles elsewhere; trusted base = sim/*, harness/epipe.c, harness/esweep.c, harness/efam.c',
        'design_ref': 'DESIGN.md section 5, E-pipe / ' + _p})

PROPS['C12'].update({
    'technique': 'deterministic simulation with fault injection: seeded register / unregister / set_output / provide / release histories over chains of real pipes; routing model evaluated after every operation (each registered request lodged exactly once at the sink the chain leads to), answers traced back through the proxies to the original callback; minimised replay files',
    'level_note': 'sampling, not enumeration; exact routing model in-thread (12 pipe types), worker pipes across queues (ethread), bounds over 56 more pipe types (esweep); trusted base = sim/*, harness/epipe.c, harness/epipe_req.c, the request parts of harness/ethread.c and harness/esweep.c',
    'design_ref': 'DESIGN.md section 5, C12'})

PROPS['C14'].update({
    'technique': 'deterministic simulation with fault injection: a simulated transport cuts generated byte streams into buffers (seeded fragmentation, segmentation, discontinuities, release at any point, allocation failures); reference parsers and byte-conservation oracles; the same stream replayed under other fragmentation schedules; minimised replay files',
    'level_note': 'sampling, not enumeration; trusted base = sim/*, the reference parsers in harness/estream.c, two constants of the bitstream shim',
    'design_ref': 'DESIGN.md section 5, C14'})

LEVEL_TEXT = {
    'C14': 'Seeded byte streams and fragmentation schedules through the real aggregate, chunk_stream, ts_sync and ts_check pipes: outputs are the accepted input octets in order, unit sizes respect the configuration, TS units match a reference parser and start with the sync octet, stream parsers give the same units however the stream is cut, release terminates and leaves nothing allocated. Evidence, not proof.',
    'C12': 'Seeded request histories over chains of real pipes built on upipe_helper_output: after every operation each registered request is lodged exactly once at the terminal the chain currently leads to and nowhere else, answers reach the original requester once with the value given, nothing calls back after unregister or after the chain is released. Also across worker queues (answers delivered on the thread of the requester) and, as bounds, over 55 more pipe types. Evidence, not proof.',
    'C01': 'Seeded pipeline histories biased towards lifetime edges (re-plumbing to NULL, release in mid-run, teardown orders, allocation failures): every pipe throws dead exactly once, sinks are never destroyed while referenced by the application, all managers and probes return to one reference, nothing stays allocated; the same over 55 more pipe types (sweep) and 14 sub-pipe families (super-pipe and sub-pipes released in any order). Evidence, not proof.',
    'C04': 'Seeded pipeline histories: ready first, dead exactly once and last, no event/data/flow definition after dead; every buffer reaches a sink under an accepted flow definition equal to the one in force (reference model and upstream getter), none after a rejection; the lifecycle clauses also over 55 more pipe types and 14 sub-pipe families, where the super-pipe must outlive its sub-pipes. Evidence, not proof.',
    'C05': 'Seeded pipeline histories against a reference model of every catalogue pipe: per sink the delivered sequence (numbers, payload, attributes, dates) equals the model, in order, exactly once; queues deliver held buffers first and in order, flush may only lose what was not delivered yet; 16 more pipe types documented never to drop deliver everything once their output takes data again, the loop ran and time passed, and leave the source pump unblocked. Evidence, not proof.',
    'C20': 'Seeded pipeline histories with getter calls at random instants: getters return what the model says was set (a failed setter leaves the previous value), and a differential run without the getter calls must show identical histories; over 55 more pipe types the same history is executed again without its getters and without the setters the pipe rejected and must send the same buffers, flow definitions and events, and the last accepted value of every option of a pipe is read back at every later getter call, with data, time and re-plumbing in between. Evidence, not proof.',
    'C03': 'Seeded histories of block operations against a plain byte-string model, with allocation failures injected inside operations and out-of-range arguments; every handle is re-read (random probe first, then segment by segment) after every operation. Found and fixed seven defects. Evidence, not proof.',
    'C02': 'Block buffers: the C03 engine with write mappings (a granted write may only change the handle it was issued on; exclusive never-sliced memory must be writable). Picture and sound buffers: seeded histories of alloc / dup / resize / map-for-write / copy / replace / free against a model of areas, owners and windows: a write mapping is granted iff the area has one owner, every handle always reads what the model holds. Evidence, not proof.',
    'C10': 'Seeded histories of dictionary operations against a typed-map model, with storage-growth failures injected inside set/import/dup. Evidence, not proof.',
    'C13': 'Seeded exploration of operation histories on 1-3 pumps with up to 3 blockers each; after every operation the back-end activity must equal started && no blocker, every back-end call must be the expected one with the status in force, callbacks only run for active pumps, free notifies each outstanding blocker exactly once. Evidence, not proof.',
    'C07': 'Seeded exploration of interleavings of small client programs on the real ulifo/ufifo/upool at the granularity of single atomic operations and plain ring accesses; every history is checked for linearizability against a sequential model. Evidence, not proof: a clean batch of some millions of distinct schedules; found and fixed a real ABA defect in uring_fifo_pop.',
    'C08': 'Seeded exploration of producers/consumers sleeping on simulated event descriptors around the real uqueue; any quiescent state with work left is a lost wake-up. Found and fixed the counter-based wake-up defect; evidence, not proof.',
    'C06': 'Seeded exploration of thread interleavings of the real worker, transfer and queue pipes between an application thread and worker / producer threads: every buffer arrives exactly once, in order, under the flow definition it was sent under; end of source only after the last buffer; a full queue holds and later delivers; transferred pipes are only entered from the worker thread or under the freeze mutex; forwarded events arrive on the application thread; everything terminates and nothing stays allocated. Evidence, not proof.',
    'C16': 'Seeded transport histories through the real psi_merge, psi_split and psi_join: the merger returns exactly the sections the transport delivered, in order, once, complete, and picks up again at the next unit start after a flagged loss; every output is a well-formed section whatever comes in; the splitter delivers each section unmodified to exactly the outputs whose filter/mask match; the joiner forwards every section of every input; nothing stays allocated. Evidence, not proof.',
    'C15': 'Seeded packet sequences from an independent reference packetiser through the real ts_decaps and pes_decaps: every access unit the channel did not touch is recovered octet for octet with its DTS, PTS-DTS delay, unit start / PES end / random access markers; duplicates (also of packets that signal a discontinuity themselves) and adaptation-only packets change nothing; every continuity gap is flagged on the next buffer delivered and nothing else is; arbitrary corrupt packets cause no out-of-bounds access, no leak, no output out of nothing; units wrapped by the real pes_encaps and ts_encaps (packets 188 octets, sync, PID, continuity counter +1 per payload packet, PES headers as the standard lays them out) come back intact. Evidence, not proof.',
    'C09': 'Seeded exploration of concurrent use/release on the real urefcount with a harness-side count as oracle (destructor exactly once, never early). Evidence, not proof.',
}

NOT_YET = 'not claimed yet: engine under construction (DESIGN.md section 10)'
NOT_APPLICABLE = {
    'C11': 'pure arithmetic on eight integer fields of one uref: no schedule, clock, fault or second party for a simulator to vary (DESIGN.md section 6)',
    'C17': 'NAL conversion / exp-Golomb are pure functions of their input; the framers need bitstream h264/h265 headers that are absent from the sandbox (DESIGN.md section 6)',
    'C18': 'bit writer/readers are pure functions of (fields, buffer size, segmentation); nothing blocks, allocates, times out or is shared (DESIGN.md section 6)',
    'C19': 'stride/offset arithmetic over formats and sizes; no fault, schedule or clock the property depends on (DESIGN.md section 6)',
}
