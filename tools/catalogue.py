"""Engines (harness binaries) and properties served; data only."""

SIM_STUBS = ['kernel eventfd (descriptor table in sim/sim.c)',
             'threads (ucontext fibers scheduled from the seed)']

ENGINES = {
    'estruct': {
        'src': ['harness/estruct.c'],
        'sim_src': ['sim/upump_sim.c'],
        'repo_src': ['lib/upipe/upump_common.c'],
        'real': ['include/upipe/uatomic.h', 'include/upipe/uring.h', 'include/upipe/ufifo.h',
                 'include/upipe/ulifo.h', 'include/upipe/upool.h', 'include/upipe/uqueue.h',
                 'include/upipe/ueventfd.h', 'include/upipe/urefcount.h', 'include/upipe/udeal.h',
                 'lib/upipe/upump_common.c'],
        'stubs': SIM_STUBS + ['event loop (sim/upump_sim.c in place of libev, over the real upump_common.c)'],
    },
}

ENGINES['eloop'] = {
    'src': ['harness/eloop.c'],
    'sim_src': ['sim/upump_sim.c', 'sim/alloc.c'],
    'repo_src': ['lib/upipe/upump_common.c'],
    'track_alloc': True,
    'real': ['lib/upipe/upump_common.c', 'include/upipe/upump.h', 'include/upipe/upump_blocker.h',
             'include/upipe/upump_common.h', 'include/upipe/upool.h'],
    'stubs': ['event loop back end (sim/upump_sim.c in place of libev)', 'kernel eventfd', 'clock (simulated 27 MHz counter)',
              'malloc of the repo objects (sim/alloc.c: accounting + injected failures)'],
}

SC = ('interleavings are explored under sequential consistency at the yield points of DESIGN.md 2.1 '
      '(every uatomic operation, every plain ring-element access, every descriptor read/write)')

PROPS = {
    'C07': {
        'engine': 'estruct', 'quick_time': 25, 'thorough_time': 600,
        'rule': ('one case = (client program, schedule): 2-3 simulated threads with 1-4 push/pop (or pool '
                 'alloc/free) operations each on a ulifo / ufifo / upool of capacity 1-4, pre-aged so that '
                 'tags wrap, under a seeded schedule (random, sticky, PCT, starvation). Non-trivial = at least '
                 'one preemption inside an operation; distinct = distinct (plan hash, decision-tape hash).'),
        'assumptions': [SC, 'histories are checked with a Wing-Gong search against the sequential bounded '
                        'FIFO/LIFO specification of DESIGN.md C07 (push may fail when stored + overlapping operations reach capacity)',
                        'a task parked while another reuses one slot 256 (FIFO) / 65536 (LIFO) times is not searched'],
    },
    'C08': {
        'engine': 'estruct', 'quick_time': 25, 'thorough_time': 600,
        'rule': ('one case = (producers 1-3 with 1-4 items each, consumers 1-2, queue length 1-8, EINTR and '
                 'spurious wake-up rates, schedule); clients sleep on the simulated descriptors like the queue pipes do. '
                 'Non-trivial = at least one preemption inside an operation; distinct = distinct (plan hash, decision-tape hash).'),
        'assumptions': [SC, 'waiters are level-triggered on descriptor readability, as upump fd-read watchers are'],
    },
    'C09': {
        'engine': 'estruct', 'quick_time': 20, 'thorough_time': 300,
        'rule': ('one case = (2-3 holders with 1-2 initial references and 1-5 use/release operations each, schedule). '
                 'Non-trivial = at least one preemption inside an operation; distinct = distinct (plan hash, decision-tape hash).'),
        'assumptions': [SC],
    },
}

PROPS['C13'] = {
    'engine': 'eloop', 'quick_time': 20, 'thorough_time': 300,
    'rule': ('one case = a history of 5-25 operations (start, stop, restart, set_status, blocker alloc/free, run the loop for n '
             'dispatches, advance the clock, make a descriptor readable, free, re-alloc, choose what the callback does to itself or '
             'another pump) on 1-3 pumps (idler, one-shot and repeating timer, fd-read) with pump/blocker pool depths {0,2,8}, plus the '
             'recorded choices taken while it runs (dispatch order, spurious fd dispatch, timer lateness, allocation failure). '
             'Non-trivial = the loop was run at least once; distinct = distinct (plan hash, decision-tape hash).'),
    'assumptions': ['the back end is sim/upump_sim.c (same call structure as lib/upump-ev/upump_ev.c); libev itself is not exercised',
                    'restart is exercised on timers only (it is only specified for timers)'],
}

TECH = 'deterministic simulation with fault injection: seeded search over schedules / fault sequences, reference-model oracle, minimised replay files'

PROPS['C07'].update({
    'technique': TECH + ' (fiber scheduler at atomic-operation granularity + Wing-Gong linearizability check)',
    'level_note': 'sequential consistency at the announced yield points; sampling, not enumeration; trusted base = sim/sim.c scheduler, the linearizability checker in harness/estruct.c, the two guarded hook commits',
    'design_ref': 'DESIGN.md section 5, C07'})
PROPS['C08'].update({
    'technique': TECH + ' (simulated event descriptors, quiescence = lost wake-up oracle)',
    'level_note': 'sequential consistency at the announced yield points; kernel eventfd and the waiting loop are simulated (level-triggered readability); sampling, not enumeration',
    'design_ref': 'DESIGN.md section 5, C08'})
PROPS['C09'].update({
    'technique': TECH + ' (fiber scheduler at atomic-operation granularity, harness-side reference count as oracle)',
    'level_note': 'sequential consistency at the announced yield points; sampling, not enumeration',
    'design_ref': 'DESIGN.md section 5, C09'})

PROPS['C13'].update({
    'technique': 'deterministic simulation with fault injection: seeded operation histories on the real upump_common.c over a simulated event loop and clock, reference automaton (started, blockers, status) checked after every operation and at every back-end call, minimised replay files',
    'level_note': 'sampling, not enumeration; the event-loop back end is simulated (libev replaced); trusted base = sim/upump_sim.c and the automaton in harness/eloop.c',
    'design_ref': 'DESIGN.md section 5, C13'})

LEVEL_TEXT = {
    'C13': 'Seeded exploration of operation histories on 1-3 pumps with up to 3 blockers each; after every operation the back-end activity must equal started && no blocker, every back-end call must be the expected one with the status in force, callbacks only run for active pumps, free notifies each outstanding blocker exactly once. Evidence, not proof.',
    'C07': 'Seeded exploration of interleavings of small client programs on the real ulifo/ufifo/upool at the granularity of single atomic operations and plain ring accesses; every history is checked for linearizability against a sequential model. Evidence, not proof: a clean batch of some millions of distinct schedules; found and fixed a real ABA defect in uring_fifo_pop.',
    'C08': 'Seeded exploration of producers/consumers sleeping on simulated event descriptors around the real uqueue; any quiescent state with work left is a lost wake-up. Found and fixed the counter-based wake-up defect; evidence, not proof.',
    'C09': 'Seeded exploration of concurrent use/release on the real urefcount with a harness-side count as oracle (destructor exactly once, never early). Evidence, not proof.',
}

NOT_YET = 'not claimed yet: engine under construction (DESIGN.md section 10)'
NOT_APPLICABLE = {
    'C01': NOT_YET, 'C02': NOT_YET, 'C03': NOT_YET, 'C04': NOT_YET, 'C05': NOT_YET, 'C06': NOT_YET,
    'C10': NOT_YET, 'C12': NOT_YET, 'C14': NOT_YET, 'C15': NOT_YET, 'C16': NOT_YET, 'C20': NOT_YET,
    'C11': 'pure arithmetic on eight integer fields of one uref: no schedule, clock, fault or second party for a simulator to vary (DESIGN.md section 6)',
    'C17': 'NAL conversion / exp-Golomb are pure functions of their input; the framers need bitstream h264/h265 headers that are absent from the sandbox (DESIGN.md section 6)',
    'C18': 'bit writer/readers are pure functions of (fields, buffer size, segmentation); nothing blocks, allocates, times out or is shared (DESIGN.md section 6)',
    'C19': 'stride/offset arithmetic over formats and sizes; no fault, schedule or clock the property depends on (DESIGN.md section 6)',
}
