/* The assembly variants of the v210 packing loops are not assembled here:
 * the pipes pick one by CPU feature at allocation time, the names resolve to
 * the C reference functions of the same libraries. What the engines decide
 * (lifetimes, ordering) does not depend on which variant runs. */
#include <stddef.h>
#include <stdint.h>

void upipe_planar_to_v210_8_c(const uint8_t *y, const uint8_t *u, const uint8_t *v, uint8_t *dst, ptrdiff_t pixels);
void upipe_planar_to_v210_10_c(const uint16_t *y, const uint16_t *u, const uint16_t *v, uint8_t *dst, ptrdiff_t pixels);

#define V8(name) void name(const uint8_t *y, const uint8_t *u, const uint8_t *v, uint8_t *dst, ptrdiff_t pixels) \
    { upipe_planar_to_v210_8_c(y, u, v, dst, pixels); }
#define V10(name) void name(const uint16_t *y, const uint16_t *u, const uint16_t *v, uint8_t *dst, ptrdiff_t pixels) \
    { upipe_planar_to_v210_10_c(y, u, v, dst, pixels); }
V8(upipe_planar_to_v210_8_ssse3)
V8(upipe_planar_to_v210_8_avx)
V8(upipe_planar_to_v210_8_avx2)
V10(upipe_planar_to_v210_10_ssse3)
V10(upipe_planar_to_v210_10_avx2)
