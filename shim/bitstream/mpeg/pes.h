/*
 * Minimal stand-in for biTStream's <bitstream/mpeg/pes.h> (absent from this
 * sandbox). Written from ISO/IEC 13818-1 section 2.4.3.6/2.4.3.7 (PES packet
 * header layout); only what lib/upipe-ts/upipe_ts_pes_encaps.c,
 * upipe_ts_pes_decaps.c and upipe_ts_encaps.c use.
 */
#ifndef __BITSTREAM_MPEG_PES_H__
#define __BITSTREAM_MPEG_PES_H__

#include <stdint.h>
#include <stdbool.h>
#include <string.h>

#define PES_HEADER_SIZE             6
#define PES_HEADER_SIZE_NOPTS       9
#define PES_HEADER_SIZE_PTS         14
#define PES_HEADER_SIZE_PTSDTS      19
#define PES_HEADER_OPTIONAL_SIZE    3
#define PES_HEADER_TS_SIZE          5

#define PES_STREAM_ID_MIN           0xbc
#define PES_STREAM_ID_PSM           0xbc
#define PES_STREAM_ID_PRIVATE_1     0xbd
#define PES_STREAM_ID_PADDING       0xbe
#define PES_STREAM_ID_PRIVATE_2     0xbf
#define PES_STREAM_ID_AUDIO_MPEG    0xc0
#define PES_STREAM_ID_VIDEO_MPEG    0xe0
#define PES_STREAM_ID_ECM           0xf0
#define PES_STREAM_ID_EMM           0xf1
#define PES_STREAM_ID_DSMCC         0xf2
#define PES_STREAM_ID_MHEG          0xf3
#define PES_STREAM_ID_H222_1_A      0xf4
#define PES_STREAM_ID_H222_1_B      0xf5
#define PES_STREAM_ID_H222_1_C      0xf6
#define PES_STREAM_ID_H222_1_D      0xf7
#define PES_STREAM_ID_H222_1_E      0xf8
#define PES_STREAM_ID_ANCILLARY     0xf9
#define PES_STREAM_ID_EXTENDED      0xfd
#define PES_STREAM_ID_PSD           0xff

/* packet_start_code_prefix */
static inline void pes_init(uint8_t *p_pes)
{
    p_pes[0] = 0x0;
    p_pes[1] = 0x0;
    p_pes[2] = 0x1;
}

static inline void pes_set_streamid(uint8_t *p_pes, uint8_t i_stream_id) { p_pes[3] = i_stream_id; }
static inline uint8_t pes_get_streamid(const uint8_t *p_pes) { return p_pes[3]; }

static inline void pes_set_length(uint8_t *p_pes, uint16_t i_length)
{
    p_pes[4] = i_length >> 8;
    p_pes[5] = i_length & 0xff;
}
static inline uint16_t pes_get_length(const uint8_t *p_pes) { return (p_pes[4] << 8) | p_pes[5]; }

/* '10', no scrambling, flags cleared, header_data_length; stuffing octets */
static inline void pes_set_headerlength(uint8_t *p_pes, uint8_t i_length)
{
    p_pes[6] = 0x80;
    p_pes[7] = 0x0;
    p_pes[8] = i_length;
    if (i_length > 0)
        memset(&p_pes[9], 0xff, i_length);
}
static inline uint8_t pes_get_headerlength(const uint8_t *p_pes) { return p_pes[8]; }

static inline void pes_set_dataalignment(uint8_t *p_pes) { p_pes[6] |= 0x4; }
static inline bool pes_get_dataalignment(const uint8_t *p_pes) { return !!(p_pes[6] & 0x4); }

static inline bool pes_has_pts(const uint8_t *p_pes) { return !!(p_pes[7] & 0x80); }
static inline bool pes_has_dts(const uint8_t *p_pes) { return (p_pes[7] & 0xc0) == 0xc0; }

static inline bool pes_validate(const uint8_t *p_pes)
{
    return p_pes[0] == 0x0 && p_pes[1] == 0x0 && p_pes[2] == 0x1 &&
           p_pes[3] >= PES_STREAM_ID_MIN;
}
/* '10' marker, PTS_DTS_flags '01' is forbidden */
static inline bool pes_validate_header(const uint8_t *p_pes)
{
    return (p_pes[6] & 0xc0) == 0x80 && (p_pes[7] & 0xc0) != 0x40;
}

/* 33-bit timestamp: 4-bit prefix, 3 bits, marker, 15 bits, marker, 15 bits, marker */
static inline void pes_set_ts(uint8_t *p, uint8_t prefix, uint64_t i_ts)
{
    p[0] = (prefix << 4) | 0x1 | ((i_ts >> 29) & 0xe);
    p[1] = (i_ts >> 22) & 0xff;
    p[2] = 0x1 | ((i_ts >> 14) & 0xfe);
    p[3] = (i_ts >> 7) & 0xff;
    p[4] = 0x1 | ((i_ts << 1) & 0xfe);
}
static inline uint64_t pes_get_ts(const uint8_t *p)
{
    return ((uint64_t)(p[0] & 0xe) << 29) | ((uint64_t)p[1] << 22) |
           ((uint64_t)(p[2] & 0xfe) << 14) | ((uint64_t)p[3] << 7) |
           ((uint64_t)(p[4] & 0xfe) >> 1);
}

static inline void pes_set_pts(uint8_t *p_pes, uint64_t i_pts)
{
    p_pes[7] |= 0x80;
    if (p_pes[8] < PES_HEADER_TS_SIZE)
        p_pes[8] = PES_HEADER_TS_SIZE;
    pes_set_ts(&p_pes[9], (p_pes[7] & 0x40) ? 0x3 : 0x2, i_pts);
}
static inline bool pes_validate_pts(const uint8_t *p_pes)
{
    return (p_pes[9] & 0xe1) == 0x21 && (p_pes[11] & 0x1) && (p_pes[13] & 0x1);
}
static inline uint64_t pes_get_pts(const uint8_t *p_pes) { return pes_get_ts(&p_pes[9]); }

static inline void pes_set_dts(uint8_t *p_pes, uint64_t i_dts)
{
    p_pes[7] |= 0x40;
    if (p_pes[8] < 2 * PES_HEADER_TS_SIZE)
        p_pes[8] = 2 * PES_HEADER_TS_SIZE;
    p_pes[9] |= 0x10;           /* PTS prefix becomes '0011' */
    pes_set_ts(&p_pes[14], 0x1, i_dts);
}
static inline bool pes_validate_dts(const uint8_t *p_pes)
{
    return (p_pes[9] & 0xf1) == 0x31 && (p_pes[11] & 0x1) && (p_pes[13] & 0x1) &&
           (p_pes[14] & 0xf1) == 0x11 && (p_pes[16] & 0x1) && (p_pes[18] & 0x1);
}
static inline uint64_t pes_get_dts(const uint8_t *p_pes) { return pes_get_ts(&p_pes[14]); }

#endif
