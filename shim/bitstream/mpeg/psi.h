/*
 * Minimal stand-in for biTStream's <bitstream/mpeg/psi.h> (absent from this
 * sandbox). Written from ISO/IEC 13818-1 section 2.4.4 (section header
 * layout); only what lib/upipe-ts/upipe_ts_psi_merge.c uses.
 */
#ifndef __BITSTREAM_MPEG_PSI_H__
#define __BITSTREAM_MPEG_PSI_H__

#include <stdint.h>
#include <stdbool.h>

#define PSI_HEADER_SIZE         3
#define PSI_HEADER_SIZE_SYNTAX1 8
#define PSI_CRC_SIZE            4
#define PSI_MAX_SIZE            1021
#define PSI_PRIVATE_MAX_SIZE    4093

static inline uint8_t psi_get_tableid(const uint8_t *p_section) { return p_section[0]; }
static inline bool psi_get_syntax(const uint8_t *p_section) { return !!(p_section[1] & 0x80); }
static inline uint16_t psi_get_length(const uint8_t *p_section)
{
    return ((p_section[1] & 0xf) << 8) | p_section[2];
}

/* a section with the syntax indicator set carries at least the long header
 * and a CRC */
static inline bool psi_validate(const uint8_t *p_section)
{
    if (psi_get_syntax(p_section) &&
        psi_get_length(p_section) < PSI_HEADER_SIZE_SYNTAX1 - PSI_HEADER_SIZE + PSI_CRC_SIZE)
        return false;
    return true;
}

#endif
